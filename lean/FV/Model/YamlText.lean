import FV.Model.Yaml
/-
  The YAML TEXT layer of the netlist exchange format (property C04), for the subset of trees the netlist writer
  produces.

    frame/utils/utils.py            write_yaml  (ruamel `YAML()`, round-trip dumper, `default_flow_style = False`)
                                    read_yaml   (text / file-name discrimination, ruamel `YAML(typ='safe').load`)
    frame/netlist/netlist.py        Netlist.write_yaml  → `write_yaml({Modules: …, Nets: …})`

  `emitText : YVal String → List Char` is the text ruamel's block-style emitter writes for a tree, byte for byte, on
  the subset delimited by `wfRoot` (what `dump_yaml_modules` / `dump_yaml_edges` can produce):
    * block mappings (keys plain, `key: scalar`, `key:` + nested block), nested mappings indented by 2;
    * block sequences, "indentless" under a mapping key (the dashes sit in the column of the key), nested sequences
      compact (`- - x`), indented by 2;
    * empty collections in flow form `[]` / `{}`;
    * a plain scalar value that would end beyond column 80 is written on the next line, two columns deeper than its
      key (`key: ` keeps a blank after the colon);
    * scalars: `true` / `false`; integers in decimal; floats — the tree carries Python's `repr(x)`, the emitter's
      `represent_float` maps `inf`, `-inf`, `nan` to `.inf`, `-.inf`, `.nan` and keeps everything else;
      strings that are identifiers, plain unless the resolver would read the plain form as a Boolean or null
      (`true True TRUE false False FALSE null Null NULL`), then single-quoted.
  `parseText : List Char → Option (YVal String)` is a parser for the same subset (block style only, one scalar per
  line, no comments, no flow collections except `[]` / `{}`, no anchors, no multi-line scalars); it answers `none`
  for every text outside the subset and otherwise the tree `YAML(typ='safe').load` builds (YAML 1.2 resolution:
  `yes`, `on`, `y` … are strings).  A float node carries the argument `float()` receives (`inf`, `-inf`, `nan` for the
  dotted forms, the token itself otherwise).

  Everything is defined on `List Char` (the driver converts from / to `String`).
-/
namespace FV.YT
open FV

/-! ### scalars -/

def nullWords : List (List Char) := [['n','u','l','l'], ['N','u','l','l'], ['N','U','L','L']]
def trueWords : List (List Char) := [['t','r','u','e'], ['T','r','u','e'], ['T','R','U','E']]
def falseWords : List (List Char) := [['f','a','l','s','e'], ['F','a','l','s','e'], ['F','A','L','S','E']]

/-- the plain form of the string would be resolved to `!!bool` / `!!null` (YAML 1.2 core schema as implemented by
    ruamel's `VersionedResolver`): the emitter cannot write it plain. -/
def isReserved (cs : List Char) : Bool := nullWords.contains cs || trueWords.contains cs || falseWords.contains cs

/-- value of a plain scalar made of identifier characters. -/
def resolveWord (cs : List Char) : YVal String :=
  if nullWords.contains cs then .null
  else if trueWords.contains cs then .bool true
  else if falseWords.contains cs then .bool false
  else .str (String.ofList cs)

def allDigits (cs : List Char) : Bool := !cs.isEmpty && cs.all Char.isDigit

/-- split at the first occurrence of `c`. -/
def splitAt1 (c : Char) : List Char → Option (List Char × List Char)
  | [] => none
  | x :: xs => if x = c then some ([], xs) else
      match splitAt1 c xs with
      | some (a, b) => some (x :: a, b)
      | none => none

def unsign : List Char → List Char
  | '-' :: r => r
  | cs => cs

def isMantissa (cs : List Char) (needDot : Bool) : Bool :=
  match splitAt1 '.' cs with
  | some (ip, fp) => allDigits ip && allDigits fp
  | none => !needDot && allDigits cs

def isExponent : List Char → Bool
  | s :: ds => (s = '+' || s = '-') && allDigits ds
  | [] => false

/-- `digits.digits`, `digits.digits e±digits`, `digits e±digits` (unsigned). -/
def isFiniteLit (cs : List Char) : Bool :=
  match splitAt1 'e' cs with
  | some (m, ex) => isMantissa m false && isExponent ex
  | none => isMantissa cs true

def infW : List Char := ['i','n','f']
def ninfW : List Char := ['-','i','n','f']
def nanW : List Char := ['n','a','n']
def dinfW : List Char := ['.','i','n','f']
def dninfW : List Char := ['-','.','i','n','f']
def dnanW : List Char := ['.','n','a','n']

def floatChar (c : Char) : Bool :=
  c.isDigit || c = '-' || c = '+' || c = '.' || c = 'e' || c = 'i' || c = 'n' || c = 'f' || c = 'a'

/-- the forms of Python's `repr(x)` for a `float` (decidable well-formedness of a float scalar of the tree). -/
def isPyFloatRepr (cs : List Char) : Bool :=
  (cs = infW || cs = ninfW || cs = nanW || isFiniteLit (unsign cs)) && cs.all floatChar

/-- ruamel `represent_float` on `repr(x)`. -/
def representFloat (r : List Char) : List Char :=
  if r = infW then dinfW else if r = ninfW then dninfW else if r = nanW then dnanW else r

/-- ruamel `construct_yaml_float` up to the final `float(…)`: the string handed to `float`. -/
def constructFloat (tok : List Char) : Option (List Char) :=
  if tok = dinfW then some infW else if tok = dninfW then some ninfW else if tok = dnanW then some nanW
  else if isFiniteLit (unsign tok) && tok.all floatChar then some tok else none

/-- canonical decimal integer: `-?(0|[1-9][0-9]*)`. -/
def isIntLit (cs : List Char) : Bool :=
  let b := unsign cs
  allDigits b && (b == ['0'] || b.head? != some '0')

def parseIntLit : List Char → Int
  | '-' :: r => -((Nat.ofDigitChars 10 r 0 : Nat) : Int)
  | cs => ((Nat.ofDigitChars 10 cs 0 : Nat) : Int)

/-- `str(i)` for a Python `int`. -/
def emitInt (i : Int) : List Char :=
  if i < 0 then '-' :: Nat.toDigits 10 i.natAbs else Nat.toDigits 10 i.toNat

/-- a plain scalar that does not start like an identifier. -/
def classifyNumeric (cs : List Char) : Option (YVal String) :=
  if cs = ['~'] then some .null
  else if isIntLit cs then some (.int (parseIntLit cs))
  else match constructFloat cs with
    | some r => some (.float (String.ofList r))
    | none => none

/-- the body of a single-quoted scalar (after the opening quote): identifier characters, then the closing quote. -/
def classifyQuoted (r : List Char) : Option (YVal String) :=
  match r.getLast? with
  | some c => if c = '\'' && r.dropLast.all identRest then some (.str (String.ofList r.dropLast)) else none
  | none => none

/-- value of one scalar token (`[]` and `{}` included). -/
def classify (cs : List Char) : Option (YVal String) :=
  if cs = ['[', ']'] then some (.seq [])
  else if cs = ['{', '}'] then some (.map [])
  else match cs with
    | [] => none
    | c :: r =>
      if c = '\'' then classifyQuoted r
      else if identStart c then (if r.all identRest then some (resolveWord cs) else none)
      else classifyNumeric cs

/-- a mapping key: a scalar. -/
def classifyKey (cs : List Char) : Option (YVal String) :=
  match classify cs with
  | some (.seq _) => none
  | some (.map _) => none
  | r => r

/-- the text of a scalar (or of an empty collection). -/
def emitScalar : YVal String → List Char
  | .null => ['n','u','l','l']         -- never written by the netlist writer (excluded by `wfNode`)
  | .bool true => ['t','r','u','e']
  | .bool false => ['f','a','l','s','e']
  | .int i => emitInt i
  | .float r => representFloat r.toList
  | .str s => if isReserved s.toList then '\'' :: (s.toList ++ ['\'']) else s.toList
  | .seq _ => ['[', ']']
  | .map _ => ['{', '}']

/-! ### lines -/

/-- one line of a block-style document: `indent` spaces, `dashes` times `- `, then `key:`, `key: val` or `val`;
    `trail`: the line is `key: ` with a blank after the colon and nothing else (the emitter has moved a value that would
    pass column 80 to the next line). -/
structure Line where
  indent : Nat
  dashes : Nat
  key : Option (YVal String)
  val : Option (YVal String)
  trail : Bool
  deriving Inhabited

def dashStr : Nat → List Char
  | 0 => []
  | n+1 => '-' :: ' ' :: dashStr n

def showLine (l : Line) : List Char :=
  List.replicate l.indent ' ' ++ dashStr l.dashes ++
    (match l.key, l.val with
     | some k, some v => emitScalar k ++ (':' :: ' ' :: emitScalar v)
     | some k, none => emitScalar k ++ (if l.trail then [':', ' '] else [':'])
     | none, some v => emitScalar v
     | none, none => [])

def stripDashes : List Char → Nat × List Char
  | '-' :: ' ' :: r => let p := stripDashes r; (p.1 + 1, p.2)
  | cs => (0, cs)

/-- what follows the indentation and the dashes: `key:`, `key: val` or `val`. -/
def lexBody (ind d : Nat) (b : List Char) : Option Line :=
  match splitAt1 ':' b with
  | none =>
    match classify b with
    | some v => some ⟨ind, d, none, some v, false⟩
    | none => none
  | some (k, after) =>
    match classifyKey k with
    | none => none
    | some kv =>
      match after with
      | [] => some ⟨ind, d, some kv, none, false⟩
      | [' '] => some ⟨ind, d, some kv, none, true⟩
      | ' ' :: vt =>
        match classify vt with
        | some v => some ⟨ind, d, some kv, some v, false⟩
        | none => none
      | _ => none

def lexLine (cs : List Char) : Option Line :=
  let p := stripDashes (cs.dropWhile (· = ' '))
  lexBody (cs.takeWhile (· = ' ')).length p.1 p.2

/-- the segments between line feeds (`"a\nb\n"` ↦ `["a", "b", ""]`). -/
def splitNL : List Char → List (List Char)
  | [] => [[]]
  | c :: r =>
    if c = '\n' then [] :: splitNL r
    else match splitNL r with
      | h :: t => (c :: h) :: t
      | [] => [[c]]

/-- the lines of a text that ends with a line feed. -/
def textLines (cs : List Char) : Option (List (List Char)) :=
  let segs := splitNL cs
  match segs.getLast? with
  | some [] => some segs.dropLast
  | _ => none

def mapO {β γ : Type} (f : β → Option γ) : List β → Option (List γ)
  | [] => some []
  | x :: xs =>
    match f x with
    | none => none
    | some y =>
      match mapO f xs with
      | none => none
      | some ys => some (y :: ys)

/-! ### tree → lines -/

/-- written on the line of its key / dash: scalars and empty collections. -/
def isScalarLike : YVal String → Bool
  | .seq [] => true
  | .map [] => true
  | .seq _ => false
  | .map _ => false
  | _ => true

/-- written plain (no quotes, not a flow collection): the scalars the emitter moves to the next line when they would
    pass the line width. -/
def isPlainVal : YVal String → Bool
  | .str s => !isReserved s.toList
  | .seq _ => false
  | .map _ => false
  | _ => true

/-- ruamel `write_plain`: a word that would end beyond column 80 (`best_width`) gets a line of its own — for the value
    of a `key: value` entry whose key starts in column `c`. -/
def wraps (c : Nat) (k v : YVal String) : Bool :=
  isPlainVal v && decide (80 < c + (emitScalar k).length + 2 + (emitScalar v).length)

/-- `- ` in front of the first line of a nested block (compact form). -/
def addDash (c : Nat) : List Line → List Line
  | [] => []
  | h :: t => { h with indent := c, dashes := h.dashes + 1 } :: t

mutual
/-- lines of a non-empty collection whose entries start in column `c`. -/
def nodeLines (c : Nat) : YVal String → List Line
  | .seq l => seqLines c l
  | .map l => mapLines c l
  | _ => []
def seqLines (c : Nat) : List (YVal String) → List Line
  | [] => []
  | v :: vs =>
    (if isScalarLike v then [⟨c, 1, none, some v, false⟩] else addDash c (nodeLines (c + 2) v)) ++ seqLines c vs
def mapLines (c : Nat) : List (YVal String × YVal String) → List Line
  | [] => []
  | (k, v) :: r =>
    (if isScalarLike v then
       (if wraps c k v then [⟨c, 0, some k, none, true⟩, ⟨c + 2, 0, none, some v, false⟩]
        else [⟨c, 0, some k, some v, false⟩])
     else ⟨c, 0, some k, none, false⟩ :: (match v with
        | .seq _ => nodeLines c v            -- indentless sequence
        | _ => nodeLines (c + 2) v)) ++ mapLines c r
end

def linesText (ls : List Line) : List Char := (ls.map fun l => showLine l ++ ['\n']).flatten

/-- the text `write_yaml(tree)` returns. -/
def emitText (t : YVal String) : List Char := linesText (nodeLines 0 t)

/-! ### lines → tree -/

/-- after `- ` has been read from a line of a sequence in column `c`: what remains starts in column `c + 2`. -/
def Line.strip (c : Nat) (h : Line) : Line := { h with indent := c + 2, dashes := h.dashes - 1 }

/-- recursion budget of the block parser. -/
def weight : List Line → Nat
  | [] => 0
  | h :: t => h.dashes + 1 + weight t

mutual
/-- the items of a block sequence whose dashes are in column `c`, and the lines left over. -/
def pSeq : Nat → Nat → List Line → Option (List (YVal String) × List Line)
  | 0, _, _ => none
  | _ + 1, _, [] => some ([], [])
  | fuel + 1, c, h :: t =>
    if h.indent = c ∧ 1 ≤ h.dashes then
      let h2 := h.strip c
      let item : Option (YVal String × List Line) :=
        if 1 ≤ h2.dashes then
          match pSeq fuel (c + 2) (h2 :: t) with
          | some p => some (YVal.seq p.1, p.2)
          | none => none
        else if h2.key.isSome then
          match pMap fuel (c + 2) (h2 :: t) with
          | some p => some (YVal.map p.1, p.2)
          | none => none
        else
          match h2.val with
          | some v => some (v, t)
          | none => none
      match item with
      | none => none
      | some (v, rest) =>
        match pSeq fuel c rest with
        | none => none
        | some (vs, rest') => some (v :: vs, rest')
    else some ([], h :: t)
/-- the entries of a block mapping whose keys are in column `c`, and the lines left over. -/
def pMap : Nat → Nat → List Line → Option (List (YVal String × YVal String) × List Line)
  | 0, _, _ => none
  | _ + 1, _, [] => some ([], [])
  | fuel + 1, c, h :: t =>
    match h.key with
    | none => some ([], h :: t)
    | some k =>
      if h.indent = c ∧ h.dashes = 0 then
        let entry : Option (YVal String × List Line) :=
          match h.val with
          | some v => some (v, t)
          | none =>
            match t with
            | [] => none
            | n :: _ =>
              if 1 ≤ n.dashes ∧ c ≤ n.indent then
                match pSeq fuel n.indent t with
                | some p => some (YVal.seq p.1, p.2)
                | none => none
              else if n.dashes = 0 ∧ c < n.indent ∧ n.key.isSome then
                match pMap fuel n.indent t with
                | some p => some (YVal.map p.1, p.2)
                | none => none
              else if n.dashes = 0 ∧ c < n.indent then
                -- a scalar on a line of its own, deeper than the key
                match n.val with
                | some v => some (v, t.tail)
                | none => none
              else none
        match entry with
        | none => none
        | some (v, rest) =>
          match pMap fuel c rest with
          | none => none
          | some (es, rest') => some ((k, v) :: es, rest')
      else some ([], h :: t)
end

/-- a whole document: one block collection in column 0. -/
def parseLines (ls : List Line) : Option (YVal String) :=
  match ls with
  | [] => none
  | h :: _ =>
    if h.indent ≠ 0 then none
    else if 1 ≤ h.dashes then
      match pSeq (weight ls + 1) 0 ls with
      | some (l, []) => some (.seq l)
      | _ => none
    else if h.key.isSome then
      match pMap (weight ls + 1) 0 ls with
      | some (m, []) => some (.map m)
      | _ => none
    else none

/-- `YAML(typ='safe').load(text)` on the subset (`none` = outside the subset). -/
def parseText (cs : List Char) : Option (YVal String) :=
  match textLines cs with
  | none => none
  | some raw =>
    match mapO lexLine raw with
    | none => none
    | some ls => parseLines ls

/-! ### well-formedness (decidable): the trees for which `emitText` is ruamel's output -/

/-- a mapping key the emitter writes as a simple key: an identifier of at most 122 characters (ruamel switches to the
    `? key` form when tag + key reach 128 characters). -/
def wfKey : YVal String → Bool
  | .str s => validIdent s && decide (s.length ≤ 122)
  | _ => false

mutual
def wfNode : YVal String → Bool
  | .null => false
  | .bool _ => true
  | .int _ => true
  | .float r => isPyFloatRepr r.toList
  | .str s => validIdent s
  | .seq l => wfSeq l
  | .map l => wfMap l
def wfSeq : List (YVal String) → Bool
  | [] => true
  | v :: vs => wfNode v && wfSeq vs
def wfMap : List (YVal String × YVal String) → Bool
  | [] => true
  | (k, v) :: r => wfKey k && wfNode v && wfMap r
end

/-- a document: a non-empty block collection of well-formed nodes. -/
def wfRoot (t : YVal String) : Bool := !isScalarLike t && wfNode t

/-! ### `read_yaml`'s discrimination between a YAML text and a file name -/

def hasColonSpace : List Char → Bool
  | ':' :: ' ' :: _ => true
  | _ :: r => hasColonSpace r
  | [] => false

/-- `stream.find(": ") >= 0 or stream.find("\n") >= 0`. -/
def isYamlText (cs : List Char) : Bool := hasColonSpace cs || cs.contains '\n'

/-! ### change of the float representation (`repr` / `float` at the leaves) -/

mutual
def mapF {α β : Type} (f : α → β) : YVal α → YVal β
  | .null => .null
  | .bool b => .bool b
  | .int i => .int i
  | .float x => .float (f x)
  | .str s => .str s
  | .seq l => .seq (mapFSeq f l)
  | .map l => .map (mapFMap f l)
def mapFSeq {α β : Type} (f : α → β) : List (YVal α) → List (YVal β)
  | [] => []
  | v :: vs => mapF f v :: mapFSeq f vs
def mapFMap {α β : Type} (f : α → β) : List (YVal α × YVal α) → List (YVal β × YVal β)
  | [] => []
  | (k, v) :: r => (mapF f k, mapF f v) :: mapFMap f r
end

end FV.YT

import FV.Model.Geom
/-
  Executable model of `frame/die/die.py` (class `Die`), `frame/die/yaml_parse_die.py`
  and `gather_boundaries` of `frame/geometry/geometry.py`.

  The model follows the Python line by line; the Python member is named next to each definition.
  It models the code *with the two repairs of `fixes/C01_*.diff` applied* (`_check_rectangles`:
  the inside-the-die test uses the die's distance tolerance, the area test a tolerance relative to the
  die area).

  Relational part: the order in which `_find_best_rectangle` takes candidates out of a Python `set`
  depends on hashing, and the criterion ("largest area") is announced as provisional in the code.  The
  cover is therefore modelled as a *relation*: `coverAccept nr nc m picks` accepts every sequence of index
  rectangles each of which is all-free when it is picked and which leaves no free cell.  The observed
  order of `Die.ground_regions` is the pick trace.  `detPicks` is one deterministic instance.

  No Mathlib import here: this file is compiled into the driver.
-/
namespace FV.Die
open FV FV.Rect

variable {α : Type} [Add α] [Sub α] [Mul α] [Div α] [Neg α] [LT α] [LE α]
  [DecidableLT α] [DecidableLE α] [NatCast α] [DecidableEq α]

/-! ### the parsed YAML tree (what `read_yaml` returns) -/

/-- YAML value after `ruamel.yaml` (`typ='safe'`).  `num` stands for `int`, `float` **and** `bool`
    (`is_number(True)` holds in Python: `bool` is a `numbers.Real`; `True` behaves as `1`).
    Map keys are strings (a non-string key is any string that is not a keyword). -/
inductive YV (α : Type) where
  | num : α → YV α
  | str : String → YV α
  | null : YV α
  | list : List (YV α) → YV α
  | map : List (String × YV α) → YV α
  deriving Inhabited

/-- `assert` = a Python `AssertionError`; `trace` = the supplied pick sequence is not an admissible
    run of the cover loop (not a Python behaviour: it means "this is not what the code can do"). -/
inductive Err | assert | trace
  deriving DecidableEq, Repr, Inhabited

def Err.toStr : Err → String
  | .assert => "err:Assert" | .trace => "err:Trace"

/-- `valid_identifier`: `re.fullmatch('^[A-Za-z_][A-Za-z0-9_]*', s)`. -/
def isIdStart (c : Char) : Bool :=
  (decide ('A' ≤ c) && decide (c ≤ 'Z')) || (decide ('a' ≤ c) && decide (c ≤ 'z')) || c == '_'
def isIdChar (c : Char) : Bool := isIdStart c || (decide ('0' ≤ c) && decide (c ≤ '9'))
def validIdentifier (s : String) : Bool :=
  match s.toList with
  | [] => false
  | c :: cs => isIdStart c && cs.all isIdChar

def KW_GROUND : String := "_"
def KW_BLOCKAGE : String := "#"

/-- result of `parse_yaml_die`: the die shape and the non-ground rectangles, in document order. -/
structure DieIn (α : Type) where
  W : α
  H : α
  regions : List (Rect α)

/-- `parse_die_rectangle`: a list of exactly 5 entries, four numbers `≥ 0` and a tag that is an
    identifier or `#`, not `_`; then the `Rectangle` constructor demands `w > 0`, `h > 0`. -/
def parseRect : YV α → Except Err (Rect α)
  | .list [.num a, .num b, .num c, .num d, .str t] =>
      if !(decide (zero ≤ a) && decide (zero ≤ b) && decide (zero ≤ c) && decide (zero ≤ d)) then .error .assert
      else if !(validIdentifier t || t == KW_GROUND || t == KW_BLOCKAGE) then .error .assert
      else if t == KW_GROUND then .error .assert
      else if !(decide (zero < c) && decide (zero < d)) then .error .assert      -- `Rectangle.__init__`
      else .ok { cx := a, cy := b, w := c, h := d, region := t }
  | _ => .error .assert

/-- `[f(x) for x in l]` where `f` may raise. -/
def mapE {β γ : Type} (f : β → Except Err γ) : List β → Except Err (List γ)
  | [] => .ok []
  | x :: t =>
    match f x with
    | .error e => .error e
    | .ok y =>
      match mapE f t with
      | .error e => .error e
      | .ok ys => .ok (y :: ys)

def lookup (k : String) (kv : List (String × YV α)) : Option (YV α) :=
  (kv.find? fun p => p.1 == k).map (·.2)

/-- `parse_yaml_die` on a tree (the `<w>x<h>` string shorthand is the tree `{width: w, height: h}`). -/
def parseDie : YV α → Except Err (DieIn α)
  | .map kv =>
      if !(kv.all fun p => p.1 == "width" || p.1 == "height" || p.1 == "regions") then .error .assert else
      match lookup "width" kv, lookup "height" kv with
      | some (.num w), some (.num h) =>
          if !(decide (zero < w)) then .error .assert
          else if !(decide (zero < h)) then .error .assert
          else
            match lookup "regions" kv with
            | none => .ok { W := w, H := h, regions := [] }
            | some (.list (x :: rest)) =>
                -- `if is_number(rlist[0]): rlist = [rlist]`
                let rlist : List (YV α) := match x with
                  | .num _ => [.list (x :: rest)]
                  | _ => x :: rest
                match mapE parseRect rlist with
                | .ok rs => .ok { W := w, H := h, regions := rs }
                | .error e => .error e
            | some _ => .error .assert
      | _, _ => .error .assert
  | _ => .error .assert

/-! ### tolerances -/

/-- the three tolerances the constructor works with: `Rectangle._distance_epsilon`,
    `Rectangle._area_epsilon` (class-wide) and `Die._epsilon`. -/
structure Eps (α : Type) where
  d : α
  a : α
  die : α

/-- the literal `10e-12`. -/
@[inline] def tenEm11 : α := ((1 : Nat) : α) / ((100000000000 : Nat) : α)

/-- `self._epsilon = min(w, h) * 10e-12; if not Rectangle.epsilon_defined(): Rectangle.set_epsilon(self._epsilon)`.
    `st` is the class-wide pair (`none` = undefined); `sqrt` is `math.sqrt` (a parameter: libm).
    Returns the tolerances in force and the class-wide pair afterwards. -/
def mkEps (sqrt : α → α) (st : Option (α × α)) (W H : α) : Eps α × (α × α) :=
  let e := pyMin W H * tenEm11
  match st with
  | some (d, a) => ({ d := d, a := a, die := e }, (d, a))
  | none => ({ d := e, a := sqrt e, die := e }, (e, sqrt e))

/-! ### `gather_boundaries` -/

/-- the loop `for i, val in enumerate(x): if i == 0 or val > uniq[-1] + epsilon: uniq.append(val)`;
    `last` is `uniq[-1]` (`none` while `uniq` is empty). -/
def dedupe (ε : α) : Option α → List α → List α
  | _, [] => []
  | none, v :: t => v :: dedupe ε (some v) t
  | some u, v :: t => if u + ε < v then v :: dedupe ε (some v) t else dedupe ε (some u) t

/-- `x.sort()` (any sort gives the same sequence of values). -/
def sortAsc (l : List α) : List α := l.mergeSort fun a b => decide (a ≤ b)

def boundsX (rs : List (Rect α)) : List α := rs.flatMap fun r => [r.xmin, r.xmax]
def boundsY (rs : List (Rect α)) : List α := rs.flatMap fun r => [r.ymin, r.ymax]

/-- `gather_boundaries` with `epsilon = Rectangle.distance_epsilon()`. -/
def gather (ε : α) (rs : List (Rect α)) : List α × List α :=
  (dedupe ε none (sortAsc (boundsX rs)), dedupe ε none (sortAsc (boundsY rs)))

/-! ### the cell matrix -/

/-- `self._x[i]` — all reads are in range by construction (`i ≤ nc`). -/
@[inline] def at' (xs : List α) (i : Nat) : α := xs.getD i zero

/-- occupancy matrix, `m r c` = `self._cells[r][c]` (row = y index, column = x index). -/
abbrev Mat := Nat → Nat → Bool

/-- `_calculate_cell_matrix`: the cell is occupied iff its centre is `point_inside` some region. -/
def occ (xs ys : List α) (regs : List (Rect α)) : Mat := fun r c =>
  regs.any fun R => R.pointInside ((at' xs c + at' xs (c + 1)) / two) ((at' ys r + at' ys (r + 1)) / two)

/-- materialise a matrix (performance only). -/
def toArr (nr nc : Nat) (m : Mat) : Array (Array Bool) :=
  Array.ofFn (n := nr) fun r => Array.ofFn (n := nc) fun c => m r.val c.val

def ofArr (a : Array (Array Bool)) (dflt : Mat) : Mat := fun r c =>
  match a[r]? with
  | some row => match row[c]? with
    | some b => b
    | none => dflt r c
  | none => dflt r c

/-- `GroundRegion`: inclusive index ranges (`area` and `ratio` are functions of the indices). -/
structure IRect where
  rmin : Nat
  rmax : Nat
  cmin : Nat
  cmax : Nat
  deriving DecidableEq, Repr, Inhabited

namespace IRect
def contains (g : IRect) (r c : Nat) : Bool :=
  decide (g.rmin ≤ r) && decide (r ≤ g.rmax) && decide (g.cmin ≤ c) && decide (c ≤ g.cmax)
/-- a non-empty index rectangle inside an `nr × nc` matrix. -/
def wf (g : IRect) (nr nc : Nat) : Bool :=
  decide (g.rmin ≤ g.rmax) && decide (g.rmax < nr) && decide (g.cmin ≤ g.cmax) && decide (g.cmax < nc)
def growRow (g : IRect) : IRect := { g with rmax := g.rmax + 1 }
def growCol (g : IRect) : IRect := { g with cmax := g.cmax + 1 }
end IRect

/-- `not any(self._cells[row][j] for j in range(cmin, cmax + 1))`. -/
def rowFree (m : Mat) (row cmin cmax : Nat) : Bool :=
  (List.range' cmin (cmax + 1 - cmin)).all fun j => !m row j
/-- `not any(self._cells[i][col] for i in range(rmin, rmax + 1))`. -/
def colFree (m : Mat) (col rmin rmax : Nat) : Bool :=
  (List.range' rmin (rmax + 1 - rmin)).all fun i => !m i col
/-- `not any(self._cells[row][col] for row in range(rmin, rmax+1) for col in range(cmin, cmax+1))`. -/
def allFree (m : Mat) (g : IRect) : Bool :=
  (List.range' g.rmin (g.rmax + 1 - g.rmin)).all fun r => rowFree m r g.cmin g.cmax

/-- "Occupy the cells". -/
def occupy (m : Mat) (g : IRect) : Mat := fun r c => m r c || g.contains r c

/-! ### `_expand_rectangle` / `_find_all_ground_rectangles` -/

/-- `if valid: …; if new_r not in g_regions: g_regions.add(new_r); pending.append(new_r)` on the pair
    (`pending`, `g_regions`). -/
def push (valid : Bool) (x : IRect) (ps : List IRect × List IRect) : List IRect × List IRect :=
  if valid && !ps.2.contains x then (ps.1 ++ [x], ps.2 ++ [x]) else ps

/-- the `while len(pending) > 0` loop: `pending` is the deque, `seen` the set `g_regions`
    (two `GroundRegion`s are `==` iff their indices are: `area`, `ratio` are functions of the indices).
    `none` = out of fuel (proved impossible for the fuel used, `bfs_fuel_enough`). -/
def bfs (m : Mat) (nr nc : Nat) : Nat → List IRect → List IRect → Option (List IRect)
  | _, [], seen => some seen
  | 0, _ :: _, _ => none
  | f + 1, r :: rest, seen =>
    let p1 := push (decide (r.rmax + 1 < nr) && rowFree m (r.rmax + 1) r.cmin r.cmax) r.growRow (rest, seen)
    let p2 := push (decide (r.cmax + 1 < nc) && colFree m (r.cmax + 1) r.rmin r.rmax) r.growCol p1
    bfs m nr nc f p2.1 p2.2

/-- `_expand_rectangle(GroundRegion(r, r, c, c, …))`. -/
def expand (m : Mat) (nr nc : Nat) (r c : Nat) : Option (List IRect) :=
  bfs m nr nc (nr * nc + 1) [⟨r, r, c, c⟩] [⟨r, r, c, c⟩]

def cellList (nr nc : Nat) : List (Nat × Nat) :=
  (List.range nr).flatMap fun r => (List.range nc).map fun c => (r, c)

/-- `_find_all_ground_rectangles`: the set union of the expansions of every free cell. -/
def allFreeRects (m : Mat) (nr nc : Nat) : Option (List IRect) :=
  (cellList nr nc).foldlM (fun acc rc =>
    if m rc.1 rc.2 then some acc else
    match expand m nr nc rc.1 rc.2 with
    | some more => some (acc ++ more.filter fun g => !acc.contains g)
    | none => none) []

/-! ### the cover: relation and one deterministic instance -/

/-- one admissible step of the `while len(all_rectangles) > 0` loop, as far as the tiling needs it:
    the pick is a non-empty index rectangle inside the matrix, all of whose cells are free. -/
def CoverStep (nr nc : Nat) (m : Mat) (g : IRect) (m' : Mat) : Prop :=
  g.wf nr nc = true ∧ allFree m g = true ∧ m' = occupy m g

/-- run a pick sequence; `none` if some pick is not admissible. -/
def coverRun (nr nc : Nat) : Mat → List IRect → Option Mat
  | m, [] => some m
  | m, g :: t => if g.wf nr nc && allFree m g then coverRun nr nc (occupy m g) t else none

/-- no free cell (the candidate set is empty exactly then, `cands_empty_iff`). -/
def noFree (nr nc : Nat) (m : Mat) : Bool :=
  (List.range nr).all fun r => (List.range nc).all fun c => m r c

/-- the pick sequence is an admissible complete run of the cover loop. -/
def coverAccept (nr nc : Nat) (m : Mat) (picks : List IRect) : Bool :=
  match coverRun nr nc m picks with
  | some m' => noFree nr nc m'
  | none => false

/-- `GroundRegion.area` (`height * width`; the 1×1 start uses `width * height`, the same double). -/
def gArea (xs ys : List α) (g : IRect) : α :=
  (at' ys (g.rmax + 1) - at' ys g.rmin) * (at' xs (g.cmax + 1) - at' xs g.cmin)

/-- the selection loop of `_find_best_rectangle` over the candidates in list order
    (`max_value = -1.0`, strict `>`: first maximal one in iteration order). -/
def bestOf (xs ys : List α) (cands : List IRect) : Option IRect :=
  (cands.foldl (fun (acc : α × Option IRect) g =>
      if acc.1 < gArea xs ys g then (gArea xs ys g, some g) else acc) (negOne, none)).2

/-- the loop of `_calculate_ground_rectangles` with list order as the set order. -/
def greedy (xs ys : List α) : Nat → Mat → List IRect → List IRect → Except Err (List IRect)
  | _, _, [], acc => .ok acc.reverse
  | 0, _, _ :: _, _ => .error .trace
  | f + 1, m, c :: cs, acc =>
    match bestOf xs ys (c :: cs) with
    | none => .error .assert                       -- `assert best_reg is not None`
    | some b =>
      let m' := occupy m b
      greedy xs ys f m' ((c :: cs).filter fun g => allFree m' g) (b :: acc)

/-! ### ground rectangles and the self-check -/

/-- the `Rectangle(**kwargs)` at the end of `_find_best_rectangle`. -/
def pickRect (xs ys : List α) (g : IRect) : Rect α :=
  { cx := (at' xs g.cmin + at' xs (g.cmax + 1)) / two,
    cy := (at' ys g.rmin + at' ys (g.rmax + 1)) / two,
    w := at' xs (g.cmax + 1) - at' xs g.cmin,
    h := at' ys (g.rmax + 1) - at' ys g.rmin,
    region := KW_GROUND }

/-- … whose constructor asserts positive width and height. -/
def mkGround (xs ys : List α) (g : IRect) : Except Err (Rect α) :=
  let r := pickRect xs ys g
  if decide (zero < r.w) && decide (zero < r.h) then .ok r else .error .assert

/-- Python `abs` on a float. -/
@[inline] def pyAbs (x : α) : α := if x < zero then -x else x

/-- one step of the Neumaier loop of CPython 3.12 `sum()`. -/
def neumaierStep (s : α × α) (x : α) : α × α :=
  let t := s.1 + x
  if pyAbs x ≤ pyAbs s.1 then (t, s.2 + ((s.1 - t) + x)) else (t, s.2 + ((x - t) + s.1))

/-- Python 3.12 `sum(floats)`: `0 + x0`, then compensated additions, the compensation added at the end
    when it is non-zero. -/
def pySum : List α → α
  | [] => zero
  | x0 :: xs =>
    let s := xs.foldl neumaierStep (zero + x0, zero)
    if s.2 = zero then s.1 else s.1 + s.2

/-- `itertools.combinations(l, 2)`. -/
def pairsOf {β : Type} : List β → List (β × β)
  | [] => []
  | x :: t => t.map (fun y => (x, y)) ++ pairsOf t

/-- `Rectangle(center=Point(w/2, h/2), shape=Shape(w, h))`. -/
def dieRect (W H : α) : Rect α := { cx := W / two, cy := H / two, w := W, h := H }

/-- repaired inside-the-die test: both corners within the die's distance tolerance. -/
def insideTol (e : α) (die r : Rect α) : Bool :=
  decide (die.xmin - e ≤ r.xmin) && decide (r.xmax ≤ die.xmax + e) &&
  decide (die.ymin - e ≤ r.ymin) && decide (r.ymax ≤ die.ymax + e)

/-- `_check_rectangles` (repaired): inside, pairwise `not overlap`, area sum. -/
def selfCheck (ε : Eps α) (W H : α) (all : List (Rect α)) : Bool :=
  let die := dieRect W H
  (all.all fun r => insideTol ε.die die r) &&
  ((pairsOf all).all fun p => !overlap ε.a p.1 p.2) &&
  decide (pyAbs (pySum (all.map Rect.area) - die.area) < ε.die * pyMax W H)

/-! ### the constructor -/

/-- what the `Die` object reports. -/
structure DieOut (α : Type) where
  W : α
  H : α
  specialized : List (Rect α)
  ground : List (Rect α)
  blockages : List (Rect α)
  fixed : List (Rect α)

/-- `specialized + ground + blockages + fixed` (order of `_check_rectangles`). -/
def DieOut.all (o : DieOut α) : List (Rect α) := o.specialized ++ o.ground ++ o.blockages ++ o.fixed

def specOf (inp : DieIn α) : List (Rect α) := inp.regions.filter fun r => r.region != KW_BLOCKAGE
def blockOf (inp : DieIn α) : List (Rect α) := inp.regions.filter fun r => r.region == KW_BLOCKAGE
/-- the rectangles that occupy cells. -/
def occRects (inp : DieIn α) (fixed : List (Rect α)) : List (Rect α) := specOf inp ++ blockOf inp ++ fixed

/-- the Hanan grid of the die. -/
def gridOf (ε : Eps α) (inp : DieIn α) (fixed : List (Rect α)) : List α × List α :=
  gather ε.d (occRects inp fixed ++ [dieRect inp.W inp.H])

/-- `Die.__init__` after parsing, for a given pick trace. -/
def dieCore (ε : Eps α) (inp : DieIn α) (fixed : List (Rect α)) (picks : List IRect) : Except Err (DieOut α) :=
  let g := gridOf ε inp fixed
  let nc := g.1.length - 1
  let nr := g.2.length - 1
  let m0 := occ g.1 g.2 (occRects inp fixed)
  let arr := toArr nr nc m0
  let m := ofArr arr m0
  if !coverAccept nr nc m picks then .error .trace else
  match mapE (mkGround g.1 g.2) picks with
  | .error e => .error e
  | .ok ground =>
    let out : DieOut α := { W := inp.W, H := inp.H, specialized := specOf inp, ground := ground,
                            blockages := blockOf inp, fixed := fixed }
    if selfCheck ε inp.W inp.H out.all then .ok out else .error .assert

/-- the deterministic pick sequence (list order instead of set order). -/
def detPicks (ε : Eps α) (inp : DieIn α) (fixed : List (Rect α)) : Except Err (List IRect) :=
  let g := gridOf ε inp fixed
  let nc := g.1.length - 1
  let nr := g.2.length - 1
  let m0 := occ g.1 g.2 (occRects inp fixed)
  let arr := toArr nr nc m0
  let m := ofArr arr m0
  match allFreeRects m nr nc with
  | none => .error .trace
  | some cands => greedy g.1 g.2 (cands.length + 1) m cands []

/-- `Die(text, netlist)`: parse, fix the tolerances, decompose, self-check.
    `picks = none` runs the deterministic instance. -/
def dieModel (sqrt : α → α) (st : Option (α × α)) (doc : YV α) (fixed : List (Rect α))
    (picks : Option (List IRect)) : Except Err (DieOut α × Eps α × (α × α)) :=
  match parseDie doc with
  | .error e => .error e
  | .ok inp =>
    let es := mkEps sqrt st inp.W inp.H
    let pk : Except Err (List IRect) := match picks with
      | some p => .ok p
      | none => detPicks es.1 inp fixed
    match pk with
    | .error e => .error e
    | .ok p =>
      match dieCore es.1 inp fixed p with
      | .error e => .error e
      | .ok out => .ok (out, es.1, es.2)

/-- evidence only: was each pick of maximal area among the rectangles that were all-free at that moment? -/
def maxFlags (xs ys : List α) (nr nc : Nat) : Mat → List IRect → List Bool
  | _, [] => []
  | m, g :: t =>
    let cands := (allFreeRects m nr nc).getD []
    (cands.all fun c => !(decide (gArea xs ys g < gArea xs ys c))) :: maxFlags xs ys nr nc (occupy m g) t

end FV.Die

import FV.Model.Scalar
/-
  Executable model of `tools/force/fruchterman_reingold.py`
  (`fruchterman_reingold_layout`, `total_intersection_area`, `force_algorithm`) and of
  `HyperEdge.wire_length` / `Netlist.wire_length` (`frame/netlist/netlist_types.py`, `netlist.py`).

  The model is polymorphic in the scalar `α` and generic in
    * `Ops.sqrt`     — `math.sqrt`,
    * `Ops.powHalf`  — `x ** (1/2)`   (libm `pow(x, 0.5)` in CPython, *not* `sqrt`),
    * `Ops.sq`       — `x ** 2`       (libm `pow(x, 2.0)`),
    * `Ops.pi`       — `math.pi`,
    * `disc`         — `circle_circle_intersection_area` (owned by C17, opaque here).
  It is executed at `Float` with `Float.sqrt` / `Float.pow` (= libm) by `drv_place`, and the invariants are
  proved for every linearly ordered field and *every* choice of these parameters (`FV/Props/C13.lean`).

  Python objects that the algorithm never reads (module names, rectangles, aspect ratios, …) travel in the
  payload field `rest : β`, so that the frame condition ("nothing but centres changes") is a statement
  about the model and not an artefact of leaving things out.

  No Mathlib import here: the driver is a compiled executable.
-/
namespace FV.Force
open FV

/-- the numeric library the layout uses. -/
structure Ops (α : Type) where
  sqrt : α → α
  powHalf : α → α
  sq : α → α
  pi : α
  /-- `x < float("inf")` (true for every number of an ordered field; false for `inf` and NaN doubles). -/
  ltInf : α → Bool

/-- the exceptions of the force code: `ZeroDivisionError` (`/ num_modules`, `/ k`, `/ len(net)`) and a failing
    `assert` (a module without centre where one is required). -/
inductive FErr | zeroDiv | assertion
  deriving DecidableEq, Repr, Inhabited

def FErr.toStr : FErr → String
  | .zeroDiv => "err:ZeroDivisionError" | .assertion => "err:AssertionError"

/-- a module as the force layout sees it: `center` (`None` allowed), `area()`, `is_fixed`, and the rest. -/
structure Mod (α β : Type) where
  center : Option (α × α)
  area : α
  fixed : Bool
  rest : β

/-- a hyperedge: pins are indices into the module list (`mod2idx`), and the weight. -/
structure Net (α : Type) where
  pins : List Nat
  weight : α
  deriving Inhabited

/-- the die with its netlist. -/
structure Inst (α β : Type) where
  W : α
  H : α
  mods : List (Mod α β)
  nets : List (Net α)

variable {α : Type} [Add α] [Sub α] [Mul α] [Div α] [Neg α] [LT α] [LE α]
  [DecidableLT α] [DecidableLE α] [NatCast α]

/-! ### literals and `Point` arithmetic (component-wise, as `frame.geometry.geometry.Point`) -/

@[inline] def zero : α := ((0 : Nat) : α)
@[inline] def one : α := ((1 : Nat) : α)
@[inline] def two : α := ((2 : Nat) : α)
@[inline] def ten : α := ((10 : Nat) : α)
/-- the literal `0.1` (`1/10` rounds to the same double). -/
@[inline] def tenth : α := ((1 : Nat) : α) / ((10 : Nat) : α)
/-- the literal `1e-6` (`1/10^6` rounds to the same double). -/
@[inline] def tiny : α := ((1 : Nat) : α) / ((1000000 : Nat) : α)

abbrev Pt (α : Type) := α × α

/-- `Point()` = `Point(0, 0)`. -/
@[inline] def pzero : Pt α := (zero, zero)
/-- `p + q`. -/
@[inline] def padd (p q : Pt α) : Pt α := (p.1 + q.1, p.2 + q.2)
/-- `p - q` (`Point.__sub__` is `p + (-q)`; the same double). -/
@[inline] def psub (p q : Pt α) : Pt α := (p.1 + -q.1, p.2 + -q.2)
/-- `p * s` for a number `s` (`Point(s) = (s, s)`). -/
@[inline] def pscale (p : Pt α) (s : α) : Pt α := (p.1 * s, p.2 * s)
/-- `p / s` for a number `s`. -/
@[inline] def pdiv (p : Pt α) (s : α) : Pt α := (p.1 / s, p.2 / s)
/-- `p.norm()` = `(x**2 + y**2) ** (1/2)`. -/
@[inline] def pnorm (o : Ops α) (p : Pt α) : α := o.powHalf (o.sq p.1 + o.sq p.2)

/-- `x == 0` on doubles (true for `±0.0`, false for NaN) / in a field: when Python's `/ x` raises. -/
@[inline] def isZeroF (x : α) : Bool := decide (x ≤ zero) && decide (zero ≤ x)

/-- the clamp `min(hi, max(lo, x))` of lines 123–124. -/
@[inline] def clamp (lo hi x : α) : α := pyMin hi (pyMax lo x)

/-! ### `fruchterman_reingold_layout` -/

/-- `f_att(x, w) = w * x**2 / k`. -/
@[inline] def fAtt (o : Ops α) (k x w : α) : α := w * o.sq x / k
/-- `f_rep(x, w) = w * k**2 / max(x, 1e-6)`. -/
@[inline] def fRep (o : Ops α) (k x w : α) : α := w * o.sq k / pyMax x tiny

/-- `die_repelling(p, w)`. -/
def dieRepelling (o : Ops α) (W H k : α) (p : Pt α) (w : α) : Pt α :=
  let r : Pt α := pzero
  let r := if p.1 < -W / two + W / ten then padd r (pscale (one, zero) (fRep o k (p.1 + W / two) w)) else r
  let r := if W / two - W / ten < p.1 then padd r (pscale (-one, zero) (fRep o k (W / two - p.1) w)) else r
  let r := if p.2 < -H / two + H / ten then padd r (pscale (zero, one) (fRep o k (p.2 + H / two) w)) else r
  let r := if H / two - H / ten < p.2 then padd r (pscale (zero, -one) (fRep o k (H / two - p.2) w)) else r
  r

/-- lines 102–109: repulsion on node `v` (from every other node, plus the die walls once per other node). -/
def repulsion (o : Ops α) (W H k : α) (n : Nat) (area : Nat → α) (pos : List (Pt α)) (v : Nat) : Pt α :=
  (List.range n).foldl (fun d u =>
    if u = v then d else
      let pv := pos.getD v pzero
      let diff := psub pv (pos.getD u pzero)
      let dn := pyMax (pnorm o diff) tiny
      padd d (padd (pscale (pdiv diff dn) (fRep o k dn (area v))) (dieRepelling o W H k pv (area v)))) pzero

/-- `itertools.combinations(l, 2)`. -/
def pairs {γ : Type} : List γ → List (γ × γ)
  | [] => []
  | x :: xs => xs.map (fun y => (x, y)) ++ pairs xs

/-- lines 111–117: attraction along every pair of every hyperedge, in order. -/
def attraction (o : Ops α) (k : α) (nets : List (Net α)) (pos : List (Pt α)) (disp : List (Pt α)) : List (Pt α) :=
  nets.foldl (fun disp e =>
    (pairs e.pins).foldl (fun disp vu =>
      let v := vu.1
      let u := vu.2
      let diff := psub (pos.getD v pzero) (pos.getD u pzero)
      let dn := pyMax (pnorm o diff) tiny
      let f := pscale (pdiv diff dn) (fAtt o k dn e.weight)
      let disp := disp.set v (psub (disp.getD v pzero) f)
      disp.set u (padd (disp.getD u pzero) f)) disp) disp

/-- lines 120–124 for one node: fixed nodes are skipped; the others move by at most `t` and are clamped. -/
def moveOne (o : Ops α) (W H t : α) (fixed : Bool) (p d : Pt α) : Pt α :=
  if fixed then p else
    let dn := pyMax (pnorm o d) tiny
    let q := padd p (pscale (pdiv d dn) (pyMin dn t))
    (clamp (-W / two) (W / two) q.1, clamp (-H / two) (H / two) q.2)

/-- `die.netlist.modules[v].area()` / `.is_fixed` (indices are always in range in the code). -/
def modArea {β : Type} (inst : Inst α β) (v : Nat) : α := match inst.mods[v]? with | some m => m.area | none => zero
def modFixed {β : Type} (inst : Inst α β) (v : Nat) : Bool := match inst.mods[v]? with | some m => m.fixed | none => false

/-- one iteration of the main loop (lines 102–124) at temperature `t`. -/
def frStep (o : Ops α) {β : Type} (inst : Inst α β) (k t : α) (pos : List (Pt α)) : List (Pt α) :=
  let n := inst.mods.length
  let area := modArea inst
  let disp := (List.range n).map (repulsion o inst.W inst.H k n area pos)
  let disp := attraction o k inst.nets pos disp
  (List.range n).map fun v =>
    moveOne o inst.W inst.H t (modFixed inst v) (pos.getD v pzero) (disp.getD v pzero)

/-- the loop `for i in range(max_iter)` with `t -= dt`. -/
def frLoop (o : Ops α) {β : Type} (inst : Inst α β) (k dt : α) : Nat → α → List (Pt α) → List (Pt α)
  | 0, _, pos => pos
  | i + 1, t, pos => frLoop o inst k dt i (t - dt) (frStep o inst k t pos)

/-- line 92: positions relative to the die centre (`Point()` for a module without centre). -/
def initPos {β : Type} (inst : Inst α β) : List (Pt α) :=
  inst.mods.map fun m => match m.center with
    | some c => psub c (pdiv (inst.W, inst.H) two)
    | none => pzero

/-- `t`, `dt` of lines 69–70. -/
def temp0 {β : Type} (inst : Inst α β) : α := pyMax inst.W inst.H * tenth
def tempStep {β : Type} (inst : Inst α β) (maxIter : Nat) : α := temp0 inst / ((maxIter + 1 : Nat) : α)

/-- `k` of line 72; `/ num_modules` raises `ZeroDivisionError` for a netlist without modules. -/
def springK (o : Ops α) {β : Type} (inst : Inst α β) (kappa : α) : Except FErr α :=
  if inst.mods.length = 0 then .error .zeroDiv
  else .ok (kappa * o.powHalf (inst.W * inst.H / ((inst.mods.length : Nat) : α)))

/-- `f_att` divides by `k`: with `k == 0` (e.g. `kappa = 0`) the first attraction term raises `ZeroDivisionError`,
    i.e. as soon as there is an iteration and a net with two pins.  (All other divisors are `max(·, 1e-6)`,
    `max_iter + 1`, `2`, `10`: never zero.)  The exception aborts the call, so the guard is hoisted. -/
def attractionRaises (k : α) (maxIter : Nat) (nets : List (Net α)) : Bool :=
  isZeroF k && decide (0 < maxIter) && nets.any (fun e => decide (2 ≤ e.pins.length))

/-- final positions (die-centred coordinates) after `maxIter` iterations. -/
def frPositions (o : Ops α) {β : Type} (inst : Inst α β) (kappa : α) (maxIter : Nat) : Except FErr (List (Pt α)) := do
  let k ← springK o inst kappa
  if attractionRaises k maxIter inst.nets then .error .zeroDiv
  else pure (frLoop o inst k (tempStep inst maxIter) maxIter (temp0 inst) (initPos inst))

/-- lines 140–141: write the centres back (`pos[v] + Point(W, H) / 2`); nothing else is assigned. -/
def writeCentres {β : Type} (inst : Inst α β) (pos : List (Pt α)) : Inst α β :=
  let ms := (List.range inst.mods.length).zipWith
    (fun v m => { m with center := some (padd (pos.getD v pzero) (pdiv (inst.W, inst.H) two)) }) inst.mods
  { inst with mods := ms }

/-- `fruchterman_reingold_layout(die, kappa, max_iter=maxIter)` (no visualisation). -/
def frLayout (o : Ops α) {β : Type} (inst : Inst α β) (kappa : α) (maxIter : Nat) : Except FErr (Inst α β) := do
  let pos ← frPositions o inst kappa maxIter
  pure (writeCentres inst pos)

/-! ### cost and `force_algorithm` -/

/-- Python 3.12 `sum()` of floats: Neumaier compensated summation (`Python/bltinmodule.c`). -/
def pyAbs (x : α) : α := if x < zero then -x else x

def nsumStep (s : α × α) (x : α) : α × α :=
  let t := s.1 + x
  if pyAbs x ≤ pyAbs s.1 then (t, s.2 + ((s.1 - t) + x)) else (t, s.2 + ((x - t) + s.1))

def nsum (xs : List α) : α :=
  let s := xs.foldl nsumStep (zero, zero)
  s.1 + s.2

/-- `total_intersection_area`: plain `+=` over all ordered pairs of distinct modules; a missing centre is the
    failing `assert`. -/
def totalIntersectionArea (o : Ops α) (disc : Pt α → α → Pt α → α → α) {β : Type} (inst : Inst α β) : Except FErr α :=
  let n := inst.mods.length
  (List.range n).foldlM (fun acc i =>
    (List.range n).foldlM (fun acc j =>
      if i = j then pure acc else
        match inst.mods[i]?, inst.mods[j]? with
        | some m1, some m2 =>
          match m1.center, m2.center with
          | some c1, some c2 => pure (acc + disc c1 (o.sqrt (m1.area / o.pi)) c2 (o.sqrt (m2.area / o.pi)))
          | _, _ => .error .assertion
        | _, _ => .error .assertion) acc) zero

/-- `HyperEdge.wire_length` (`/= len(self.modules)` raises for a net without pins). -/
def netWireLength (o : Ops α) {β : Type} (inst : Inst α β) (e : Net α) : Except FErr α := do
  let cs ← e.pins.mapM fun v => match inst.mods[v]? with
    | some m => match m.center with
      | some c => pure c
      | none => .error .assertion
    | none => .error .assertion
  if cs.length = 0 then .error .zeroDiv
  else
    let ip := pdiv (cs.foldl padd pzero) ((cs.length : Nat) : α)
    let wl := cs.foldl (fun acc c => let v := psub ip c; acc + o.sqrt (v.1 * v.1 + v.2 * v.2)) zero
    pure (wl * e.weight)

/-- `Netlist.wire_length` = `sum([e.wire_length for e in edges])`. -/
def wireLength (o : Ops α) {β : Type} (inst : Inst α β) : Except FErr α := do
  let ls ← inst.nets.mapM (netWireLength o inst)
  pure (nsum ls)

/-- `cost = intersection_area + wire_length / 2`. -/
def cost (o : Ops α) (disc : Pt α → α → Pt α → α → α) {β : Type} (inst : Inst α β) : Except FErr α := do
  let ia ← totalIntersectionArea o disc inst
  let wl ← wireLength o inst
  pure (ia + wl / two)

/-- the loop of lines 158–173 over a list of `(kappa, cost)`, from `best_cost = inf`, `best_kappa = 0.0` (= `none`):
    a candidate replaces the current best when its cost is strictly smaller; against `inf` that is `ltInf cost`
    (false for `inf` / NaN costs, which therefore never win — as in Python). -/
def argminFrom {κ : Type} (ltInf : α → Bool) (cs : List (κ × α)) (best : Option (κ × α)) : Option (κ × α) :=
  cs.foldl (fun best x => match best with
    | none => if ltInf x.2 then some x else none
    | some b => if x.2 < b.2 then some x else some b) best

/-- `[i / 10 for i in range(4, 16)]`. -/
def kappas : List α := (List.range 12).map fun i => ((i + 4 : Nat) : α) / ten

/-- the cost of the layout of every spring constant, in order (any exception aborts). -/
def costTable (f : α → Except FErr α) : List α → Except FErr (List (α × α))
  | [] => .ok []
  | kp :: ks => do
    let c ← f kp
    let r ← costTable f ks
    pure ((kp, c) :: r)

/-- cost of the layout computed for one spring constant (the layout runs on a `deepcopy`). -/
def costOf (o : Ops α) (disc : Pt α → α → Pt α → α → α) {β : Type} (inst : Inst α β) (maxIter : Nat) (kp : α) :
    Except FErr α := do
  let l ← frLayout o inst kp maxIter
  cost o disc l

/-- the spring constant selected by `force_algorithm`: `none` = `best_kappa` is still `0.0`. -/
def bestKappa (o : Ops α) (disc : Pt α → α → Pt α → α → α) {β : Type} (inst : Inst α β)
    (ks : List α) (maxIter : Nat) : Except FErr (Option (α × α)) := do
  let cs ← costTable (costOf o disc inst maxIter) ks
  pure (argminFrom o.ltInf cs none)

/-- `force_algorithm(die, max_iter=maxIter)`: the layout recomputed with the best spring constant
    (with `0.0` when no cost was below `inf`: Python then divides by zero or returns the `kappa = 0` layout). -/
def forceAlgorithm (o : Ops α) (disc : Pt α → α → Pt α → α → α) {β : Type} (inst : Inst α β)
    (maxIter : Nat) : Except FErr (Inst α β) := do
  let b ← bestKappa o disc inst kappas maxIter
  match b with
  | some b => frLayout o inst b.1 maxIter
  | none => frLayout o inst zero maxIter

/-! ### the `visualize` branches (lines 112–115, 147–150, 155–157; as repaired by `fixes/C13_visualize_final_writeback.diff`)

  With `visualize is not None` the centres are written back to the die BEFORE the loop and AFTER EVERY iteration, each
  time followed by `get_floorplan_plot(die.netlist, …)`; the repaired code writes them once more after the loop
  whatever `visualize` is (the code as found did so only for `visualize is None`).
  The plot is NOT read-only: `tools/draw/draw.py: calculate_centers` calls `m.calculate_center_from_rectangles()`, which
  ASSIGNS the centre of every module that has rectangles and sits on a net.  It is therefore a parameter
  `plot : Inst → Inst` of the model (an arbitrary function; the theorems assume only that it changes nothing but
  centres).  The loop itself never reads a centre again (`pos` is a separate list), but it does read `area()` /
  `is_fixed` of the very die object that was just overwritten: the model steps on the CURRENT die `cur`, not on the
  input.  A frame = what the plot is handed: the centres of all modules at that moment.  (An exception raised by the
  plot — a module that is "not drawable" — is not modelled.) -/

/-- the centres of the modules of a die (`None` allowed). -/
def centresOf {β : Type} (inst : Inst α β) : List (Option (Pt α)) := inst.mods.map (·.center)

/-- the loop with `visualize is not None`: after every step the centres are written to the die, a frame is drawn
    (and the plot may have changed the die). -/
def frLoopVis (o : Ops α) {β : Type} (plot : Inst α β → Inst α β) (k dt : α) :
    Nat → α → List (Pt α) → Inst α β → List (List (Option (Pt α))) →
      List (Pt α) × Inst α β × List (List (Option (Pt α)))
  | 0, _, pos, cur, frames => (pos, cur, frames)
  | i + 1, t, pos, cur, frames =>
    let pos' := frStep o cur k t pos
    let cur' := writeCentres cur pos'
    frLoopVis o plot k dt i (t - dt) pos' (plot cur') (frames ++ [centresOf cur'])

/-- `fruchterman_reingold_layout(die, kappa, visualize=…, max_iter=maxIter)`: the die returned and the frames drawn
    (`vis = false`: `visualize is None`, no frame — `frLayout`). -/
def frLayoutVis (o : Ops α) {β : Type} (plot : Inst α β → Inst α β) (inst : Inst α β) (kappa : α) (maxIter : Nat)
    (vis : Bool) : Except FErr (Inst α β × List (List (Option (Pt α)))) := do
  let k ← springK o inst kappa
  if attractionRaises k maxIter inst.nets then .error .zeroDiv
  else if vis then
    let cur := writeCentres inst (initPos inst)
    let r := frLoopVis o plot k (tempStep inst maxIter) maxIter (temp0 inst) (initPos inst) (plot cur) [centresOf cur]
    pure (writeCentres r.2.1 r.1, r.2.2)
  else
    pure (writeCentres inst (frLoop o inst k (tempStep inst maxIter) maxIter (temp0 inst) (initPos inst)), [])

/-- the code AS FOUND (before the repair): no write-back after the loop when visualising — the die comes back as the
    last plot left it. -/
def frLayoutVisAsFound (o : Ops α) {β : Type} (plot : Inst α β → Inst α β) (inst : Inst α β) (kappa : α) (maxIter : Nat) :
    Except FErr (Inst α β × List (List (Option (Pt α)))) := do
  let k ← springK o inst kappa
  if attractionRaises k maxIter inst.nets then .error .zeroDiv
  else
    let cur := writeCentres inst (initPos inst)
    let r := frLoopVis o plot k (tempStep inst maxIter) maxIter (temp0 inst) (initPos inst) (plot cur) [centresOf cur]
    pure (r.2.1, r.2.2)

/-- `force_algorithm(die, visualize=…, max_iter=maxIter)`: the twelve scored runs never visualise (`None` is passed);
    `visualize` is forwarded to the final run only. -/
def forceAlgorithmVis (o : Ops α) (disc : Pt α → α → Pt α → α → α) {β : Type} (plot : Inst α β → Inst α β)
    (inst : Inst α β) (maxIter : Nat) (vis : Bool) : Except FErr (Inst α β × List (List (Option (Pt α)))) := do
  let b ← bestKappa o disc inst kappas maxIter
  match b with
  | some b => frLayoutVis o plot inst b.1 maxIter vis
  | none => frLayoutVis o plot inst zero maxIter vis

/-! ### relabelling the payload (everything the algorithm never reads) -/

/-- replace the payload of every module (name, rectangles, aspect ratio, … — whatever `rest` stands for). -/
def mapRest {β γ : Type} (f : β → γ) (inst : Inst α β) : Inst α γ :=
  { W := inst.W, H := inst.H, nets := inst.nets,
    mods := inst.mods.map fun m => { center := m.center, area := m.area, fixed := m.fixed, rest := f m.rest } }

end FV.Force

import FV.Model.Geom
/-
  Executable model of the bookkeeping of global floorplanning (`tools/glbfloor/optimization.py`):

  * `getA`, `neighCells`, `aIsConst`  — which entries of the ratio table `model.a[m][c]` are constants
                                         placed by FRAME and which are solver variables
                                         (`get_a`, `get_neighbouring_cells`, `optimize_allocation` 304-316);
  * `extractSolution`                 — `extract_solution` (105-159): threshold filter, empty cells dropped,
                                         the checks of the `Allocation(...)` constructor it calls, centre update,
                                         `Module.recenter_rectangles` (`frame/netlist/module.py` 213-223), flip;
  * `glbLoop`                         — the refine/optimise loop of `glbfloor` (411-480), with `refine`,
                                         `must_be_refined` (owned by the allocation model) and the solver as parameters.

  The non-linear solver (GEKKO/IPOPT) is NOT modelled: its answer `Answer α` (the value of every entry of
  `model.a`, `model.x`, `model.y` after `solve()`, constants included) is an input.

  Conventions: Python `dict`s are association lists in insertion order; module names are distinct (guaranteed
  by `Netlist`, whose modules come from a YAML mapping); `get_value` is the identity on the captured floats.
  Dispersions (third component of the Python result) are not part of the property and are not modelled.
-/

namespace FV.Glb
open FV

/-- Python exceptions that the modelled code can raise. -/
inductive Err | assert | zeroDiv
  deriving DecidableEq, Repr, Inhabited

def Err.toStr : Err → String
  | .assert => "Assert" | .zeroDiv => "ZeroDiv"

/-- `Alloc = dict[str, float]` in insertion order. -/
abbrev Alloc (α : Type) := List (String × α)

/-- `RectAlloc` (rectangle, ratios, refinement depth). -/
structure RectAlloc (α : Type) where
  rect : Rect α
  alloc : Alloc α
  depth : Nat := 0
  deriving Repr, Inhabited

/-- The attributes of `Module` that global floorplanning reads or writes. -/
structure Module (α : Type) where
  name : String
  hard : Bool
  fixed : Bool
  flip : Bool
  cx : α
  cy : α
  rects : List (Rect α)
  deriving Repr, Inhabited

/-- The solver's answer: value of `model.a[m][c]`, `model.x[m]`, `model.y[m]` (keys are names; the fake
    one-rectangle modules of a movable hard module `m` are called `m_0`, `m_1`, …). -/
structure Answer (α : Type) where
  a : String → Nat → α
  x : String → α
  y : String → α

/-- `f"{m}_{r}"`. -/
def subName (m : String) (r : Nat) : String := m ++ "_" ++ toString r

variable {α : Type} [Add α] [Sub α] [Mul α] [Div α] [Neg α] [LT α] [LE α]
  [DecidableLT α] [DecidableLE α] [NatCast α] [DecidableEq α]

@[inline] def zero : α := ((0 : Nat) : α)
@[inline] def one : α := ((1 : Nat) : α)

/-! ### Python 3.12 `sum` of floats (Neumaier compensated) -/

/-- C `fabs`. -/
@[inline] def absS (a : α) : α := if a < zero then -a else a

/-- one step of the float loop of `builtin_sum`: state `(f_result, c)`. -/
def neumaierStep (s : α × α) (x : α) : α × α :=
  let t := s.1 + x
  if absS x ≤ absS s.1 then (t, s.2 + ((s.1 - t) + x)) else (t, s.2 + ((x - t) + s.1))

/-- `sum(xs)` for a list of floats: start `int 0`, first item added with `0 + x`, then the compensated loop;
    the compensation is added at the end when it is non-zero (`if (c && isfinite(c))`; overflow not modelled). -/
def pySum : List α → α
  | [] => zero
  | x :: xs =>
    let s := xs.foldl neumaierStep (zero + x, zero)
    if s.2 < zero ∨ zero < s.2 then s.1 + s.2 else s.1

/-! ### `Module.recenter_rectangles`, mirror -/

/-- `recenter_rectangles` for centre `(cx, cy)`; `none` = `ZeroDivisionError` (total area 0). -/
def recenter (cx cy : α) (rs : List (Rect α)) : Option (List (Rect α)) :=
  let area := pySum (rs.map Rect.area)
  if area < zero ∨ zero < area then
    let x := pySum (rs.map fun r => r.cx * r.area) / area
    let y := pySum (rs.map fun r => r.cy * r.area) / area
    let incx := cx - x
    let incy := cy - y
    some (rs.map fun r => { r with cx := r.cx + incx, cy := r.cy + incy })
  else none

/-- `rectangle.center.x = module.center.x - (rectangle.center.x - module.center.x)` for every rectangle. -/
def mirrorX (cx : α) (rs : List (Rect α)) : List (Rect α) := rs.map fun r => { r with cx := cx - (r.cx - cx) }
def mirrorY (cy : α) (rs : List (Rect α)) : List (Rect α) := rs.map fun r => { r with cy := cy - (r.cy - cy) }

/-- `all((v[0] - v[r]) * (p[0] - p[r]) < 0 for r in range(1, n))`: every other rectangle is, in the answer, on the
    opposite side of rectangle 0 from where it is in the module (`p` = current coordinates of the rectangles). -/
def allOpposite (v : Nat → α) (p : List α) : Bool :=
  match p with
  | [] => true
  | p0 :: rest => rest.zipIdx.all fun (pr, i) => decide ((v 0 - v (i + 1)) * (p0 - pr) < zero)

/-- the flip step of `extract_solution` (x first, then y; the y test sees the x-mirrored rectangles). -/
def flipStep (ans : Answer α) (name : String) (cx cy : α) (rs : List (Rect α)) : List (Rect α) :=
  let rs1 := if allOpposite (fun r => ans.x (subName name r)) (rs.map (·.cx)) then mirrorX cx rs else rs
  if allOpposite (fun r => ans.y (subName name r)) (rs1.map (·.cy)) then mirrorY cy rs1 else rs1

/-- body of the second loop of `extract_solution` for one module. -/
def updateModule (ans : Answer α) (m : Module α) : Option (Module α) :=
  let cx := ans.x m.name
  let cy := ans.y m.name
  if m.hard && !m.fixed then
    match recenter cx cy m.rects with
    | none => none
    | some rs =>
      let rs := if m.flip && decide (1 < rs.length) then flipStep ans m.name cx cy rs else rs
      some { m with cx := cx, cy := cy, rects := rs }
  else some { m with cx := cx, cy := cy }

/-! ### allocation list and the `Allocation` constructor -/

/-- first loop of `extract_solution` for cell `c`: modules whose ratio exceeds `1 - threshold`. -/
def cellAlloc (ans : Answer α) (thr : α) (mods : List (Module α)) (c : Nat) : Alloc α :=
  mods.filterMap fun m =>
    let v := ans.a m.name c
    if one - thr < v then some (m.name, v) else none

/-- `allocation_list`: cells with a non-empty `alloc`, in cell order, depth 0. -/
def allocList (ans : Answer α) (thr : α) (mods : List (Module α)) (cells : List (Rect α)) : List (RectAlloc α) :=
  cells.zipIdx.filterMap fun (cell, c) =>
    let al := cellAlloc ans thr mods c
    if al.isEmpty then none else some { rect := cell, alloc := al, depth := 0 }

/-- `itertools.combinations(l, 2)` all satisfy `p`. -/
def allPairs {β : Type} (p : β → β → Bool) : List β → Bool
  | [] => true
  | x :: xs => xs.all (p x) && allPairs p xs

/-- The assertions of `Allocation.__init__` on a list of descriptors (epsilon already defined):
    `0 <= occup <= 1` for every ratio; a non-empty list (the bounding box of an empty list has width `-inf`,
    rejected by `Rectangle`); `xmin >= 0 and ymin >= 0`; `_check_no_overlap` with area tolerance `εA`.
    (`_calculate_areas_and_centers` divides by a module's allocated area, which is positive because listed
    ratios exceed `1 - threshold ≥ 0`; not modelled.) -/
def allocationCtor (εA : α) (l : List (RectAlloc α)) : Except Err (List (RectAlloc α)) :=
  if !(l.all fun ra => ra.alloc.all fun p => decide (zero ≤ p.2) && decide (p.2 ≤ one)) then .error .assert
  else if l.isEmpty then .error .assert
  else if !(l.all fun ra => decide (zero ≤ ra.rect.xmin) && decide (zero ≤ ra.rect.ymin)) then .error .assert
  else if !(allPairs (fun a b => !(Rect.overlap εA a.rect b.rect)) l) then .error .assert
  else .ok l

/-- `mapM` over `Option` written out (keeps the proofs elementary). -/
def updateModules (ans : Answer α) : List (Module α) → Option (List (Module α))
  | [] => some []
  | m :: ms =>
    match updateModule ans m with
    | none => none
    | some m' => match updateModules ans ms with
      | none => none
      | some ms' => some (m' :: ms')

/-- `extract_solution(model, die, cells, threshold)`: the new allocation and the updated modules. -/
def extractSolution (ans : Answer α) (εA thr : α) (mods : List (Module α)) (cells : List (Rect α)) :
    Except Err (List (RectAlloc α) × List (Module α)) :=
  match allocationCtor εA (allocList ans thr mods cells) with
  | .error e => .error e
  | .ok allocation =>
    match updateModules ans mods with
    | none => .error .zeroDiv
    | some mods' => .ok (allocation, mods')

/-! ### constants of the ratio table (`optimize_allocation`) -/

/-- `get_a(allocation, module, cell_index)`; `none` = index out of range. -/
def getA (offered : List (RectAlloc α)) (m : Module α) (c : Nat) : Option α :=
  match offered[c]? with
  | none => none
  | some ra =>
    match ra.alloc.lookup m.name with
    | some v => some v
    | none =>
      match m.rects with
      | [r] => some (ra.rect.areaOverlap r / ra.rect.area)
      | _ => some zero

/-- `get_neighbouring_cells(allocation, c)` with distance tolerance `ε`. -/
def neighCells (ε : α) (offered : List (RectAlloc α)) (c : Nat) : List Nat :=
  match offered[c]? with
  | none => []
  | some rc => (offered.zipIdx.filter fun (rd, d) => d != c && Rect.touches ε rc.rect rd.rect).map (·.2)

/-- is `model.a[m][c]` a constant (the value `get_a`) rather than a `g.Var`?  (`m` ranges over the soft and fixed
    modules and the fake one-rectangle modules; the entries of a movable hard module itself are always `Var`.) -/
def aIsConst (ε thr : α) (offered : List (RectAlloc α)) (m : Module α) (c : Nat) : Bool :=
  match getA offered m c with
  | none => false
  | some a =>
    let nb := neighCells ε offered c
    m.fixed ||
    (decide (thr < a) && nb.all fun d => match getA offered m d with | some v => decide (thr < v) | none => false) ||
    (decide (a < one - thr) && nb.all fun d => match getA offered m d with | some v => decide (v < one - thr) | none => false)

/-- the fake module `m_r` of `optimize_allocation` (hard, movable, one rectangle). -/
def fakeModule (m : Module α) (r : Nat) (rect : Rect α) : Module α :=
  { name := subName m.name r, hard := true, fixed := false, flip := false, cx := rect.cx, cy := rect.cy, rects := [rect] }

/-- the list `modules` of `optimize_allocation`: soft and fixed modules as they are, movable hard ones replaced by
    their fake modules. -/
def modelModules (mods : List (Module α)) : List (Module α) :=
  mods.flatMap fun m =>
    if !m.hard || m.fixed then [m] else m.rects.zipIdx.map fun (rect, r) => fakeModule m r rect

/-! ### the refine / optimise loop of `glbfloor` -/

/-- state carried by the loop: current allocation and the netlist's modules. -/
abbrev State (α : Type) := List (RectAlloc α) × List (Module α)

/-- `optimize_allocation` as seen from the loop: ask the solver (`none` = GEKKO raised "Solution Not Found"),
    then `extract_solution` on the offered cells. -/
def optimizeStep (solve : State α → Option (Answer α)) (εA thr : α) (s : State α) : Option (State α) :=
  match solve s with
  | none => none
  | some ans =>
    match extractSolution ans εA thr s.2 (s.1.map (·.rect)) with
    | .error _ => none
    | .ok r => some r

/-- `max_iter is None or n_iter <= max_iter`. -/
def withinLimit (maxIter : Option Nat) (nIter : Nat) : Bool :=
  match maxIter with
  | none => true
  | some k => decide (nIter ≤ k)

/-- the `while` loop of `glbfloor` over an abstract loop state `σ`, starting at `n_iter`:
    ```
    while max_iter is None or n_iter <= max_iter:
        if n_iter > 1:
            if must_be_refined: allocation = refine   else: break
        optimize_allocation            # unconditional in the first pass
        n_iter += 1
    ```
    `fuel` bounds the number of passes when `max_iter is None` (running out of fuel = did not return);
    `optimize = none` = the optimiser raised; `refine = none` = `refine` raised (an assertion of the constructor). -/
def loopG {σ : Type} (optimize : σ → Option σ) (mustRefine : σ → Bool) (refine : σ → Option σ) (maxIter : Option Nat) :
    Nat → Nat → σ → Option σ
  | 0, _, _ => none
  | fuel + 1, nIter, s =>
    if withinLimit maxIter nIter then
      if 1 < nIter then
        if mustRefine s then
          match refine s with
          | none => none
          | some sr =>
            match optimize sr with
            | none => none
            | some s' => loopG optimize mustRefine refine maxIter fuel (nIter + 1) s'
        else some s
      else
        match optimize s with
        | none => none
        | some s' => loopG optimize mustRefine refine maxIter fuel (nIter + 1) s'
    else some s

/-- the loop of `glbfloor` on (allocation, modules): `refine` / `must_be_refined` act on the allocation, one pass
    asks the solver and runs `extract_solution` on the offered cells. -/
def glbLoop (solve : State α → Option (Answer α)) (mustRefine : List (RectAlloc α) → Bool)
    (refine : List (RectAlloc α) → List (RectAlloc α)) (εA thr : α) (maxIter : Option Nat) :
    Nat → Nat → State α → Option (State α) :=
  loopG (optimizeStep solve εA thr) (fun s => mustRefine s.1) (fun s => some (refine s.1, s.2)) maxIter

/-- `glbfloor` after `create_initial_allocation` (`n_iter` starts at 1). -/
def glbfloor (solve : State α → Option (Answer α)) (mustRefine : List (RectAlloc α) → Bool)
    (refine : List (RectAlloc α) → List (RectAlloc α)) (εA thr : α) (maxIter : Option Nat) (fuel : Nat)
    (init : State α) : Option (State α) :=
  glbLoop solve mustRefine refine εA thr maxIter fuel 1 init

end FV.Glb

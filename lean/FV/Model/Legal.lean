import FV.Model.Geom
/-
  Executable model of the legaliser's constraint system (tools/legalfloor):
    * `expression_tree.py`: `ExpressionTree` (operators with constant folding, `evaluate`),
      `Equation.is_equation_met`;
    * `legalfloor.py`: `netlist_to_utils`, `ModelModule._define_vars / add_rect_*`,
      `Model.first_build_model` (area, intra-side ordering, pairwise smooth-max no-overlap), `Model.fix`,
      as repaired by `fixes/C09_branch_offsets.diff` (branches of hard modules fixed at their own offset
      from the trunk, for int and float coordinates alike).
  The equation generator is a pure function to a list of named equations, in the order in which the
  harness walks the real `Model`: for every module its `get_constraints` (per rectangle Bounds, Shapes,
  Attach; then Intra), then the groups `Area`, `Inter`, `Fix` of `ModelWrapper.constraints`.
  GEKKO is never involved: only the trees and their `evaluate()` are modelled.
-/
namespace FV.Legal
open FV

/-! ### expression trees -/

inductive VK | x | y | w | h
  deriving DecidableEq, Repr

def VK.toStr : VK → String | .x => "x" | .y => "y" | .w => "w" | .h => "h"

/-- the GEKKO variable `<k><m>i<i>` (`_define_vars`). -/
structure Var where
  k : VK
  m : Nat
  i : Nat
  deriving DecidableEq, Repr

inductive Expr (α : Type)
  | cst (c : α)
  | var (v : Var)
  | add (a b : Expr α)
  | sub (a b : Expr α)
  | mul (a b : Expr α)
  | div (a b : Expr α)
  | pow (a b : Expr α)
  | sqrt (a : Expr α)
  deriving Repr

inductive Cmp | le | ge | eq
  deriving DecidableEq, Repr

def Cmp.toStr : Cmp → String | .le => "LE" | .ge => "GE" | .eq => "EQ"

/-- `Equation(lhs, cmp, rhs, name, hard)` together with the group it is filed under. -/
structure Eqn (α : Type) where
  group : String
  name : String
  lhs : Expr α
  cmp : Cmp
  rhs : Expr α
  hard : Bool := false

inductive PyErr | zeroDivision | keyError
  deriving DecidableEq, Repr

def PyErr.toStr : PyErr → String | .zeroDivision => "ZeroDivisionError" | .keyError => "KeyError"

/-- library functions used by `evaluate()`; `none` = the Python call raises. -/
structure Fns (α : Type) where
  /-- float `**` -/
  pow : α → α → Option α
  /-- `math.sqrt` -/
  sqrt : α → Option α

variable {α : Type} [Add α] [Sub α] [Mul α] [Div α] [Neg α] [LT α] [LE α]
  [DecidableLT α] [DecidableLE α] [NatCast α]

@[inline] def zero : α := ((0 : Nat) : α)
@[inline] def one : α := ((1 : Nat) : α)
@[inline] def two : α := ((2 : Nat) : α)
@[inline] def four : α := ((4 : Nat) : α)
@[inline] def ten : α := ((10 : Nat) : α)
/-- `0.5`, `0.25`, `0.01` (the quotients are exact / correctly rounded, i.e. the Python literals). -/
@[inline] def half : α := one / two
@[inline] def quarter : α := one / four
@[inline] def hundredth : α := one / ((100 : Nat) : α)

/-- `abs` -/
@[inline] def pyAbs (x : α) : α := if x < zero then -x else x

namespace Expr

/-- `ExpressionTree.__add__` (two constants are folded). -/
def add' : Expr α → Expr α → Expr α
  | .cst a, .cst b => .cst (a + b)
  | a, b => .add a b
/-- `__sub__` -/
def sub' : Expr α → Expr α → Expr α
  | .cst a, .cst b => .cst (a - b)
  | a, b => .sub a b
/-- `__mul__` -/
def mul' : Expr α → Expr α → Expr α
  | .cst a, .cst b => .cst (a * b)
  | a, b => .mul a b
/-- `__truediv__` (never applied to two constants by the generator). -/
def div' : Expr α → Expr α → Expr α
  | .cst a, .cst b => .cst (a / b)
  | a, b => .div a b

/-- `evaluate()`: `none` when Python raises (`ZeroDivisionError`, `math.sqrt` domain, `**`). -/
def eval (F : Fns α) (env : Var → α) : Expr α → Option α
  | .cst c => some c
  | .var v => some (env v)
  | .add a b => do let x ← a.eval F env; let y ← b.eval F env; pure (x + y)
  | .sub a b => do let x ← a.eval F env; let y ← b.eval F env; pure (x - y)
  | .mul a b => do let x ← a.eval F env; let y ← b.eval F env; pure (x * y)
  | .div a b => do
      let x ← a.eval F env; let y ← b.eval F env
      if y ≤ zero ∧ zero ≤ y then none else pure (x / y)
  | .pow a b => do let x ← a.eval F env; let y ← b.eval F env; F.pow x y
  | .sqrt a => do let x ← a.eval F env; F.sqrt x

end Expr

/-- `Equation.is_equation_met()` with the global slack `epsilon.evaluate() = eps`; the code's own
    tolerance `1e-6` is the parameter `tol`. -/
def Eqn.met (F : Fns α) (env : Var → α) (eps tol : α) (e : Eqn α) : Option Bool := do
  let l ← e.lhs.eval F env
  let r ← e.rhs.eval F env
  match e.cmp with
  | .le => pure (if e.hard then decide (l ≤ r + tol) else decide (l ≤ r + eps + tol))
  | .ge => pure (if e.hard then decide (r - tol ≤ l) else decide (r - eps - tol ≤ l))
  | .eq => pure (if e.hard then decide (pyAbs (l - r) ≤ tol)
                 else (decide (r - eps - tol ≤ l) && decide (l ≤ r + eps + tol)))

/-- `epsilon.evaluate()` / `epsilon.get_gekko_expression()` of the process-wide slack tree whose plain value
    is `raw`: values below `thr = 1e-6` are reported as `0.0`. -/
def epsValue (thr raw : α) : α := if raw < thr then zero else raw

/-! ### `netlist_to_utils` -/

/-- `(x, y, w, h)` of a rectangle: centre and shape. -/
structure Box (α : Type) where
  x : α
  y : α
  w : α
  h : α
  deriving Repr

structure InRect (α : Type) where
  box : Box α
  loc : Loc

/-- what `netlist_to_utils` reads of a module. -/
structure InModule (α : Type) where
  rects : List (InRect α)
  hard : Bool
  fixed : Bool
  /-- `module.area()` -/
  area : α

/-- `InputModule`: trunk and the N / S / E / W branch lists. -/
structure ModIn (α : Type) where
  trunk : Box α
  N : List (Box α) := []
  S : List (Box α) := []
  E : List (Box α) := []
  W : List (Box α) := []

/-- one iteration of `for rect in module.rectangles` (state: `b`, `trunk_defined`). -/
def placeRect (st : ModIn α × Bool) (r : InRect α) : ModIn α × Bool :=
  match r.loc with
  | .trunk => ({ st.1 with trunk := r.box }, true)
  | .north => ({ st.1 with N := st.1.N ++ [r.box] }, st.2)
  | .south => ({ st.1 with S := st.1.S ++ [r.box] }, st.2)
  | .east => ({ st.1 with E := st.1.E ++ [r.box] }, st.2)
  | .west => ({ st.1 with W := st.1.W ++ [r.box] }, st.2)
  | .nopoly => if st.2 then ({ st.1 with N := st.1.N ++ [r.box] }, st.2)
               else ({ st.1 with trunk := r.box }, true)

/-- roles → trunk / N / S / E / W lists. -/
def split (rs : List (InRect α)) : ModIn α :=
  (rs.foldl placeRect ({ trunk := ⟨zero, zero, zero, zero⟩ }, false)).1

/-- branches in the order in which they become rectangles `1, 2, …` of the `ModelModule`. -/
def ModIn.branches (b : ModIn α) : List (Box α) := b.N ++ b.S ++ b.E ++ b.W

/-- number of rectangles `ModelModule.c`. -/
def ModIn.c (b : ModIn α) : Nat := 1 + b.branches.length

/-- a Python `dict[int, float]` in insertion order (keys are distinct here). -/
abbrev Dict (α : Type) := List (Nat × α)
abbrev Matrix (α : Type) := List (Nat × Dict α)

/-- `optional_get` on a present dictionary. -/
def dget {β : Type} (i : Nat) : List (Nat × β) → Option β
  | [] => none
  | (j, v) :: r => if j = i then some v else dget i r

/-- entries `i, i+1, …` for successive branches. -/
def offs (f : Box α → α) : Nat → List (Box α) → Dict α
  | _, [] => []
  | i, b :: bs => (i, f b) :: offs f (i + 1) bs

/-- `xl[m]`: the trunk's place for a fixed module, then every branch's offset from the trunk. -/
def xDict (b : ModIn α) (fixed : Bool) : Dict α :=
  (if fixed then [(0, b.trunk.x)] else []) ++ offs (fun q => q.x - b.trunk.x) 1 b.branches
def yDict (b : ModIn α) (fixed : Bool) : Dict α :=
  (if fixed then [(0, b.trunk.y)] else []) ++ offs (fun q => q.y - b.trunk.y) 1 b.branches
def wDict (b : ModIn α) (_ : Bool) : Dict α := (0, b.trunk.w) :: offs (·.w) 1 b.branches
def hDict (b : ModIn α) (_ : Bool) : Dict α := (0, b.trunk.h) :: offs (·.h) 1 b.branches

/-- the table rows of the hard modules, keyed by module index. -/
def tables (f : ModIn α → Bool → Dict α) : Nat → List (InModule α) → Matrix α
  | _, [] => []
  | k, m :: ms => if m.hard then (k, f (split m.rects) m.fixed) :: tables f (k + 1) ms
                  else tables f (k + 1) ms

structure Utils (α : Type) where
  ml : List (ModIn α)
  al : List α
  xl : Matrix α
  yl : Matrix α
  wl : Matrix α
  hl : Matrix α

/-- `netlist_to_utils` (module part).  `xl[len(ml)][0] = …` of a fixed module that is not hard is a
    `KeyError`. -/
def netlistToUtils (mods : List (InModule α)) : Except PyErr (Utils α) :=
  if mods.any (fun m => m.fixed && !m.hard) then .error .keyError
  else .ok {
    ml := mods.map fun m => split m.rects
    al := mods.map (·.area)
    xl := tables xDict 0 mods
    yl := tables yDict 0 mods
    wl := tables wDict 0 mods
    hl := tables hDict 0 mods }

/-! ### the equation generator -/

structure Params (α : Type) where
  /-- `die_width`, `die_height`, `max_ratio` -/
  dw : α
  dh : α
  r : α

open Expr

@[inline] def v (k : VK) (m i : Nat) : Expr α := .var ⟨k, m, i⟩
@[inline] def hlf : Expr α := .cst half

/-- `thin(w, h) = w * h / (w * w + h * h)` on trees / on numbers. -/
def thinE (w h : Expr α) : Expr α := div' (mul' w h) (add' (mul' w w) (mul' h h))
def thinV (w h : α) : α := w * h / (w * w + h * h)

/-- `_define_vars`: Bounds and Shapes of rectangle `i` of module `m`. -/
def rectEqs (P : Params α) (m i : Nat) : List (Eqn α) :=
  let x : Expr α := v .x m i; let y : Expr α := v .y m i
  let w : Expr α := v .w m i; let h : Expr α := v .h m i
  [ ⟨"Bounds", s!"bounds_left[{m},{i}]", sub' x (mul' hlf w), .ge, .cst zero, false⟩,
    ⟨"Bounds", s!"bounds_bottom[{m},{i}]", sub' y (mul' hlf h), .ge, .cst zero, false⟩,
    ⟨"Bounds", s!"bounds_right[{m},{i}]", add' x (mul' hlf w), .le, .cst P.dw, false⟩,
    ⟨"Bounds", s!"bounds_top[{m},{i}]", add' y (mul' hlf h), .le, .cst P.dh, false⟩,
    ⟨"Shapes", s!"ratio[{m},{i}]", mul' (thinE w h) (.cst ten), .ge,
      mul' (.cst (thinV P.r one)) (.cst ten), false⟩ ]

/-- `add_rect_north / south / east / west`: attachment of branch `i` to the trunk of module `m`. -/
def attachEqs (side : Loc) (m i : Nat) : List (Eqn α) :=
  let x : Expr α := v .x m i; let y : Expr α := v .y m i
  let w : Expr α := v .w m i; let h : Expr α := v .h m i
  let x0 : Expr α := v .x m 0; let y0 : Expr α := v .y m 0
  let w0 : Expr α := v .w m 0; let h0 : Expr α := v .h m 0
  match side with
  | .north =>
    [ ⟨"Attach", "north_attach", y, .eq, add' (add' y0 (mul' hlf h0)) (mul' hlf h), false⟩,
      ⟨"Attach", "north_border0", x, .ge, add' (sub' x0 (mul' hlf w0)) (mul' hlf w), false⟩,
      ⟨"Attach", "north_border1", x, .le, sub' (add' x0 (mul' hlf w0)) (mul' hlf w), false⟩ ]
  | .south =>
    [ ⟨"Attach", "south_attach", y, .eq, sub' (sub' y0 (mul' hlf h0)) (mul' hlf h), false⟩,
      ⟨"Attach", "south_border0", x, .ge, add' (sub' x0 (mul' hlf w0)) (mul' hlf w), false⟩,
      ⟨"Attach", "south_border1", x, .le, sub' (add' x0 (mul' hlf w0)) (mul' hlf w), false⟩ ]
  | .east =>
    [ ⟨"Attach", "east_attach", x, .eq, add' (add' x0 (mul' hlf w0)) (mul' hlf w), false⟩,
      ⟨"Attach", "east_border0", y, .ge, add' (sub' y0 (mul' hlf h0)) (mul' hlf h), false⟩,
      ⟨"Attach", "east_border1", y, .le, sub' (add' y0 (mul' hlf h0)) (mul' hlf h), false⟩ ]
  | .west =>
    [ ⟨"Attach", "west_attach", x, .eq, sub' (sub' x0 (mul' hlf w0)) (mul' hlf w), false⟩,
      ⟨"Attach", "west_border0", y, .ge, add' (sub' y0 (mul' hlf h0)) (mul' hlf h), false⟩,
      ⟨"Attach", "west_border1", y, .le, sub' (add' y0 (mul' hlf h0)) (mul' hlf h), false⟩ ]
  | _ => []

/-- `(k, b₀), (k+1, b₁), …` -/
def idxFrom {β : Type} : Nat → List β → List (Nat × β)
  | _, [] => []
  | k, b :: bs => (k, b) :: idxFrom (k + 1) bs

/-- the branches with their side, numbered from 1 (order of `add_rect` calls). -/
def ModIn.sided (b : ModIn α) : List (Nat × Loc × Box α) :=
  idxFrom 1 (b.N.map (fun q => (Loc.north, q)) ++ b.S.map (fun q => (Loc.south, q)) ++
             b.E.map (fun q => (Loc.east, q)) ++ b.W.map (fun q => (Loc.west, q)))

/-- per-rectangle constraints of a module, rectangle by rectangle. -/
def moduleRectEqs (P : Params α) (m : Nat) (b : ModIn α) : List (Eqn α) :=
  rectEqs P m 0 ++ b.sided.flatMap fun (i, side, _) => rectEqs P m i ++ attachEqs side m i

/-- stable insertion sort by key (`list.sort(key=…)`): an element goes before the first strictly
    larger one. -/
def insBy {β : Type} (key : β → α) (a : β) : List β → List β
  | [] => [a]
  | b :: bs => if key a < key b then a :: b :: bs else b :: insBy key a bs
def sortBy {β : Type} (key : β → α) (l : List β) : List β :=
  l.foldl (fun acc a => insBy key a acc) []

/-- consecutive pairs `(l[i], l[i+1])`. -/
def pairs {β : Type} : List β → List (β × β)
  | a :: b :: t => (a, b) :: pairs (b :: t)
  | _ => []

/-- the rectangles of one side of module `m` (numbers and original boxes). -/
def ModIn.side (b : ModIn α) (s : Loc) : List (Nat × Box α) :=
  (b.sided.filter fun (_, s', _) => s' == s).map fun (i, _, q) => (i, q)

/-- Intra-module ordering along one side: `lo`/`hi` along the coordinate `k` with extent `e`. -/
def intraSide (m : Nat) (b : ModIn α) (s : Loc) (k e : VK) (key : Box α → α) (nm : String) : List (Eqn α) :=
  (idxFrom 0 (pairs (sortBy (fun p => key p.2) (b.side s)))).map fun (i, (a, c)) =>
    ⟨"Intra", s!"no_intramodule_{nm}_intersection[{m},{i}]",
      add' (v k m a.1) (mul' hlf (v e m a.1)), .le, sub' (v k m c.1) (mul' hlf (v e m c.1)), false⟩

def intraEqs (m : Nat) (b : ModIn α) : List (Eqn α) :=
  intraSide m b .north .x .w (·.x) "north" ++ intraSide m b .south .x .w (·.x) "south" ++
  intraSide m b .east .y .h (·.y) "east" ++ intraSide m b .west .y .h (·.y) "west"

/-- `ModelModule.get_constraints` (everything enabled). -/
def macroEqs (P : Params α) (m : Nat) (b : ModIn α) : List (Eqn α) :=
  moduleRectEqs P m b ++ intraEqs m b

/-- `ModelModule.area`: `0 + w0*h0 + w1*h1 + …` -/
def areaExpr (m : Nat) (c : Nat) : Expr α :=
  (List.range c).foldl (fun acc i => add' acc (mul' (v .w m i) (v .h m i))) (.cst zero)

def areaEqs (U : Utils α) : List (Eqn α) :=
  (idxFrom 0 (U.ml.zip U.al)).map fun (m, (b, a)) =>
    ⟨"Area", s!"min_area[{m}]", areaExpr m b.c, .ge, .cst a, false⟩

/-- `smax(x, y, tau) = 0.5 * (x + y + sqrt((x - y) ** 2 + 4 * tau * tau))` -/
def smaxE (x y tau : Expr α) : Expr α :=
  mul' hlf (add' (add' x y) (.sqrt (add' (.pow (sub' x y) (.cst two)) (mul' (mul' (.cst four) tau) tau))))

/-- `tau = 0.01 * min(die_width, die_height) / len(ml)` -/
def tauV (P : Params α) (n : Nat) : α := hundredth * pyMin P.dw P.dh / (n : α)

def interEq (tau : α) (m i n j : Nat) : Eqn α :=
  let t1 : Expr α := sub' (.pow (sub' (v .x m i) (v .x n j)) (.cst two))
                          (mul' (.cst quarter) (.pow (add' (v .w m i) (v .w n j)) (.cst two)))
  let t2 : Expr α := sub' (.pow (sub' (v .y m i) (v .y n j)) (.cst two))
                          (mul' (.cst quarter) (.pow (add' (v .h m i) (v .h n j)) (.cst two)))
  ⟨"Inter", s!"no_intermodule_overlap[{m},{i}][{n},{j}]", smaxE t1 t2 (.cst tau), .ge, .cst zero, false⟩

def interEqs (P : Params α) (U : Utils α) : List (Eqn α) :=
  let cs := idxFrom 0 (U.ml.map (·.c))
  let tau := tauV P U.ml.length
  cs.flatMap fun (m, cm) => (cs.filter fun (n, _) => m < n).flatMap fun (n, cn) =>
    (List.range cm).flatMap fun i => (List.range cn).map fun j => interEq tau m i n j

/-- `Model.fix` for rectangle `i` of module `m`. -/
def fixRect (m i : Nat) (xd yd wd hd : Option (Dict α)) : List (Eqn α) :=
  let xg := xd.bind (dget i); let yg := yd.bind (dget i)
  let wg := wd.bind (dget i); let hg := hd.bind (dget i)
  let k (g : Option α) : Expr α := match g with | some t => add' (.cst zero) (.cst t) | none => .cst zero
  let rel := decide (i ≠ 0) && xg.isSome
  let xc : Expr α := if rel then add' (k xg) (v .x m 0) else k xg
  let yc : Expr α := if rel then add' (k yg) (v .y m 0) else k yg
  (if xg.isSome then [⟨"Fix", "fix_x", v .x m i, .eq, xc, false⟩] else []) ++
  (if yg.isSome then [⟨"Fix", "fix_y", v .y m i, .eq, yc, false⟩] else []) ++
  (if wg.isSome then [⟨"Fix", "fix_w", v .w m i, .eq, k wg, false⟩] else []) ++
  (if hg.isSome then [⟨"Fix", "fix_h", v .h m i, .eq, k hg, false⟩] else [])

def fixEqs (U : Utils α) : List (Eqn α) :=
  (idxFrom 0 (U.ml.map (·.c))).flatMap fun (m, c) =>
    (List.range c).flatMap fun i => fixRect m i (dget m U.xl) (dget m U.yl) (dget m U.wl) (dget m U.hl)

/-- all equations of `Model(...)` that carry the legality conditions.  An empty module list makes
    `tau` divide by zero. -/
def gen (P : Params α) (U : Utils α) : Except PyErr (List (Eqn α)) :=
  if U.ml.length = 0 then .error .zeroDivision
  else .ok ((idxFrom 0 U.ml).flatMap (fun (m, b) => macroEqs P m b) ++ areaEqs U ++ interEqs P U ++ fixEqs U)

/-- configuration → environment (`x<m>i<i>` ↦ value). -/
def envOf (cfg : List (List (Box α))) (q : Var) : α :=
  match cfg[q.m]? with
  | none => zero
  | some bs => match bs[q.i]? with
    | none => zero
    | some b => match q.k with | .x => b.x | .y => b.y | .w => b.w | .h => b.h

/-- the C library at `Float`. -/
def floatFns : Fns Float where
  pow x y := some (Float.pow x y)
  sqrt x := if x < 0.0 then none else some (Float.sqrt x)

end FV.Legal

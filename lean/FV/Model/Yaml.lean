import FV.Model.Scalar
/-
  The YAML document tree as the Python reader sees it (`ruamel.yaml`, `typ='safe'` → plain Python objects):
  `None`, `bool`, `int`, `float`, `str`, `list`, `dict` (insertion ordered).  Python's type tests are mirrored:
  `bool` IS an `int` (`isinstance(True, (int, float))`, `numbers.Real`), so `area: true` is area `1.0`.

  Numbers keep their Python type tag (`bool` / `int` / `float`) so that "identical document" is meaningful.
  A Python `dict` cannot hold a key twice (and the YAML loader raises `DuplicateKeyError`); the tree type allows it,
  so every reader function of the model rejects duplicate keys explicitly (error class `dup`).
-/
namespace FV

inductive YVal (α : Type) where
  | null
  | bool (b : Bool)
  | int (i : Int)
  | float (x : α)
  | str (s : String)
  | seq (l : List (YVal α))
  | map (l : List (YVal α × YVal α))
  deriving Inhabited

/-- a Python number with its type tag (`True`, `3`, `3.0` are different documents, equal values). -/
inductive Num (α : Type) where
  | b (v : Bool)
  | i (v : Int)
  | f (x : α)
  deriving Inhabited, Repr, DecidableEq

variable {α : Type}

section scalar
variable [Neg α] [NatCast α]

/-- `float(i)` for a Python `int`. -/
def intToSc (i : Int) : α :=
  if i < 0 then -((i.natAbs : Nat) : α) else ((i.toNat : Nat) : α)

/-- numeric value of a tagged number (`float(x)`). -/
def Num.val : Num α → α
  | .b true => ((1 : Nat) : α)
  | .b false => ((0 : Nat) : α)
  | .i v => intToSc v
  | .f x => x

end scalar

namespace YVal

/-- `isinstance(v, numbers.Real)` = `isinstance(v, (int, float))`: `bool`, `int` and `float`. -/
def num? : YVal α → Option (Num α)
  | .bool b => some (.b b)
  | .int i => some (.i i)
  | .float x => some (.f x)
  | _ => none

/-- `is_number(v)`. -/
def isNumber (v : YVal α) : Bool := v.num?.isSome

/-- `isinstance(v, bool)`. -/
def bool? : YVal α → Option Bool
  | .bool b => some b
  | _ => none

/-- `isinstance(v, str)`. -/
def str? : YVal α → Option String
  | .str s => some s
  | _ => none

/-- `isinstance(v, list)`. -/
def seq? : YVal α → Option (List (YVal α))
  | .seq l => some l
  | _ => none

/-- `isinstance(v, dict)`. -/
def map? : YVal α → Option (List (YVal α × YVal α))
  | .map l => some l
  | _ => none

/-- a tagged number back to a document node. -/
def ofNum : Num α → YVal α
  | .b v => .bool v
  | .i v => .int v
  | .f x => .float x

@[simp] theorem num?_ofNum (n : Num α) : (ofNum n).num? = some n := by cases n <;> rfl

end YVal

/-! ### `valid_identifier`: `re.fullmatch('^[A-Za-z_][A-Za-z0-9_]*', s)` on the characters of `s`. -/

def identStart (c : Char) : Bool :=
  ('A' ≤ c && c ≤ 'Z') || ('a' ≤ c && c ≤ 'z') || c == '_'

def identRest (c : Char) : Bool :=
  identStart c || ('0' ≤ c && c ≤ '9')

def validIdentChars : List Char → Bool
  | [] => false
  | c :: cs => identStart c && cs.all identRest

def validIdent (s : String) : Bool := validIdentChars s.toList

/-- `valid_identifier(v)` for an arbitrary node: must be a `str`. -/
def YVal.validIdent (v : YVal α) : Bool :=
  match v with
  | .str s => FV.validIdent s
  | _ => false

end FV

import FV.Model.Netlist
import FV.Model.Stog
/-
  The STOG parameter of the netlist model (`FV/Model/Netlist.lean`) instantiated with the C06 model of
  `create_stog` (`FV/Model/Stog.lean`, the repaired code: the trunk candidate is skipped by identity).

  The netlist model keeps the Python type tag of every number of a rectangle (`NRect`), the C06 model works on
  plain `Rect`s.  `stogC06` therefore runs the DECISIONS of the C06 model on the plain rectangles — the candidate
  loop `Stog.scan` (with `Stog.validTrunk`) and `Stog.findLocation` — and performs the two list operations of
  `create_stog` (the swap `rectangles[0], rectangles[best] = rectangles[best], rectangles[0]` and the labelling) on
  the tagged list.  `FV/Proofs/StogInst.lean` proves that this IS `Stog.createStog` on the plain rectangles
  (`stogC06_toRect`), that it satisfies `StogPerm` and `StogStable`, and C04 / C05 state their headline theorems for it.
-/
namespace FV.NL
open FV

variable {α : Type} [Add α] [Sub α] [Mul α] [Div α] [Neg α] [LT α] [LE α]
  [DecidableLT α] [DecidableLE α] [NatCast α] [DecidableEq α]

/-- `l[0], l[b] = l[b], l[0]` (unchanged when `b` is out of range). -/
def swap0 {β : Type} (l : List β) (b : Nat) : List β :=
  match l[b]?, l[0]? with
  | some xb, some x0 => (l.set 0 xb).set b x0
  | _, _ => l

/-- the labelling tail of `create_stog`: the head becomes TRUNK, every other rectangle gets its location. -/
def labelN (ε εA : α) : List (NRect α) → List (NRect α)
  | [] => []
  | t :: others =>
    { t with loc := .trunk } :: others.map fun r => { r with loc := Stog.findLocation ε εA t.toRect r.toRect }

/-- `create_stog` on the tagged rectangles of a module (`ε`, `εA` = the distance / area tolerances in force). -/
def stogC06 (ε εA : α) (rs : List (NRect α)) : List (NRect α) :=
  match rs with
  | [] => []
  | [r] => [{ r with loc := .trunk }]
  | a :: c :: tl =>
    let l := (a :: c :: tl).map NRect.resetLoc
    let plain := l.map NRect.toRect
    match Stog.scan ε εA plain plain.zipIdx none with
    | none => l
    | some (b, _) => labelN ε εA (swap0 l b)

/-- `Module.create_stog()`: `return create_stog(self.rectangles)` — the value `create_stog` returns for the module's own
    list (the C06 model on the plain rectangles; `none` = its `assert len(rectangles) > 0`), and the module afterwards: the
    list has been reordered and labelled in place. -/
def Mod.createStog (ε εA : α) (m : Mod α) : Option (Bool × Mod α) :=
  match Stog.createStog ε εA (m.rects.map NRect.toRect) with
  | none => none
  | some (b, _) => some (b, { m with rects := stogC06 ε εA m.rects })

end FV.NL

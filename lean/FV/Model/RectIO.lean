import FV.Model.Scalar
import FV.Model.RectSearch
/-
  Model of the grid-building glue of the rectilinear shape search (property C08):

    `tools/rect/rect_io.py: get_alloc`        (the per-cell records `[{'dim': [xc, yc, w, h]}, {'mod': [{m: ratio}, …]}]`)
    `tools/rect/rect_io.py: snap_coordinates`, `select_box`    (as repaired by fixes/C08_selectbox_seams.diff)
    `tools/rect/rect.py: area`                (the integer areas `int(factor * p * (x2 - x1) * (y2 - y1))`)

  Polymorphic in the scalar (executed at `Float` — bit-exact with the Python floats — and at `Rat`; proved for linearly
  ordered fields).  Only `<` is used to compare scalars: "equal" (same dictionary key / same `set` element) is `¬ a < b ∧ ¬ b < a`,
  which is what `==` says on NaN-free floats (`0.0 == -0.0`).  No Mathlib.
-/
namespace FV.RectIO
open FV FV.RectSearch

variable {α : Type} [Add α] [Sub α] [Mul α] [Div α] [LT α] [DecidableLT α] [NatCast α]

/-- one entry of `ifile['Rectangles']`: the cell as the allocation stores it, and its `'mod'` list (`None` allowed) -/
structure IRect (α : Type) where
  xc : α
  yc : α
  w : α
  h : α
  mods : Option (List (List (String × α)))

/-- `get_alloc`: cell `i` of the allocation (`rect.center.x/y`, `rect.shape.w/h`, the dictionary `alloc`) becomes
    `{'b<i>': [{'dim': [x, y, w, h]}, {'mod': [{q: alloc[q]} for q in alloc]}]}` -/
def getAlloc (cells : List ((α × α × α × α) × List (String × α))) : List (IRect α) :=
  cells.map fun c => ⟨c.1.1, c.1.2.1, c.1.2.2.1, c.1.2.2.2, some (c.2.map fun q => [q])⟩

/-- the loop of `select_box` over `'mod'`: the LAST dictionary listing the selected module wins; `0.0` if none does -/
def occOf (zero : α) (sel : String) : Option (List (List (String × α))) → α
  | none => zero
  | some l => l.foldl (fun val d => match d.lookup sel with | some v => v | none => val) zero

/-- `(xc - w / 2, yc - h / 2, xc + w / 2, yc + h / 2, val)` -/
def rawBox (sel : String) (r : IRect α) : Cell α × α :=
  let two : α := ((2 : Nat) : α)
  (⟨r.xc - r.w / two, r.yc - r.h / two, r.xc + r.w / two, r.yc + r.h / two⟩, occOf ((0 : Nat) : α) sel r.mods)

/-- insertion into a strictly increasing list; an element equal to one already there is dropped -/
def insertLt (x : α) : List α → List α
  | [] => [x]
  | y :: ys => if x < y then x :: y :: ys else if y < x then y :: insertLt x ys else y :: ys

/-- `sorted(set(values))` -/
def sortedDistinct (l : List α) : List α := l.foldr insertLt []

/-- the loop of `snap_coordinates` over the sorted distinct values; `rep` is `representative` -/
def snapGo (tol : α) : Option α → List α → List (α × α)
  | _, [] => []
  | rep, v :: r =>
    let rep' := match rep with
      | none => v
      | some p => if tol < v - p then v else p
    (v, rep') :: snapGo tol (some rep') r

/-- `snap_coordinates(values, tolerance)`: the dictionary value ↦ representative -/
def snapCoordinates (values : List α) (tol : α) : List (α × α) := snapGo tol none (sortedDistinct values)

/-- `snapped[v]` (the key is found by `==`); a missing key cannot occur for a value of the list (`KeyError` otherwise) -/
def snapLookup (d : List (α × α)) (v : α) : Option α :=
  (d.find? fun p => !decide (p.1 < v) && !decide (v < p.1)).map (·.2)

/-- `max(list)` / `min(list)` (the first extremal element; `none` for an empty list) -/
def maxL : List α → Option α
  | [] => none
  | x :: r => some (r.foldl (fun a b => if a < b then b else a) x)
def minL : List α → Option α
  | [] => none
  | x :: r => some (r.foldl (fun a b => if b < a then b else a) x)

/-- `1e-9` (`1 / 10^9`, correctly rounded: the double nearest to 10⁻⁹, as the Python literal) -/
def snapEps : α := ((1 : Nat) : α) / ((1000000000 : Nat) : α)

def xsOf (raw : List (Cell α × α)) : List α := raw.flatMap fun b => [b.1.x0, b.1.x1]
def ysOf (raw : List (Cell α × α)) : List α := raw.flatMap fun b => [b.1.y0, b.1.y1]

/-- `tolerance = 1e-9 * max(max(xs) - min(xs), max(ys) - min(ys))` (`none` for an empty problem) -/
def snapTol (raw : List (Cell α × α)) : Option α := do
  let ax ← maxL (xsOf raw); let bx ← minL (xsOf raw)
  let ay ← maxL (ysOf raw); let by' ← minL (ysOf raw)
  pure (snapEps * pyMax (ax - bx) (ay - by'))

/-- `(sx[b[0]], sy[b[1]], sx[b[2]], sy[b[3]], b[4])` -/
def snapBox (sx sy : List (α × α)) (b : Cell α × α) : Option (Cell α × α) := do
  let x0 ← snapLookup sx b.1.x0
  let y0 ← snapLookup sy b.1.y0
  let x1 ← snapLookup sx b.1.x1
  let y1 ← snapLookup sy b.1.y1
  pure (⟨x0, y0, x1, y1⟩, b.2)

/-- `select_box(selected_box, ifile)[0]`; `none` = an exception (never for a list of proper records, `selectBox_total`) -/
def selectBox (sel : String) (ifile : List (IRect α)) : Option (List (Cell α × α)) :=
  let raw := ifile.map (rawBox sel)
  if raw.isEmpty then some []
  else (snapTol raw).bind fun tol =>
    raw.mapM (snapBox (snapCoordinates (xsOf raw) tol) (snapCoordinates (ysOf raw) tol))

/-! ### `area` -/

/-- Python `int(x)` on a finite scalar: truncation toward zero -/
class TruncInt (α : Type) where
  trunc : α → Int

instance : TruncInt Float := ⟨fun x => x.toInt64.toInt⟩
instance : TruncInt Rat := ⟨fun q => if 0 ≤ q then q.floor else q.ceil⟩

/-- `area(carrier, b, True)`: `int(factor * p * (x2 - x1) * (y2 - y1))` (`factor` is the int `10000`) -/
def areaSel [TruncInt α] (factor : Nat) (c : Cell α) (p : α) : Int :=
  TruncInt.trunc ((factor : α) * p * (c.x1 - c.x0) * (c.y1 - c.y0))

/-- `area(carrier, b, False)`: `int(factor * (x2 - x1) * (y2 - y1))` -/
def areaReal [TruncInt α] (factor : Nat) (c : Cell α) : Int :=
  TruncInt.trunc ((factor : α) * (c.x1 - c.x0) * (c.y1 - c.y0))

/-- the problem `main` hands to `solve`: `select_box`, `definecoords`, and the two integer areas of every block
    (needs decidable equality of scalars for `definecoords`, hence stated for the exact stream) -/
def problemOf [TruncInt α] [DecidableEq α] (factor : Nat) (boxes : List (Cell α × α)) : Problem α :=
  let ip := boxes.map (·.1)
  { ip, C := defineCoords ip, selA := boxes.map fun b => areaSel factor b.1 b.2, realA := boxes.map fun b => areaReal factor b.1 }

end FV.RectIO

import FV.Model.Scalar
/-
  Executable model of `frame/geometry/geometry.py` (class `Rectangle` and the free functions
  `gather_boundaries`, `split_rectangles`, `create_stog`).  Mirrors the Python line by line;
  names of the Python members are given next to each definition.
-/

namespace FV

inductive Loc | trunk | north | south | east | west | nopoly
  deriving DecidableEq, Repr, Inhabited

def Loc.toStr : Loc → String
  | .trunk => "T" | .north => "N" | .south => "S" | .east => "E" | .west => "W" | .nopoly => "X"

/-- `Rectangle`: centre + shape + attributes. -/
structure Rect (α : Type) where
  cx : α
  cy : α
  w : α
  h : α
  region : String := "_"
  fixed : Bool := false
  hard : Bool := false
  loc : Loc := .nopoly
  deriving Repr, Inhabited

variable {α : Type} [Add α] [Sub α] [Mul α] [Div α] [Neg α] [LT α] [LE α]
  [DecidableLT α] [DecidableLE α] [NatCast α] [DecidableEq α]

namespace Rect

/-- the literal `2` of `shape.w / 2`. -/
@[inline] def two : α := ((2 : Nat) : α)
@[inline] def zero : α := ((0 : Nat) : α)

/-- `bounding_box` : `center ∓ shape/2`. -/
@[inline] def xmin (r : Rect α) : α := r.cx - r.w / two
@[inline] def xmax (r : Rect α) : α := r.cx + r.w / two
@[inline] def ymin (r : Rect α) : α := r.cy - r.h / two
@[inline] def ymax (r : Rect α) : α := r.cy + r.h / two

/-- `area`. -/
@[inline] def area (r : Rect α) : α := r.w * r.h

/-- `duplicate`: copies centre, shape, fixed, hard, region; the STOG location is reset. -/
def duplicate (r : Rect α) : Rect α := { r with loc := .nopoly }

/-- `point_inside`. -/
def pointInside (r : Rect α) (px py : α) : Bool :=
  decide (r.xmin ≤ px) && decide (px ≤ r.xmax) && decide (r.ymin ≤ py) && decide (py ≤ r.ymax)

/-- `is_inside`: `self` inside `o`. -/
def isInside (r o : Rect α) : Bool :=
  decide (o.xmin ≤ r.xmin) && decide (o.ymin ≤ r.ymin) && decide (r.xmax ≤ o.xmax) && decide (r.ymax ≤ o.ymax)

/-- `touches` with distance tolerance `ε`. -/
def touches (ε : α) (r o : Rect α) : Bool :=
  decide (r.xmin ≤ o.xmax + ε) && decide (o.xmin ≤ r.xmax + ε) &&
  decide (r.ymin ≤ o.ymax + ε) && decide (o.ymin ≤ r.ymax + ε)

/-- `area_overlap`. -/
def areaOverlap (r o : Rect α) : α :=
  let minx := pyMax r.xmin o.xmin
  let maxx := pyMin r.xmax o.xmax
  if maxx ≤ minx then zero else
  let miny := pyMax r.ymin o.ymin
  let maxy := pyMin r.ymax o.ymax
  if maxy ≤ miny then zero else
  (maxx - minx) * (maxy - miny)

/-- `overlap` with area tolerance `εA`. -/
def overlap (εA : α) (r o : Rect α) : Bool := decide (εA < r.areaOverlap o)

/-- `__mul__`: intersection, `none` for different regions or empty common region. -/
def inter (r o : Rect α) : Option (Rect α) :=
  if r.region ≠ o.region then none else
  let minx := pyMax r.xmin o.xmin
  let maxx := pyMin r.xmax o.xmax
  let width := maxx - minx
  if width ≤ zero then none else
  let miny := pyMax r.ymin o.ymin
  let maxy := pyMin r.ymax o.ymax
  let height := maxy - miny
  if height ≤ zero then none else
  some { r.duplicate with cx := minx + width / two, cy := miny + height / two, w := width, h := height }

/-- `__eq__`: same centre, shape and region. -/
def beq (r o : Rect α) : Bool :=
  decide (r.cx = o.cx) && decide (r.cy = o.cy) && decide (r.w = o.w) && decide (r.h = o.h) &&
  decide (r.region = o.region)

/-- `split_horizontal(x)`; `none` models the failing `assert bb.ll.x < x < bb.ur.x`.
    A negative `x` means "halve" (Python default `x = -1`). -/
def splitH (r : Rect α) (x : α) : Option (Rect α × Rect α) :=
  let x := if x < zero then r.cx else x
  if r.xmin < x ∧ x < r.xmax then
    let w1 := x - r.xmin
    some ({ r.duplicate with cx := (r.xmin + x) / two, w := w1 },
          { r.duplicate with cx := (r.xmax + x) / two, w := r.w - w1 })
  else none

/-- `split_vertical(y)`. -/
def splitV (r : Rect α) (y : α) : Option (Rect α × Rect α) :=
  let y := if y < zero then r.cy else y
  if r.ymin < y ∧ y < r.ymax then
    let h1 := y - r.ymin
    some ({ r.duplicate with cy := (r.ymin + y) / two, h := h1 },
          { r.duplicate with cy := (r.ymax + y) / two, h := r.h - h1 })
  else none

/-- the literal `-1` default argument. -/
@[inline] def negOne : α := -((1 : Nat) : α)

/-- `split()`: halve the longer side (`split_vertical() if h > w else split_horizontal()`). -/
def split (r : Rect α) : Option (Rect α × Rect α) :=
  if r.w < r.h then r.splitV negOne else r.splitH negOne

/-- `x_cuttable(x, ratio)`. -/
def xCuttable (r : Rect α) (x ratio : α) : Bool :=
  if x ≤ r.xmin ∨ r.xmax ≤ x then false
  else decide (ratio * r.h < pyMin (x - r.xmin) (r.xmax - x))

/-- `y_cuttable(y, ratio)`. -/
def yCuttable (r : Rect α) (y ratio : α) : Bool :=
  if y ≤ r.ymin ∨ r.ymax ≤ y then false
  else decide (ratio * r.w < pyMin (y - r.ymin) (r.ymax - y))

/-- `rectangle_grid(nrows, ncols)` (row-major, `x_init + col * x_step`). -/
def grid (r : Rect α) (nrows ncols : Nat) : Option (List (Rect α)) :=
  if nrows = 0 ∨ ncols = 0 then none else
  let xstep := r.w / (ncols : α)
  let ystep := r.h / (nrows : α)
  let xinit := r.cx - r.w / two + xstep / two
  let yinit := r.cy - r.h / two + ystep / two
  some <| (List.range nrows).flatMap fun (row : Nat) => (List.range ncols).map fun (col : Nat) =>
    { r.duplicate with cx := xinit + (col : α) * xstep, cy := yinit + (row : α) * ystep,
                       w := xstep, h := ystep }

/-- `aspect_ratio` property: `h / w`, inverted when `< 1`. -/
def aspectRatio (r : Rect α) : α :=
  let ar := r.h / r.w
  if ar < ((1 : Nat) : α) then ((1 : Nat) : α) / ar else ar

end Rect

end FV

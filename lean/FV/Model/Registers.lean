/-
  Process-wide registers of the FRAME tools other than the rectangle tolerances (property C20).

  tools/legalfloor/expression_tree.py keeps three module globals
      epsilon: ExpressionTree          -- only ANNOTATED at import: reading it before `set_epsilon` is a NameError
      debug_print: int = 0xFF          -- mask consulted by `debug(*values, flag=…)` before printing
      named_variables: set[str] = set()  -- consulted by `ExpressionTree.create_variable` to pick a free name
  with the accessors
      set_epsilon(e)      epsilon = e                       (Model.define_time installs a fresh one for every Model)
      get_epsilon()       epsilon.evaluate()
      add_equation(..)    reads epsilon (its expression and its value), for hard and soft equations alike
      turn_off_flag(f)    debug_print &= ~f
      turn_on_flag(f)     debug_print |= f
      debug(.., flag=f)   prints iff  (f & debug_print) > 0
      create_variable(g, .., name)   real_name = name; i = 0
                                     while real_name in named_variables: real_name = "%s_%i" % (name, i); i += 1
                                     (nothing is ever added to `named_variables`)

  (The mutable default arguments `Ineq(lhs=Expr(), rhs=Expr())` and `Strop(height=list(), width=list())` carry no
  logic to model: the harness checks on the real objects, after every operation, that their content is still the
  `def`-time content — a footprint clause, not a theorem.)

  Everything here is executable and Mathlib-free (driver: `drv_global`, ops `regs`).
-/
namespace FV.Proc

/-- the three legaliser registers; `eps = none` is "not yet bound" (NameError on read); the tag identifies WHICH
    expression is installed (the harness installs constants with distinct values). -/
structure LegalRegs where
  eps : Option Nat
  names : List String
  debug : Nat
  deriving Repr, DecidableEq

/-- state right after `import tools.legalfloor.expression_tree`. -/
def LegalRegs.init : LegalRegs := ⟨none, [], 0xFF⟩

inductive RegOp
  | setEpsilon (tag : Nat)
  | getEpsilon
  | addEquation (hard : Bool)
  | createVariable (name : String)
  | turnOff (flag : Nat)
  | turnOn (flag : Nat)
  | debug (flag : Nat)
  deriving Repr, DecidableEq

inductive RegOut
  | unit
  | tag (t : Nat)            -- the epsilon that was read
  | name (s : String)        -- the name given to the new variable
  | printed (b : Bool)       -- did `debug` print?
  | nameError                -- epsilon read before any `set_epsilon`
  | diverges                 -- `create_variable` would loop for ever (unreachable: see `freshName_of_nil`)
  deriving Repr, DecidableEq

/-- `"%s_%i" % (name, i)`. -/
def suffixed (name : String) (i : Nat) : String := name ++ "_" ++ toString i

/-- the `while real_name in named_variables` loop, with fuel `names.length + 1` (the loop visits distinct
    candidates, so it stops within that many steps or never). -/
def freshFrom (names : List String) (name : String) : Nat → Nat → Option String
  | 0, _ => none
  | fuel + 1, i => if suffixed name i ∈ names then freshFrom names name fuel (i + 1) else some (suffixed name i)

def freshName (names : List String) (name : String) : Option String :=
  if name ∈ names then freshFrom names name (names.length + 1) 0 else some name

/-- `debug_print &= ~flag` on non-negative Python ints: clear the bits of `flag`. -/
def clearBits (mask flag : Nat) : Nat := mask ^^^ (mask &&& flag)

def RegOp.step (s : LegalRegs) : RegOp → LegalRegs × RegOut
  | .setEpsilon t => ({ s with eps := some t }, .unit)
  | .getEpsilon => (s, match s.eps with | some t => .tag t | none => .nameError)
  | .addEquation hard => (s, match s.eps with
      | some t => if hard then .unit else .tag t    -- a hard equation evaluates the slack but does not use it
      | none => .nameError)
  | .createVariable n => (s, match freshName s.names n with | some r => .name r | none => .diverges)
  | .turnOff f => ({ s with debug := clearBits s.debug f }, .unit)
  | .turnOn f => ({ s with debug := s.debug ||| f }, .unit)
  | .debug f => (s, .printed (decide (0 < f &&& s.debug)))

/-- run a sequence, collecting the outputs. -/
def runRegs : LegalRegs → List RegOp → LegalRegs × List RegOut
  | s, [] => (s, [])
  | s, op :: ops =>
    let (s1, o) := op.step s
    let (s2, os) := runRegs s1 ops
    (s2, o :: os)

/-- `debug` output is printing, not a result; everything else is. -/
def RegOut.isResult : RegOut → Bool
  | .printed _ => false
  | .unit => true
  | .tag _ => true
  | .name _ => true
  | .nameError => true
  | .diverges => true

def results (os : List RegOut) : List RegOut := os.filter RegOut.isResult

end FV.Proc

import FV.Model.Die
import FV.Model.Netlist
/-
  Executable model of the FRONT of `Die.__init__` (frame/die/die.py:53-78) and `parse_yaml_die`
  (frame/die/yaml_parse_die.py:11-60) that `FV/Model/Die.lean` left to the harness:

    * what the constructor receives as `stream` (`Src`): a `str` (tried as the `<w>x<h>` shorthand by `string_die`, else handed
      to `read_yaml`), a `list`/`dict` tree (`read_yaml` hands it back), an open text stream (`io.TextIOBase`: `read_yaml` reads
      and parses it — no shorthand there; `read_yaml` as repaired by fixes/C04_read_yaml_handle.diff), or any other object
      (`assert isinstance(stream, io.TextIOBase)`);
    * the attached netlist: `Netlist(ndoc)` is constructed by the caller BEFORE the die (it installs the class-wide tolerance
      when none is defined), and `Die.__init__` takes `netlist.fixed_rectangles()`:
          self._fixed = [] if netlist is None else netlist.fixed_rectangles()
      The netlist reader is the C05 model (`FV/Model/Netlist.lean`: `parseDoc`, `defaultEps`, `finish`, `fixedOf`); the flat
      list `Netlist.rectangles` keeps the DOCUMENT order (it is built before `create_stog` reorders each module's own list).
      The STOG role a fixed rectangle carries is not part of this model (the die never reads `Rectangle.location`).

  Text layer (trusted, parameters): `pf` = Python's `float(str)` on the characters of a piece (`none` = `ValueError`), `ry` = `read_yaml` on a `str`
  (`none` = the text layer raised: not a file, not YAML).  `sqrt` = `math.sqrt`, `tiny` = the literal `1e-12`,
  `stogOf ε εA` = `create_stog` under the tolerances in force (instantiated with the C06 model in the driver).

  No Mathlib import here: this file is compiled into the driver.
-/
namespace FV.DieNet
open FV FV.Rect FV.Die

variable {α : Type} [Add α] [Sub α] [Mul α] [Div α] [Neg α] [LT α] [LE α]
  [DecidableLT α] [DecidableLE α] [NatCast α] [DecidableEq α]

/-- `assert`: an `AssertionError` raised inside `Die(...)`; `trace`: the supplied pick sequence is not an admissible run of
    the cover loop (not a Python behaviour); `text`: the text layer (`read_yaml`) raised; `netlist`: `Netlist(ndoc)` raised an
    `AssertionError`, so `Die(...)` is never reached; `infTol`: the netlist proposes the tolerance `math.inf` (no rectangle, no
    positive area) — outside the model. -/
inductive Err | assert | trace | text | netlist | infTol
  deriving DecidableEq, Repr, Inhabited

def Err.toStr : Err → String
  | .assert => "err:Assert" | .trace => "err:Trace" | .text => "err:Text" | .netlist => "err:Netlist"
  | .infTol => "err:InfTol"

def Err.ofDie : Die.Err → Err
  | .assert => .assert | .trace => .trace

/-- the first argument of `Die(stream, netlist)`. -/
inductive Src (α : Type) where
  | str (s : String)
  | tree (t : YV α)
  | handle (t : Option (YV α))     -- an open text stream; `t` = what `read_yaml` makes of its content (`none` = it raised)
  | other
  deriving Inhabited

/-- `die.rsplit('x')` on the characters of the string (no `maxsplit`: the same pieces as `split('x')`; never empty). -/
def splitX : List Char → List (List Char)
  | [] => [[]]
  | c :: cs =>
    match splitX cs with
    | [] => [[]]                                   -- unreachable
    | p :: ps => if c = 'x' then [] :: p :: ps else (c :: p) :: ps

/-- `string_die(die)`: `numbers = die.rsplit('x')`; two pieces, both accepted by `float()` → `assert w > 0 and h > 0`, the
    shape; otherwise `None`.  `pf` = `float()` on a piece (given by its characters). -/
def stringDie (pf : List Char → Option α) (s : String) : Option (Except Die.Err (α × α)) :=
  match splitX s.toList with
  | [a, b] =>
    match pf a, pf b with
    | some w, some h => some (if decide (zero < w) && decide (zero < h) then .ok (w, h) else .error .assert)
    | _, _ => none
  | _ => none

/-- `parse_yaml_die(stream)`. -/
def parseYamlDie (pf : List Char → Option α) (ry : String → Option (YV α)) : Src α → Except Err (DieIn α)
  | .str s =>
    match stringDie pf s with
    | some (.ok (w, h)) => .ok { W := w, H := h, regions := [] }
    | some (.error e) => .error (Err.ofDie e)
    | none =>
      match ry s with
      | none => .error .text
      | some t => match parseDie t with | .ok inp => .ok inp | .error e => .error (Err.ofDie e)
  | .tree t => match parseDie t with | .ok inp => .ok inp | .error e => .error (Err.ofDie e)
  | .handle none => .error .text
  | .handle (some t) => match parseDie t with | .ok inp => .ok inp | .error e => .error (Err.ofDie e)
  | .other => .error .assert

/-- `Die.__init__` after `parse_yaml_die` (the body of `dieModel` after parsing). -/
def dieOfIn (sqrt : α → α) (st : Option (α × α)) (inp : DieIn α) (fixed : List (Rect α))
    (picks : Option (List IRect)) : Except Die.Err (DieOut α × Eps α × (α × α)) :=
  let es := mkEps sqrt st inp.W inp.H
  let pk : Except Die.Err (List IRect) := match picks with
    | some p => .ok p
    | none => detPicks es.1 inp fixed
  match pk with
  | .error e => .error e
  | .ok p =>
    match dieCore es.1 inp fixed p with
    | .error e => .error e
    | .ok out => .ok (out, es.1, es.2)

/-! ### the attached netlist -/

/-- the class-wide tolerance after `Netlist(ndoc)`: unchanged when one was defined, else what the netlist proposes
    (`none` = `math.inf`). -/
def epsAfterNetlist (sqrt : α → α) (tiny : α) (st : Option (α × α)) (ms : List (NL.Mod α)) : Option (α × α) :=
  match st with
  | some p => some p
  | none => NL.defaultEps sqrt tiny ms

/-- `netlist.fixed_rectangles()` as `Rectangle`s of the die model: the fixed entries of the flat list, document order. -/
def fixedRects (ms : List (NL.Mod α)) : List (Rect α) := (NL.fixedOf (ms.flatMap (·.rects))).map NL.NRect.toRect

/-- what the caller's `Netlist(ndoc)` leaves behind: the loaded netlist, its fixed rectangles, the class-wide tolerance
    (`none` = still undefined: no tolerance was defined before and the netlist — terminals only — proposes none). -/
structure Loaded (α : Type) where
  netlist : NL.Netlist α
  fixed : List (Rect α)
  st : Option (α × α)

/-- the tolerances the netlist's own checks run under (nothing reads them when none is defined: no rectangle exists then). -/
def tolOf (st : Option (α × α)) : α × α :=
  match st with
  | some p => p
  | none => (zero, zero)

/-- `netlist = Netlist(ndoc)` in the tolerance state `st`, then `netlist.fixed_rectangles()`. -/
def loadNetlist (sqrt : α → α) (tiny : α) (stogOf : α → α → List (NL.NRect α) → List (NL.NRect α))
    (st : Option (α × α)) (ndoc : YVal α) : Except Err (Loaded α) :=
  match NL.parseDoc ndoc with
  | .error _ => .error .netlist
  | .ok (ms, es) =>
    let τ := epsAfterNetlist sqrt tiny st ms
    match NL.finish (stogOf (tolOf τ).1 (tolOf τ).2) (tolOf τ).2 ms es with
    | .error _ => .error .netlist
    | .ok nl => .ok { netlist := nl, fixed := fixedRects ms, st := τ }

/-- `Die(stream, Netlist(ndoc))` resp. `Die(stream)` (`ndoc = none`), from the documents.
    `picks = none` runs the deterministic cover. -/
def construct (pf : List Char → Option α) (ry : String → Option (YV α)) (sqrt : α → α) (tiny : α)
    (stogOf : α → α → List (NL.NRect α) → List (NL.NRect α))
    (st : Option (α × α)) (ndoc : Option (YVal α)) (src : Src α) (picks : Option (List IRect)) :
    Except Err (DieOut α × Eps α × (α × α)) :=
  let pre : Except Err (Option (α × α) × List (Rect α)) := match ndoc with
    | none => .ok (st, [])
    | some nd => match loadNetlist sqrt tiny stogOf st nd with
      | .error e => .error e
      | .ok l => .ok (l.st, l.fixed)
  match pre with
  | .error e => .error e
  | .ok (st1, fixed) =>
    match parseYamlDie pf ry src with
    | .error e => .error e
    | .ok inp =>
      match dieOfIn sqrt st1 inp fixed picks with
      | .error e => .error (Err.ofDie e)
      | .ok r => .ok r

/-- the Hanan grid and the cell matrix the constructor works on (for translating observed ground rectangles to picks). -/
def gridFor (pf : List Char → Option α) (ry : String → Option (YV α)) (sqrt : α → α) (tiny : α)
    (stogOf : α → α → List (NL.NRect α) → List (NL.NRect α))
    (st : Option (α × α)) (ndoc : Option (YVal α)) (src : Src α) :
    Except Err (DieIn α × List (Rect α) × Eps α) :=
  let pre : Except Err (Option (α × α) × List (Rect α)) := match ndoc with
    | none => .ok (st, [])
    | some nd => match loadNetlist sqrt tiny stogOf st nd with
      | .error e => .error e
      | .ok l => .ok (l.st, l.fixed)
  match pre with
  | .error e => .error e
  | .ok (st1, fixed) =>
    match parseYamlDie pf ry src with
    | .error e => .error e
    | .ok inp => .ok (inp, fixed, (mkEps sqrt st1 inp.W inp.H).1)

end FV.DieNet

import FV.Model.Geom
/-
  Executable model of `split_rectangles` (frame/geometry/geometry.py) and of the `Die` methods built on it
  (`split_refinable_regions`, `initial_grid`, `floorplanning_rectangles`; frame/die/die.py) — property C11.

  * `heapq` (`heapify`, `heappop`, `heappush`, `_siftdown`, `_siftup`) is mirrored statement by statement on an
    array, generic in the element type and in the comparison `lt` (`PrioritizedRectangle.__lt__` compares the
    `area` field only: `field(compare=False)` on `rect`).
  * the `while` loops have no syntactic bound; they are modelled with a fuel argument.  Running out of fuel is
    the distinguished error `.fuel` (never produced by Python); `FV/Props/C11.lean` proves that a finite amount of
    fuel always suffices and that the result does not depend on the fuel.
  * `split_rectangles` is modelled as repaired by `fixes/C11_phase2_aspect.diff`: in phase 2 the two halves go
    through the same aspect-ratio worklist as in phase 1 before they enter the heap.
-/
namespace FV

/-! ### `heapq` -/
namespace Heapq

variable {β : Type} (lt : β → β → Bool)

/-- `_siftdown(heap, startpos, pos)` after `newitem = heap[pos]`: the loop `while pos > startpos`, then
    `heap[pos] = newitem`.  `fuel` bounds the number of iterations (`pos` strictly decreases). -/
def siftdownLoop (startpos : Nat) (newitem : β) : Nat → Array β → Nat → Array β
  | 0, heap, pos => heap.setIfInBounds pos newitem
  | fuel + 1, heap, pos =>
    if startpos < pos then
      let parentpos := (pos - 1) >>> 1
      match heap[parentpos]? with
      | none => heap.setIfInBounds pos newitem          -- unreachable
      | some parent =>
        if lt newitem parent then
          siftdownLoop startpos newitem fuel (heap.setIfInBounds pos parent) parentpos
        else heap.setIfInBounds pos newitem
    else heap.setIfInBounds pos newitem

def siftdown (heap : Array β) (startpos pos : Nat) : Array β :=
  match heap[pos]? with
  | none => heap
  | some newitem => siftdownLoop lt startpos newitem pos heap pos

/-- "Set childpos to index of smaller child": `rightpos = childpos + 1;
    if rightpos < endpos and not heap[childpos] < heap[rightpos]: childpos = rightpos`. -/
def smallerChild (heap : Array β) (childpos : Nat) : Nat :=
  let rightpos := childpos + 1
  match heap[childpos]?, heap[rightpos]? with
  | some c, some r => if rightpos < heap.size && !(lt c r) then rightpos else childpos
  | _, _ => childpos

/-- the loop of `_siftup`: "bubble up the smaller child until hitting a leaf"; returns the heap and the final
    `pos` (the empty leaf). -/
def siftupLoop : Nat → Array β → Nat → Array β × Nat
  | 0, heap, pos => (heap, pos)
  | fuel + 1, heap, pos =>
    let endpos := heap.size
    let childpos := 2 * pos + 1
    if childpos < endpos then
      let childpos := smallerChild lt heap childpos
      match heap[childpos]? with
      | none => (heap, pos)                              -- unreachable
      | some c => siftupLoop fuel (heap.setIfInBounds pos c) childpos
    else (heap, pos)

/-- `_siftup(heap, pos)`. -/
def siftup (heap : Array β) (pos : Nat) : Array β :=
  match heap[pos]? with
  | none => heap
  | some newitem =>
    let (heap, p) := siftupLoop lt heap.size heap pos
    siftdown lt (heap.setIfInBounds p newitem) pos p

/-- `heappush(heap, item)`. -/
def heappush (heap : Array β) (item : β) : Array β :=
  let heap := heap.push item
  siftdown lt heap 0 (heap.size - 1)

/-- `heappop(heap)`; `none` is the `IndexError` of popping from an empty list. -/
def heappop (heap : Array β) : Option (β × Array β) :=
  match heap.back? with
  | none => none
  | some lastelt =>
    let heap := heap.pop
    match heap[0]? with
    | some returnitem => some (returnitem, siftup lt (heap.setIfInBounds 0 lastelt) 0)
    | none => some (lastelt, heap)

/-- `heapify(x)`: `for i in reversed(range(n // 2)): _siftup(x, i)`. -/
def heapify (x : Array β) : Array β :=
  (List.range (x.size / 2)).reverse.foldl (fun h i => siftup lt h i) x

end Heapq

/-! ### `split_rectangles` -/
namespace SplitRects

variable {α : Type} [Add α] [Sub α] [Mul α] [Div α] [Neg α] [LT α] [LE α]
  [DecidableLT α] [DecidableLE α] [NatCast α] [DecidableEq α]

inductive Err | assert | index | fuel
  deriving DecidableEq, Repr

def Err.toStr : Err → String
  | .assert => "err:Assert" | .index => "err:IndexError" | .fuel => "err:Fuel"

/-- `PrioritizedRectangle(area, rect)`. -/
abbrev PR (α : Type) := α × Rect α

/-- `PrioritizedRectangle.__lt__` (dataclass `order=True`, `rect` excluded from comparisons). -/
@[inline] def prLt (a b : PR α) : Bool := decide (a.1 < b.1)

/-- `PrioritizedRectangle(-r.area, r)`. -/
@[inline] def mkPR (r : Rect α) : PR α := (-r.area, r)

/-- The aspect-ratio worklist `while len(q) > 0: r = q.pop…(); if r.aspect_ratio > aspect_ratio: q.extend(r.split())
    else: <emit r>`, which occurs twice in `split_rectangles`.  The two occurrences differ in the queue discipline
    (`enq q r1 r2` = the queue after `q.extend((r1, r2))`, the head of the list being the element taken next) and in
    what is done with a compliant rectangle (`emit`). -/
def worklist (enq : List (Rect α) → Rect α → Rect α → List (Rect α))
    (emit : Array (PR α) → Rect α → Array (PR α)) (ratio : α) :
    Nat → List (Rect α) → Array (PR α) → Except Err (Array (PR α))
  | 0, _, _ => .error .fuel
  | _ + 1, [], acc => .ok acc
  | fuel + 1, r :: q, acc =>
    if ratio < r.aspectRatio then
      match r.split with
      | none => .error .assert
      | some (r1, r2) => worklist enq emit ratio fuel (enq q r1 r2) acc
    else worklist enq emit ratio fuel q (emit acc r)

/-- Phase 1: `r = q.pop()` takes from the right end, `q.extend` appends there, so the deque is a stack whose top is
    the head of the list (`r2` is taken next); compliant rectangles are appended to the list `heap`. -/
def phase1 (ratio : α) : Nat → List (Rect α) → Array (PR α) → Except Err (Array (PR α)) :=
  worklist (fun q r1 r2 => r2 :: r1 :: q) (fun acc r => acc.push (mkPR r)) ratio

/-- (repair) the worklist of phase 2: `r = q.popleft()` takes from the left end, `q.extend` appends at the right
    end (FIFO); compliant rectangles are pushed on the heap. -/
def resplit (ratio : α) : Nat → List (Rect α) → Array (PR α) → Except Err (Array (PR α)) :=
  worklist (fun q r1 r2 => q ++ [r1, r2]) (fun heap r => Heapq.heappush prLt heap (mkPR r)) ratio

/-- Phase 2, `while len(heap) < n`.  The same `fuel` is handed to every inner worklist. -/
def phase2 (ratio : α) (n : Nat) (fuel : Nat) : Nat → Array (PR α) → Except Err (Array (PR α))
  | 0, _ => .error .fuel
  | k + 1, heap =>
    if heap.size < n then
      match Heapq.heappop prLt heap with
      | none => .error .index
      | some (top, heap) =>
        match top.2.split with
        | none => .error .assert
        | some (r1, r2) =>
          match resplit ratio fuel [r1, r2] heap with
          | .error e => .error e
          | .ok heap => phase2 ratio n fuel k heap
    else .ok heap

/-- the literal `1.415` of `assert aspect_ratio > 1.415`. -/
@[inline] def ratioMin : α := ((1415 : Nat) : α) / ((1000 : Nat) : α)

/-- `split_rectangles(rectangles, aspect_ratio, n)`. -/
def splitRectangles (fuel : Nat) (rects : List (Rect α)) (ratio : α) (n : Nat) : Except Err (List (Rect α)) :=
  if n = 0 then .error .assert else
  if ¬ (ratioMin < ratio) then .error .assert else
  match phase1 ratio fuel rects.reverse #[] with
  | .error e => .error e
  | .ok heap =>
    if n ≤ heap.size then .ok (heap.toList.map (·.2)) else
    match phase2 ratio n fuel fuel (Heapq.heapify prLt heap) with
    | .error e => .error e
    | .ok heap => .ok (heap.toList.map (·.2))

/-! ### the `Die` wrappers -/

/-- the part of a `Die` the refinement methods read or write. -/
structure DieSt (α : Type) where
  die : Rect α
  specialized : List (Rect α)
  ground : List (Rect α)
  blockages : List (Rect α)
  fixed : List (Rect α)

/-- `KW_GROUND`. -/
def kwGround : String := "_"

/-- `Die.floorplanning_rectangles()`. -/
def floorplanningRectangles (d : DieSt α) : List (Rect α) × List (Rect α) :=
  (d.specialized ++ d.ground, d.fixed)

/-- `Die.split_refinable_regions(aspect_ratio, n)`. -/
def splitRefinableRegions (fuel : Nat) (d : DieSt α) (ratio : α) (n : Nat) : Except Err (DieSt α) :=
  if n = 0 then .error .assert else
  if ¬ (ratioMin < ratio) then .error .assert else
  match splitRectangles fuel (d.specialized ++ d.ground) ratio n with
  | .error e => .error e
  | .ok rects =>
    .ok { d with specialized := rects.filter (fun r => r.region != kwGround),
                 ground := rects.filter (fun r => r.region == kwGround) }

/-- `Die.initial_grid(nrows, ncols)`. -/
def initialGrid (d : DieSt α) (nrows ncols : Nat) : Except Err (DieSt α) :=
  if ¬ (0 < nrows ∧ 0 < ncols ∧ 1 < nrows + ncols) then .error .assert else
  if ¬ (d.fixed.length = 0 ∧ d.specialized.length = 0 ∧ d.blockages.length = 0) then .error .assert else
  if ¬ (d.ground.length = 1) then .error .assert else
  match d.die.grid nrows ncols with
  | none => .error .assert
  | some cells => .ok { d with ground := cells }

end SplitRects
end FV

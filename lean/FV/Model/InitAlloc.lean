import FV.Model.Geom
/-
  Executable model of the initial allocation (property C03):

    frame/allocation/allocation.py   create_initial_allocation, Allocation.__init__ (the parts that run on a
                                     list of descriptors: `_parse_yaml_tree`, `_calculate_bounding_box`,
                                     `_check_no_overlap`, `_calculate_areas_and_centers`),
                                     Allocation.initial_allocation, Allocation._detect_fixed_rectangles
    frame/netlist/netlist.py         Netlist.create_squares
    frame/netlist/module.py          Module.create_square, Module.area
    frame/geometry/geometry.py       Rectangle.area_overlap / area / overlap / bounding_box (from `FV.Model.Geom`)

  The die is *not* modelled here (C01 owns it): the model starts from what `die.floorplanning_rectangles()`
  returned (two lists of rectangles) and from the modules of `die.netlist`.

  Python exceptions are `Except IErr`; `math.sqrt` is a parameter `sqrt : α → α` of the model (the driver passes
  `Float.sqrt` resp. an exact rational root, the theorems assume `sqrt a * sqrt a = a ∧ 0 ≤ sqrt a` for the
  areas that are actually asked); the built-in `sum` of floats is `pySum` (CPython 3.12: Neumaier).
  Not modelled: identifier validity of module names (`valid_identifier`), `Rectangle.set_epsilon` (the
  epsilon is already defined by `Netlist(...)`; the area tolerance in force is the parameter `εA`).
-/
namespace FV.InitAlloc
open FV FV.Rect

variable {α : Type} [Add α] [Sub α] [Mul α] [Div α] [Neg α] [LT α] [LE α]
  [DecidableLT α] [DecidableLE α] [NatCast α] [DecidableEq α]

/-- the exception classes that can leave `create_initial_allocation`. -/
inductive IErr | assert | zeroDiv
  deriving DecidableEq, Repr, Inhabited

def IErr.toStr : IErr → String
  | .assert => "Assert" | .zeroDiv => "ZeroDiv"

@[inline] def zero : α := ((0 : Nat) : α)
@[inline] def one : α := ((1 : Nat) : α)
/-- the literal `eps = 1e-6` of `_detect_fixed_rectangles` (`1/10^6` correctly rounded is the double `1e-6`). -/
@[inline] def eps6 : α := one / ((1000000 : Nat) : α)

/-- `x == 0` for a float (both zeros), without using `DecidableEq`. -/
@[inline] def isZero (x : α) : Bool := decide (x ≤ zero) && decide (zero ≤ x)

/-- C `fabs` as far as comparisons can tell. -/
@[inline] def pyAbs (x : α) : α := if x < zero then -x else x

/-! ### Python 3.12 `sum()` of floats -/

/-- one turn of the float loop of `builtin_sum` (Neumaier's improved Kahan–Babuška):
    `t = f + x; c += fabs(f) >= fabs(x) ? (f - t) + x : (x - t) + f; f = t`. -/
def neumaierStep (s : α × α) (x : α) : α × α :=
  let t := s.1 + x
  if pyAbs x ≤ pyAbs s.1 then (t, s.2 + ((s.1 - t) + x)) else (t, s.2 + ((x - t) + s.1))

/-- `sum(xs)` for a non-empty iterable of floats: the start value `0` (an `int`) is added to the first item
    (`0 + x0`), the rest goes through the compensated loop, and `if (c && isfinite(c)) f += c`.
    The empty sum is the `int` `0`. -/
def pySum : List α → α
  | [] => zero
  | x0 :: xs =>
    let s := xs.foldl neumaierStep (zero + x0, zero)
    if !(isZero s.2) && isZero (s.2 - s.2) then s.1 + s.2 else s.1

/-! ### netlist side -/

/-- what the allocation reads of a `Module`. -/
structure Module (α : Type) where
  name : String
  fixed : Bool                 -- `is_fixed`
  rects : List (Rect α)        -- `rectangles`
  areas : List α               -- `area_regions.values()`
  center : Option (α × α)      -- `center`
  deriving Repr, Inhabited

/-- `Module.area()` : `sum(self._area_regions.values())`. -/
def Module.area (m : Module α) : α := pySum m.areas

/-- `Module.create_square`: `assert center is not None; area = self.area(); assert area >= 0;
    side = math.sqrt(area); Rectangle(center, Shape(side, side))` — the `Rectangle` constructor asserts
    `w > 0` and `h > 0`.  The square is a soft ground rectangle (`region "_"`, not fixed, not hard). -/
def createSquare (sqrt : α → α) (m : Module α) : Except IErr (Module α) :=
  match m.center with
  | none => .error .assert
  | some (cx, cy) =>
    let area := m.area
    if ¬ (zero ≤ area) then .error .assert else
    let side := sqrt area
    if ¬ (zero < side) then .error .assert else
    .ok { m with rects := [{ cx := cx, cy := cy, w := side, h := side }] }

/-- `Netlist.create_squares`: every module without rectangles gets its square (in module order). -/
def createSquares (sqrt : α → α) : List (Module α) → Except IErr (List (Module α))
  | [] => .ok []
  | m :: ms =>
    match (if m.rects.isEmpty then createSquare sqrt m else .ok m) with
    | .error e => .error e
    | .ok m' =>
      match createSquares sqrt ms with
      | .error e => .error e
      | .ok ms' => .ok (m' :: ms')

/-! ### allocation side -/

/-- Python `dict` with insertion order: assignment `d[k] = v`. -/
def dictSet {β : Type} (d : List (String × β)) (k : String) (v : β) : List (String × β) :=
  if d.any (fun p => p.1 == k) then d.map (fun p => if p.1 == k then (k, v) else p) else d ++ [(k, v)]

/-- `RectAlloc`. -/
structure Cell (α : Type) where
  rect : Rect α
  alloc : List (String × α)
  depth : Nat
  deriving Repr, Inhabited

/-- an `Allocation` object: the cells, the bounding box, and per module (in `_module2rect` insertion order)
    `_areas[m]`, `_centers[m]`. -/
structure Allocation (α : Type) where
  cells : List (Cell α)
  bbox : Rect α
  stats : List (String × α × α × α)
  deriving Repr, Inhabited

/-- `_parse_yaml_tree` on descriptors: `assert is_number(occup) and 0 <= occup <= 1`. -/
def ratiosValid (cells : List (Cell α)) : Bool :=
  cells.all fun c => c.alloc.all fun p => decide (zero ≤ p.2) && decide (p.2 ≤ one)

/-- `_calculate_bounding_box`.  No cell at all: `width = -inf - inf` and the `Rectangle` constructor's
    `assert w > 0` fails.  Otherwise `min`/`max` folds (starting from `±inf`, i.e. from the first cell),
    `assert xmin >= 0 and ymin >= 0`, and the constructor's assertions on the shape. -/
def boundingBox : List (Cell α) → Except IErr (Rect α)
  | [] => .error .assert
  | c :: cs =>
    let xmin := cs.foldl (fun a d => pyMin a d.rect.xmin) c.rect.xmin
    let xmax := cs.foldl (fun a d => pyMax a d.rect.xmax) c.rect.xmax
    let ymin := cs.foldl (fun a d => pyMin a d.rect.ymin) c.rect.ymin
    let ymax := cs.foldl (fun a d => pyMax a d.rect.ymax) c.rect.ymax
    if ¬ (zero ≤ xmin ∧ zero ≤ ymin) then .error .assert else
    let width := xmax - xmin
    let height := ymax - ymin
    if ¬ (zero < width) then .error .assert else
    if ¬ (zero < height) then .error .assert else
    .ok { cx := xmin + width / two, cy := ymin + height / two, w := width, h := height }

/-- `_check_no_overlap`: no pair of `itertools.combinations(cells, 2)` overlaps by more than `εA`. -/
def noOverlap (εA : α) : List (Cell α) → Bool
  | [] => true
  | c :: cs => cs.all (fun d => !(overlap εA c.rect d.rect)) && noOverlap εA cs

/-- `_module2rect.keys()`: module names in order of first appearance. -/
def moduleOrder (cells : List (Cell α)) : List String :=
  (cells.flatMap fun c => c.alloc.map (·.1)).foldl (fun acc n => if acc.contains n then acc else acc ++ [n]) []

/-- one module of `_calculate_areas_and_centers`: `(total_area, Σ cx·ratio, Σ cy·ratio)` accumulated over the
    cells that list the module, in cell order (`ratio = area_ratio * r.area`; `0 + …` for the `Point(0, 0)`
    and `0.0 + …` for the area). -/
def accumulate (cells : List (Cell α)) (m : String) : α × α × α :=
  cells.foldl (fun (acc : α × α × α) c =>
    match c.alloc.lookup m with
    | none => acc
    | some occ =>
      let ratio := occ * c.rect.area
      (acc.1 + ratio, acc.2.1 + c.rect.cx * ratio, acc.2.2 + c.rect.cy * ratio)) (zero, zero, zero)

/-- `_calculate_areas_and_centers`: `center / total_area` raises `ZeroDivisionError` when the area is `0`. -/
def areasAndCenters (cells : List (Cell α)) : List String → Except IErr (List (String × α × α × α))
  | [] => .ok []
  | m :: ms =>
    let acc := accumulate cells m
    if isZero acc.1 then .error .zeroDiv else
    match areasAndCenters cells ms with
    | .error e => .error e
    | .ok l => .ok ((m, acc.1, acc.2.1 / acc.1, acc.2.2 / acc.1) :: l)

/-- `Allocation(list of descriptors)`. -/
def mkAllocation (εA : α) (cells : List (Cell α)) : Except IErr (Allocation α) :=
  if ¬ ratiosValid cells then .error .assert else
  match boundingBox cells with
  | .error e => .error e
  | .ok bb =>
    if ¬ noOverlap εA cells then .error .assert else
    match areasAndCenters cells (moduleOrder cells) with
    | .error e => .error e
    | .ok st => .ok ⟨cells, bb, st⟩

/-- `sum(a.rect.area_overlap(r_mod) / a.rect.area for r_mod in m.rectangles)`. -/
def ratioIn (c : Rect α) (rs : List (Rect α)) : α :=
  pySum (rs.map fun r => c.areaOverlap r / c.area)

/-- inner loop of `_detect_fixed_rectangles` for one cell: the names of the fixed modules that own it
    (`area > 1 - eps`), or the failing `assert area < eps or 1 - eps < area < 1 + eps`. -/
def detectCell (c : Rect α) : List (Module α) → Except IErr (List String)
  | [] => .ok []
  | m :: ms =>
    let a := ratioIn c m.rects
    if a < eps6 ∨ (one - eps6 < a ∧ a < one + eps6) then
      match detectCell c ms with
      | .error e => .error e
      | .ok l => .ok (if one - eps6 < a then m.name :: l else l)
    else .error .assert

/-- outer loop: the cells with their `fixed` flag set where some fixed module owns them, and the list
    `fixed_rects` of `(rectangle, module name)`. -/
def detectLoop (fixedMods : List (Module α)) :
    List (Cell α) → Except IErr (List (Cell α) × List (Rect α × String))
  | [] => .ok ([], [])
  | c :: cs =>
    match detectCell c.rect fixedMods with
    | .error e => .error e
    | .ok names =>
      let r := if names.isEmpty then c.rect else { c.rect with fixed := true }
      match detectLoop fixedMods cs with
      | .error e => .error e
      | .ok (cs', fr) => .ok ({ c with rect := r } :: cs', names.map (fun n => (r, n)) ++ fr)

/-- `_detect_fixed_rectangles`, including the final
    `assert m.num_rectangles == num_rect[m.name]` for every fixed module. -/
def detectFixed (mods : List (Module α)) (cells : List (Cell α)) :
    Except IErr (List (Cell α) × List (Rect α × String)) :=
  let fixedMods := mods.filter (·.fixed)
  match detectLoop fixedMods cells with
  | .error e => .error e
  | .ok (cs', fr) =>
    if fixedMods.all (fun m => m.rects.length == (fr.filter (fun p => p.2 == m.name)).length)
    then .ok (cs', fr) else .error .assert

/-- `if 1.0 < area < 1.0 + eps: area = 1.0` — a fully covered cell whose ratio rounded a few ulps above 1
    (repair `fixes/C03_ratio_above_one.diff`; without it the constructor rejects the ratio). -/
def clampOne (a : α) : α := if one < a ∧ a < one + eps6 then one else a

/-- the `alloc` dictionary of a non-fixed cell. -/
def allocOf (includeZero : Bool) (c : Rect α) (mods : List (Module α)) : List (String × α) :=
  mods.foldl (fun d m =>
    let a := clampOne (ratioIn c m.rects)
    if includeZero || decide (zero < a) then dictSet d m.name a else d) []

/-- `Allocation.initial_allocation(netlist, include_area_zero)` on an allocation with cells `cells`
    (their old `alloc` is ignored, their depth is kept). -/
def initialAllocation (sqrt : α → α) (εA : α) (includeZero : Bool) (mods : List (Module α))
    (cells : List (Cell α)) : Except IErr (Allocation α) :=
  match createSquares sqrt mods with
  | .error e => .error e
  | .ok mods' =>
    match detectFixed mods' cells with
    | .error e => .error e
    | .ok (cells', fr) =>
      let pre : List (Cell α) := fr.map fun p => ⟨p.1, [(p.2, one)], 0⟩
      let rest : List (Cell α) := (cells'.filter fun c => !c.rect.fixed).map fun c =>
        ⟨c.rect, allocOf includeZero c.rect mods', c.depth⟩
      mkAllocation εA (pre ++ rest)

/-- `create_initial_allocation(die, include_area_zero)` from `die.floorplanning_rectangles()` and the
    modules of `die.netlist`. -/
def createInitialAllocation (sqrt : α → α) (εA : α) (includeZero : Bool) (mods : List (Module α))
    (refinable fixed : List (Rect α)) : Except IErr (Allocation α) :=
  match mkAllocation εA ((refinable ++ fixed).map fun r => (⟨r, [], 0⟩ : Cell α)) with
  | .error e => .error e
  | .ok a => initialAllocation sqrt εA includeZero mods a.cells

/-- `Allocation(descriptors).initial_allocation(netlist, include_area_zero)` for descriptors
    `(rectangle, {}, depth)` — the same path entered one level below `create_initial_allocation`
    (cells may then carry a refinement depth and need not be flagged yet). -/
def allocationThenInitial (sqrt : α → α) (εA : α) (includeZero : Bool) (mods : List (Module α))
    (cells : List (Rect α × Nat)) : Except IErr (Allocation α) :=
  match mkAllocation εA (cells.map fun p => (⟨p.1, [], p.2⟩ : Cell α)) with
  | .error e => .error e
  | .ok a => initialAllocation sqrt εA includeZero mods a.cells

end FV.InitAlloc

import FV.Model.Force
/-
  Executable model of `tools/spectral/spectral_algorithm.py` (`spectral_layout_die`, `normalize`,
  `orthogonalize`, `calculate_centroids`, `abs_norm_dot_product`, `wirelength`), of
  `tools/spectral/spectral.py` (`Spectral._build_graph`, `Spectral.spectral_layout`) and of
  `Module.recenter_rectangles` (`frame/netlist/module.py`).

  * Python exceptions are values of `Err` (`ValueError` of `min()` of nothing, `ZeroDivisionError`,
    failing `assert`); every division whose divisor can be zero is guarded explicitly, so the `x / 0 = 0`
    convention of Lean fields is never used.
  * `random.uniform` is not modelled: the values it returned are an input list (`draws`), consumed in call
    order; `Err.noDraws` (model only) means the list was too short.
  * `sum(...)` of floats is CPython 3.12's Neumaier summation (`FV.Force.nsum`).
  * vectors are lists indexed with a default (`vat`); all vectors of a run have length `n`, so the default
    is never read (the theorems that need it carry the length hypotheses).

  No Mathlib import here: the driver is a compiled executable.
-/
namespace FV.Spectral
open FV FV.Force

inductive Err | value | zeroDiv | assertion | noDraws
  deriving DecidableEq, Repr, Inhabited

def Err.toStr : Err → String
  | .value => "err:ValueError" | .zeroDiv => "err:ZeroDivisionError"
  | .assertion => "err:AssertionError" | .noDraws => "err:NoDraws"

/-- an entry of the adjacency list (`AdjEdge`). -/
structure Edge (α : Type) where
  node : Nat
  weight : α
  deriving Inhabited

variable {α : Type} [Add α] [Sub α] [Mul α] [Div α] [Neg α] [LT α] [LE α]
  [DecidableLT α] [DecidableLE α] [NatCast α]

/-! ### literals and small helpers -/

/-- `0.5`. -/
@[inline] def half : α := ((1 : Nat) : α) / ((2 : Nat) : α)
/-- `10e-10` (= `1e-9`): below this magnitude `normalize` ignores a coordinate when choosing the scale. -/
@[inline] def delta : α := ((1 : Nat) : α) / ((1000000000 : Nat) : α)
/-- `10e-12` (= `1e-11`): the orthogonality assertion. -/
@[inline] def orthTol : α := ((1 : Nat) : α) / ((100000000000 : Nat) : α)
/-- `1e-10`. -/
@[inline] def epsUnit : α := ((1 : Nat) : α) / ((10000000000 : Nat) : α)

/-- `x[i]`. -/
@[inline] def vat (x : List α) (i : Nat) : α := x.getD i zero
@[inline] def fixedAt (f : List Bool) (i : Nat) : Bool := f.getD i false

/-- `b == 0` on floats (true for `±0.0`, false for NaN) / in a field. -/
@[inline] def isZero (x : α) : Bool := decide (x ≤ zero) && decide (zero ≤ x)

/-- Python `a / b` on floats. -/
@[inline] def pyDiv (a b : α) : Except Err α := if isZero b then .error .zeroDiv else .ok (a / b)

/-- Python `min(iterable)` / `max(iterable)`: the first extremal element; `ValueError` on nothing. -/
def minFirst : List α → Except Err α
  | [] => .error .value
  | x :: xs => .ok (xs.foldl (fun m y => if y < m then y else m) x)
def maxFirst : List α → Except Err α
  | [] => .error .value
  | x :: xs => .ok (xs.foldl (fun m y => if m < y then y else m) x)

/-! ### `spectral_algorithm.py` -/

/-- the candidate scales of `normalize`: `max_span[i] / abs(x[i])` for non-fixed `i` with `abs(x[i]) > 10e-10`. -/
def scaleCands (x maxSpan : List α) (fixed : List Bool) : List α :=
  (List.range x.length).filterMap fun i =>
    if !fixedAt fixed i && decide (delta < pyAbs (vat x i)) then some (vat maxSpan i / pyAbs (vat x i)) else none

/-- `normalize(x, max_span, is_fixed)` (returns the new vector instead of updating in place). -/
def normalize (x maxSpan : List α) (fixed : List Bool) : Except Err (List α) := do
  let scale ← minFirst (scaleCands x maxSpan fixed)
  pure ((List.range x.length).map fun i => if fixedAt fixed i then vat x i else vat x i * scale)

/-- `abs_norm_dot_product(v1, v2, weight)`. -/
def absNormDot (v1 v2 w : List α) : Except Err α := do
  let idx := List.range v1.length
  let dot := nsum (idx.map fun i => vat w i * vat v1 i * vat v2 i)
  let norm := nsum (idx.map fun i => vat w i * vat v1 i * vat v1 i)
  let q ← pyDiv dot norm
  pure (pyAbs q)

/-- one `k` of `orthogonalize`: remove from `cd` its component along `ck`, then the orthogonality assertion. -/
def orthoStep (mass : List α) (fixed : List Bool) (ck cd : List α) : Except Err (List α) := do
  let idx := List.range mass.length
  let nd := idx.foldl (fun (nd : α × α) i =>
    if fixedAt fixed i then nd else
      let tmp := vat ck i * vat mass i
      (nd.1 + vat cd i * tmp, nd.2 + vat ck i * tmp)) (zero, zero)
  let factor ← pyDiv nd.1 nd.2
  let cd' := idx.map fun i => if fixedAt fixed i then vat cd i else vat cd i - factor * vat ck i
  let dp ← absNormDot cd' ck mass
  if dp < orthTol then pure cd' else .error .assertion

/-- `orthogonalize(coord, mass, dim, is_fixed)`: the new `coord[dim]` (the other rows are not assigned). -/
def orthogonalize (coord : List (List α)) (mass : List α) (dim : Nat) (fixed : List Bool) : Except Err (List α) :=
  (List.range dim).foldlM (fun cd k => orthoStep mass fixed (coord.getD k []) cd) (coord.getD dim [])

/-- `calculate_centroids(adj, coord, degree)`. -/
def calculateCentroids (adj : List (List (Edge α))) (coord degree : List α) : Except Err (List α) :=
  (List.range coord.length).mapM fun i => do
    let center ← pyDiv (nsum ((adj.getD i []).map fun e => e.weight * vat coord e.node)) (vat degree i)
    pure (half * (vat coord i + center))

/-- the quantities computed once per call of `spectral_layout_die`. -/
structure Cst (α : Type) where
  adj : List (List (Edge α))
  fixed : List Bool
  floatMass : List α
  degree : List α
  eps : α

/-- the body of the `while` loop for dimension `d`: the new `coord[d]`, the new `dotprod`, and (ghost, for the
    statement of the post-condition only) the vector that was handed to `normalize`. -/
def iterBody (c : Cst α) (maxSpan : List α) (coord : List (List α)) (d : Nat) : Except Err (List α × α × List α) := do
  let cd ← orthogonalize coord c.floatMass d c.fixed
  let tmp ← calculateCentroids c.adj cd c.degree
  let idx := List.range c.adj.length
  let new := idx.map fun i => if fixedAt c.fixed i then vat cd i else vat tmp i
  let mx ← maxFirst new
  let mn ← minFirst new
  let new := if mx - mn < c.eps then idx.map fun i => half * (vat new i + vat cd i) else new
  let new' ← normalize new maxSpan c.fixed
  let dp ← absNormDot cd new' c.floatMass
  pure (new', dp, new)

/-- the `while` loop for dimension `d`; `fuel` = iterations still allowed (`10000 - num_iter`);
    `pre` (ghost) = the argument of the last `normalize` call that wrote `coord[d]`. -/
def dimLoop (c : Cst α) (maxSpan : List α) (d : Nat) :
    Nat → List (List α) → α → Nat → List α → Except Err (List (List α) × Nat × List α)
  | 0, coord, _, it, pre => .ok (coord, it, pre)
  | fuel + 1, coord, dp, it, pre =>
    if dp < one - c.eps ∨ one + c.eps < dp then do
      let r ← iterBody c maxSpan coord d
      dimLoop c maxSpan d fuel (coord.set d r.1) r.2.1 (it + 1) r.2.2
    else .ok (coord, it, pre)

/-- lines 56–82 for one dimension: the initial `normalize`, then the loop. -/
def processDim (c : Cst α) (maxSpan : List α) (maxIter : Nat) (coord : List (List α)) (d : Nat) :
    Except Err (List (List α) × Nat × List α) := do
  let x ← normalize (coord.getD d []) maxSpan c.fixed
  dimLoop c maxSpan d maxIter (coord.set d x) zero 0 (coord.getD d [])

/-- lines 46–51 for one row: unknown (negative) coordinates are drawn, everything is shifted by `size/2`. -/
def initRow (size : α) (fixed : List Bool) : List α → Nat → List α → Except Err (List α × List α)
  | [], _, draws => .ok ([], draws)
  | x :: xs, i, draws =>
    if x < zero then
      if fixedAt fixed i then .error .assertion else
      match draws with
      | [] => .error .noDraws
      | u :: draws => do
        let r ← initRow size fixed xs (i + 1) draws
        pure ((u - size / two) :: r.1, r.2)
    else do
      let r ← initRow size fixed xs (i + 1) draws
      pure ((x - size / two) :: r.1, r.2)

/-- `wirelength(adj, coord)`. -/
def wirelength (adj : List (List (Edge α))) (coord : List (List α)) : α :=
  let nmod := (coord.getD 0 []).length
  let total := (List.range nmod).foldl (fun total i =>
    (adj.getD i []).foldl (fun total e =>
      total + e.weight * nsum (coord.map fun row => pyAbs (vat row e.node - vat row i))) total) zero
  total / two

/-- the result of `spectral_layout_die`, plus the unused draws. -/
structure DieResult (α : Type) where
  xs : List α
  ys : List α
  wl : α
  iters : List Nat
  draws : List α
  /-- ghost: the vectors handed to the LAST `normalize` call of the x and of the y dimension. -/
  preX : List α
  preY : List α

/-- `radius[i]`. -/
def radii (o : Ops α) (mass : List α) : List α := mass.map fun m => o.sqrt (m / o.pi)
/-- `max_span[d]` for a dimension of size `size`. -/
def maxSpans (size : α) (radius : List α) : List α := radius.map fun r => size / two - r

/-- `spectral_layout_die(adj, mass, [W, H], [init0, init1], fixed)`; `maxIter` is the literal `10000`. -/
def spectralLayoutDie (o : Ops α) (adj : List (List (Edge α))) (mass : List α) (W H : α)
    (init0 init1 : List α) (fixed : List Bool) (draws : List α) (maxIter : Nat := 10000) :
    Except Err (DieResult α) := do
  let n := adj.length
  let eps : α := pyMax W H * ((n : Nat) : α) * epsUnit
  let degree := adj.map fun es => nsum (es.map (·.weight))
  let radius := radii o mass
  let spanX := maxSpans W radius
  let spanY := maxSpans H radius
  let r1 ← initRow W fixed init0 0 draws
  let r2 ← initRow H fixed init1 0 r1.2
  let coord : List (List α) := [List.replicate n one, r1.1, r2.1]
  let floatMass := (List.range n).map fun i => if fixedAt fixed i then zero else vat mass i
  let c : Cst α := { adj, fixed, floatMass, degree, eps }
  let p1 ← processDim c spanX maxIter coord 1
  let p2 ← processDim c spanY maxIter p1.1 2
  let fin := [p2.1.getD 1 [], p2.1.getD 2 []]
  pure { xs := p2.1.getD 1 [], ys := p2.1.getD 2 [], wl := wirelength adj fin, iters := [p1.2.1, p2.2.1], draws := r2.2,
         preX := p1.2.2, preY := p2.2.2 }

/-! ### `spectral.py`: graph construction, best-of-n, hard modules -/

/-- a rectangle of a module: centre and shape (the only attributes that matter here). -/
structure SRect (α : Type) where
  cx : α
  cy : α
  w : α
  h : α

/-- a module as `Spectral` sees it; `rest` carries everything it never reads. -/
structure SMod (α β : Type) where
  center : Option (α × α)
  mass : α
  fixed : Bool
  hard : Bool
  terminal : Bool
  rects : List (SRect α)
  rest : β

structure SNet (α : Type) where
  pins : List Nat
  weight : α

/-- `_build_graph`, the clique model: every pair of every net, weight `2 * w / len(net)`. -/
def buildAdj (n : Nat) (nets : List (SNet α)) : Except Err (List (List (Edge α))) :=
  nets.foldlM (fun adj e =>
    if e.pins.length ≤ 1 then .error .assertion else
    let w := two * e.weight / ((e.pins.length : Nat) : α)
    .ok ((pairs e.pins).foldl (fun adj sd =>
      let adj := adj.set sd.1 (adj.getD sd.1 [] ++ [⟨sd.2, w⟩])
      adj.set sd.2 (adj.getD sd.2 [] ++ [⟨sd.1, w⟩])) adj)) (List.replicate n [])

/-- `Module.recenter_rectangles` for a module whose centre is `c`. -/
def recenter (c : α × α) (rects : List (SRect α)) : Except Err (List (SRect α)) := do
  let area := nsum (rects.map fun r => r.w * r.h)
  let x ← pyDiv (nsum (rects.map fun r => r.cx * (r.w * r.h))) area
  let y ← pyDiv (nsum (rects.map fun r => r.cy * (r.w * r.h))) area
  let incx := c.1 - x
  let incy := c.2 - y
  pure (rects.map fun r => { r with cx := r.cx + incx, cy := r.cy + incy })

/-- one comparison `if wl < best_wl` of lines 116–118: `best_wl = inf`, `best_coord = None` is `none`; against `inf`
    the test is `Ops.ltInf wl` (false for an `inf` / NaN wirelength, which therefore never wins — as in Python, where
    `best_coord` then stays `None` and the `assert best_coord is not None` fails). -/
def betterTrial (o : Ops α) (best : Option (DieResult α)) (r : DieResult α) : Option (DieResult α) :=
  match best with
  | none => if o.ltInf r.wl then some r else none
  | some b => if r.wl < b.wl then some r else some b

/-- the trials of lines 110–118: the first strictly smallest wirelength (below `inf`) wins. -/
def runTrials (o : Ops α) (adj : List (List (Edge α))) (mass : List α) (W H : α) (c0 c1 : List α)
    (fixed : List Bool) (maxIter : Nat) :
    Nat → List α → Option (DieResult α) → Except Err (Option (DieResult α))
  | 0, _, best => .ok best
  | k + 1, draws, best => do
    let r ← spectralLayoutDie o adj mass W H c0 c1 fixed draws maxIter
    runTrials o adj mass W H c0 c1 fixed maxIter k r.draws (betterTrial o best r)

/-- (specification device, not code) the results of the `k` trials in order: each starts with the draws the previous
    one left. -/
def trialResults (o : Ops α) (adj : List (List (Edge α))) (mass : List α) (W H : α) (c0 c1 : List α)
    (fixed : List Bool) (maxIter : Nat) : Nat → List α → Except Err (List (DieResult α))
  | 0, _ => .ok []
  | k + 1, draws => do
    let r ← spectralLayoutDie o adj mass W H c0 c1 fixed draws maxIter
    let rs ← trialResults o adj mass W H c0 c1 fixed maxIter k r.draws
    pure (r :: rs)

/-- lines 122–133 for one module, given its new centre `p`. -/
def finishModule {β : Type} (m : SMod α β) (p : α × α) : Except Err (SMod α β) := do
  let rects ← (if m.hard && !m.fixed then recenter p m.rects else pure m.rects : Except Err (List (SRect α)))
  let center := if m.hard && !m.terminal then none else some p
  pure { m with center := center, rects := rects }

/-- lines 122–133 over the module list (`i` = index of the first module of the list). -/
def finishAll {β : Type} (xs ys : List α) (W H : α) : List (SMod α β) → Nat → Except Err (List (SMod α β))
  | [], _ => .ok []
  | m :: ms, i => do
    let m' ← finishModule m (vat xs i + W / two, vat ys i + H / two)
    let ms' ← finishAll xs ys W H ms (i + 1)
    pure (m' :: ms')

/-- `_centers[d]` as passed to `spectral_layout_die`: the centre of a module when it is known and kept
    (`nfloorplans = 0`, or the module is fixed), `-1.0` otherwise. -/
def initCentres {β : Type} (mods : List (SMod α β)) (nfloorplans : Nat) (d : Bool) : List α :=
  mods.map fun m => match m.center with
    | some c => if nfloorplans = 0 ∨ m.fixed = true then (if d then c.2 else c.1) else -one
    | none => -one

/-- the assertions of `_build_graph` / `spectral_layout` that do not depend on the run. -/
def layoutGuards {β : Type} (mods : List (SMod α β)) (nfloorplans : Nat) : Bool :=
  -- a fixed module has a centre; more than two nodes; with `nfloorplans = 0` every module has a centre
  !(mods.any fun m => m.fixed && m.center.isNone) && decide (2 < mods.length) &&
    !(decide (nfloorplans = 0) && mods.any fun m => m.center.isNone)

/-- `Spectral(netlist).spectral_layout(Shape(W, H), nfloorplans, False)`, returning next to the modules the
    record of the winning trial (ghost: the Python keeps only its coordinates). -/
def spectralLayoutTrace (o : Ops α) {β : Type} (mods : List (SMod α β)) (nets : List (SNet α)) (W H : α)
    (nfloorplans : Nat) (draws : List α) (maxIter : Nat := 10000) : Except Err (List (SMod α β) × DieResult α) := do
  let adj ← buildAdj mods.length nets
  if layoutGuards mods nfloorplans then
    let best ← runTrials o adj (mods.map (·.mass)) W H (initCentres mods nfloorplans false)
      (initCentres mods nfloorplans true) (mods.map (·.fixed)) maxIter
      (if nfloorplans = 0 then 1 else nfloorplans) draws none
    match best with
    | none => .error .assertion
    | some b => do
      let out ← finishAll b.xs b.ys W H mods 0
      pure (out, b)
  else .error .assertion

/-- `Spectral(netlist).spectral_layout(Shape(W, H), nfloorplans, False)`: the modules afterwards. -/
def spectralLayout (o : Ops α) {β : Type} (mods : List (SMod α β)) (nets : List (SNet α)) (W H : α)
    (nfloorplans : Nat) (draws : List α) (maxIter : Nat := 10000) : Except Err (List (SMod α β)) := do
  let r ← spectralLayoutTrace o mods nets W H nfloorplans draws maxIter
  pure r.1

end FV.Spectral

import FV.Model.Legal
/-
  Second part of the executable model of the legaliser (tools/legalfloor), on top of `FV/Model/Legal.lean`:
    * the variable DECLARATIONS of `ModelModule._define_vars` and `Model.define_time`
      (`ExpressionTree.create_variable(gekko, value, lb, ub, name)` = `gekko.Var(value, lb, ub, name)`): every GEKKO
      variable with its initial value and its bounds — `decls`;
    * the slack schedule `set_epsilon((decay ** time) * ini)` — `slackRaw` (reported through `epsValue`);
    * the hard step caps `ModelWrapper.force_step` files under the group `radius` when `first_build_model` ends with
      `build_model(small_steps=True)` — `stepEqs` (they stay in `ModelWrapper.constraints` afterwards);
    * `Model.dist` (metric 1) and the `enforce` flag `Model.build_model` gives every no-overlap equation — `enforceFlags`;
    * `ModelModule.turn_off_rects` and `ModelModule.get_constraints` with disabled rectangles (group `Rid`) —
      `turnOff`, `macroEqsEn`, `ridAssign`.
  As in `Legal.lean` everything is a pure function; GEKKO is only the container of the declarations.
-/
namespace FV.Legal
open FV

variable {α : Type} [Add α] [Sub α] [Mul α] [Div α] [Neg α] [LT α] [LE α]
  [DecidableLT α] [DecidableLE α] [NatCast α]

/-- `0.1`, `0.2`, `0.3` (correctly rounded quotients = the Python literals), `1000`. -/
@[inline] def tenth : α := one / ten
@[inline] def fifth : α := one / ((5 : Nat) : α)
@[inline] def threeTenths : α := ((3 : Nat) : α) / ten
@[inline] def thousand : α := ((1000 : Nat) : α)

/-! ### variable declarations -/

/-- the name of a GEKKO variable: `<k><m>i<i>` of a rectangle, or `time`. -/
inductive DName
  | rect (v : Var)
  | time
  deriving DecidableEq, Repr

def DName.toStr : DName → String
  | .rect q => s!"{q.k.toStr}{q.m}i{q.i}"
  | .time => "time"

/-- `gekko.Var(value=…, lb=…, ub=…, name=…)` -/
structure Decl (α : Type) where
  n : DName
  value : α
  lb : α
  ub : α

/-- `_define_vars`: the four variables of rectangle `i` of module `m`, created with the box the netlist gives it. -/
def rectDecls (P : Params α) (m i : Nat) (b : Box α) : List (Decl α) :=
  [ ⟨.rect ⟨.x, m, i⟩, b.x, zero, P.dw⟩,
    ⟨.rect ⟨.y, m, i⟩, b.y, zero, P.dh⟩,
    ⟨.rect ⟨.w, m, i⟩, b.w, tenth, P.dw⟩,
    ⟨.rect ⟨.h, m, i⟩, b.h, tenth, P.dh⟩ ]

/-- `define_module` + the `add_rect` calls of one module (trunk, then N, S, E, W branches). -/
def moduleDecls (P : Params α) (m : Nat) (b : ModIn α) : List (Decl α) :=
  rectDecls P m 0 b.trunk ++ b.sided.flatMap fun (i, _, q) => rectDecls P m i q

/-- `define_time`: `time` is created with value 0 in `[0, 1000]`, then `time_advance(fixed_t)` assigns
    `time.evaluate() + fixed_t`. -/
def timeDecl (fixedT : α) : Decl α := ⟨.time, zero + fixedT, zero, thousand⟩

/-- every variable `Model(...)` declares, in creation order (`fixed_t = 1` at construction). -/
def decls (P : Params α) (U : Utils α) : List (Decl α) :=
  timeDecl one :: (idxFrom 0 U.ml).flatMap fun (m, b) => moduleDecls P m b

/-- the boxes of a module in `ModelModule` order. -/
def ModIn.boxes (b : ModIn α) : List (Box α) := b.trunk :: b.branches

/-- the configuration the variables are initialised with. -/
def inputBoxes (U : Utils α) : List (List (Box α)) := U.ml.map (·.boxes)

/-! ### the slack schedule -/

/-- plain value of the tree `(ExpressionTree(decay) ** time) * ini` that `define_time` installs as the process-wide
    slack (`Model(..., temp0, alpha_temp, …)` stores `temp0` as the decay and `alpha_temp` as the initial value). -/
def slackRaw (F : Fns α) (decay ini time : α) : Option α := (F.pow decay time).map (· * ini)

/-! ### step caps (`force_step`, group `radius`) -/

/-- `radius * 0.3` with `radius = dist_threshold = 0.2 * max(die_width, die_height)` (the `build_model(small_steps=True)`
    at the end of `first_build_model`). -/
def distThreshold (radius : α) (P : Params α) : α := radius * pyMax P.dw P.dh
def stepRadius (P : Params α) : α := distThreshold fifth P * threeTenths

/-- the six hard caps of coordinate tuple number `k` = rectangle `i` of module `m`, whose current box is `b0`. -/
def capEqs (rad : α) (k m i : Nat) (b0 : Box α) : List (Eqn α) :=
  [ ⟨"radius", s!"Cap_x0[{k}]", v .x m i, .le, .cst (b0.x + rad), true⟩,
    ⟨"radius", s!"Cap_x1[{k}]", v .x m i, .ge, .cst (b0.x - rad), true⟩,
    ⟨"radius", s!"Cap_y0[{k}]", v .y m i, .le, .cst (b0.y + rad), true⟩,
    ⟨"radius", s!"Cap_y1[{k}]", v .y m i, .ge, .cst (b0.y - rad), true⟩,
    ⟨"radius", s!"Cap_w[{k}]", v .w m i, .le, .cst (b0.w + rad), true⟩,
    ⟨"radius", s!"Cap_h[{k}]", v .h m i, .le, .cst (b0.h + rad), true⟩ ]

/-- `(m, i, box)` for every rectangle, in the order of `add_coordinates`. -/
def flatBoxes (cfg : List (List (Box α))) : List (Nat × Nat × Box α) :=
  (idxFrom 0 cfg).flatMap fun (m, bs) => (idxFrom 0 bs).map fun (i, b) => (m, i, b)

/-- `force_step(rad)` at the configuration `cfg`. -/
def stepEqs (rad : α) (cfg : List (List (Box α))) : List (Eqn α) :=
  (idxFrom 0 (flatBoxes cfg)).flatMap fun (k, (m, i, b)) => capEqs rad k m i b

/-- the group `radius` as `Model(...)` leaves it. -/
def stepEqsOf (P : Params α) (U : Utils α) : List (Eqn α) := stepEqs (stepRadius P) (inputBoxes U)

/-! ### which no-overlap equations are enforced (`Model.build_model`) -/

/-- `Model.dist(…, metric=1)`: the L1 gap between two boxes. -/
def distL1 (p q : Box α) : α :=
  pyMax zero (pyAbs (p.x - q.x) - half * (p.w + q.w)) + pyMax zero (pyAbs (p.y - q.y) - half * (p.h + q.h))

/-- `e.enforce = dist(…) <= dist_threshold` for every pair, in the order of the `Inter` equations
    (`force_enforce` empty). -/
def enforceFlags (thr : α) (cfg : List (List (Box α))) : List Bool :=
  let cs := idxFrom 0 cfg
  cs.flatMap fun (m, bm) => (cs.filter fun (n, _) => m < n).flatMap fun (_, bn) =>
    bm.flatMap fun p => bn.map fun q => decide (distL1 p q ≤ thr)

/-! ### disabled rectangles (`turn_off_rects`, `get_constraints`) -/

/-- `ModelModule.area.evaluate()`: `0 + w0*h0 + w1*h1 + …` -/
def areaOf (bs : List (Box α)) : α := bs.foldl (fun acc b => acc + b.w * b.h) zero

/-- `turn_off_rects(perc)` on one module: a branch whose share of the module's area is at most `perc` is disabled
    (flags never come back).  `none`: the area is zero and Python's division raises. -/
def turnOff (perc : α) (bs : List (Box α)) (en : List Bool) : Option (List Bool) :=
  let a := areaOf bs
  if bs.length ≤ 1 then some en
  else if a ≤ zero ∧ zero ≤ a then none
  else some ((idxFrom 0 (bs.zip en)).map fun (i, (b, e)) =>
    if i = 0 then e else if b.w * b.h / a ≤ perc then false else e)

def ridEqs (m i : Nat) : List (Eqn α) :=
  [ ⟨"Rid", s!"rid_x[{m},{i}]", v .x m i, .eq, v .x m 0, false⟩,
    ⟨"Rid", s!"rid_y[{m},{i}]", v .y m i, .eq, v .y m 0, false⟩,
    ⟨"Rid", s!"rid_w[{m},{i}]", v .w m i, .eq, .cst zero, false⟩,
    ⟨"Rid", s!"rid_h[{m},{i}]", v .h m i, .eq, .cst zero, false⟩ ]

def enAt (en : List Bool) (i : Nat) : Bool := (en[i]?).getD true

/-- Intra equations of one side, kept only when both rectangles are enabled (`codependent_constraints`). -/
def intraSideEn (m : Nat) (b : ModIn α) (en : List Bool) (s : Loc) (k e : VK) (key : Box α → α) (nm : String) :
    List (Eqn α) :=
  ((idxFrom 0 (pairs (sortBy (fun p => key p.2) (b.side s)))).filter fun (_, (a, c)) => enAt en a.1 && enAt en c.1).map
    fun (i, (a, c)) =>
      ⟨"Intra", s!"no_intramodule_{nm}_intersection[{m},{i}]",
        Expr.add' (v k m a.1) (Expr.mul' hlf (v e m a.1)), .le, Expr.sub' (v k m c.1) (Expr.mul' hlf (v e m c.1)), false⟩

/-- `ModelModule.get_constraints` with enable flags `en`. -/
def macroEqsEn (P : Params α) (m : Nat) (b : ModIn α) (en : List Bool) : List (Eqn α) :=
  (if enAt en 0 then rectEqs P m 0 else ridEqs m 0) ++
  (b.sided.flatMap fun (i, side, _) => if enAt en i then rectEqs P m i ++ attachEqs side m i else ridEqs m i) ++
  (intraSideEn m b en .north .x .w (·.x) "north" ++ intraSideEn m b en .south .x .w (·.x) "south" ++
   intraSideEn m b en .east .y .h (·.y) "east" ++ intraSideEn m b en .west .y .h (·.y) "west")

/-- the side effect of `get_constraints`: a disabled rectangle is moved onto the trunk's centre. -/
def ridAssign (bs : List (Box α)) (en : List Bool) : List (Box α) :=
  match bs with
  | [] => []
  | t :: _ => (idxFrom 0 bs).map fun (i, b) => if enAt en i then b else { b with x := t.x, y := t.y }

end FV.Legal

/-
  Scalars of the executable models.

  Every geometric model is written once, polymorphic in a scalar type `α` that only needs
  `+ - * /`, negation, decidable `<` / `≤` and a cast from `Nat` (for literals).
  * executed at `Float`  (IEEE binary64 = the Python float; exchanged as 16 hex digits),
  * executed at `Rat`    (exact; exchanged as `n/d`),
  * proved for every linearly ordered field (`FV/Proofs`, `FV/Props`), of which `Rat` is one,
    so the theorems are literally about the `Rat` code the driver runs.

  No Mathlib import here: the driver is a compiled executable.
-/

namespace FV

/-- Python's two-argument `max(a, b)`: returns `a` unless `b > a`. -/
@[inline] def pyMax {α : Type} [LT α] [DecidableLT α] (a b : α) : α := if a < b then b else a

/-- Python's two-argument `min(a, b)`: returns `a` unless `b < a`. -/
@[inline] def pyMin {α : Type} [LT α] [DecidableLT α] (a b : α) : α := if b < a then b else a

instance : NatCast Float := ⟨Float.ofNat⟩

/-- wire format of scalars (driver only). -/
class ScalarIO (α : Type) where
  parse : String → Option α
  print : α → String

def hexDigit? (c : Char) : Option Nat :=
  if '0' ≤ c ∧ c ≤ '9' then some (c.toNat - '0'.toNat)
  else if 'a' ≤ c ∧ c ≤ 'f' then some (c.toNat - 'a'.toNat + 10)
  else none

def parseHex64? (s : String) : Option UInt64 :=
  if s.length != 16 then none else
  s.toList.foldl (fun acc c => do
    let a ← acc
    let d ← hexDigit? c
    pure (a * 16 + d.toUInt64)) (some 0)

def hexOfNat (n : Nat) : Char :=
  if n < 10 then Char.ofNat (n + '0'.toNat) else Char.ofNat (n - 10 + 'a'.toNat)

def printHex64 (u : UInt64) : String :=
  let n := u.toNat
  String.ofList ((List.range 16).map fun i => hexOfNat ((n >>> (4 * (15 - i))) % 16))

instance : ScalarIO Float where
  parse s := (parseHex64? s).map Float.ofBits
  print x := printHex64 x.toBits

def parseInt? (s : String) : Option Int := s.toInt?

def parseRat? (s : String) : Option Rat :=
  match s.splitOn "/" with
  | [n] => (parseInt? n).map fun i => (i : Rat)
  | [n, d] => do
      let i ← parseInt? n
      let k ← d.toNat?
      if k == 0 then none else pure (mkRat i k)
  | _ => none

def printRat (q : Rat) : String :=
  if q.den == 1 then toString q.num else s!"{q.num}/{q.den}"

instance : ScalarIO Rat where
  parse := parseRat?
  print := printRat

end FV

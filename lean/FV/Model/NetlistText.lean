import FV.Model.Netlist
import FV.Model.YamlText
/-
  `Netlist.write_yaml()` and `Netlist(text)` down to the characters (property C04): the tree model of the writer /
  reader (`FV/Model/Netlist.lean`) composed with the text model (`FV/Model/YamlText.lean`).

  The only step left outside is the conversion between a Python `float` and its decimal text: `fr` stands for `repr`
  (what ruamel's `represent_float` starts from) and `fv` for `float` (what `construct_yaml_float` ends with).
-/
namespace FV.NL
open FV FV.YT

variable {α : Type} [Add α] [Sub α] [Mul α] [Div α] [Neg α] [LT α] [LE α]
  [DecidableLT α] [DecidableLE α] [NatCast α] [DecidableEq α]

/-- `n.write_yaml()`: `write_yaml({Modules: dump_yaml_modules(…), Nets: dump_yaml_edges(…)})`. -/
def writeText (fr : α → String) (n : Netlist α) : List Char := emitText (mapF fr (dumpNetlist n))

/-- `Netlist(text)`: `read_yaml` then the tree reader; `none` = the text is outside the subset of the text model. -/
def loadText (fv : String → α) (stog : List (NRect α) → List (NRect α)) (εA : α) (s : List Char) :
    Option (Except Err (Netlist α)) :=
  match parseText s with
  | none => none
  | some t => some (parseNetlist stog εA (mapF fv t))

/-- ruamel writes a mapping key in the simple form `key:` only below 128 characters including the tag: module and
    region names of at most 122 characters. -/
def keyLenOK (s : String) : Bool := decide (s.length ≤ 122)

def Netlist.textOK (n : Netlist α) : Bool :=
  n.modules.all fun m => keyLenOK m.name && m.areaRegions.all fun p => keyLenOK p.1

end FV.NL

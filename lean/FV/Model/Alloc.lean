import FV.Model.Geom
/-
  Executable model of `frame/allocation/allocation.py` (class `Allocation`: constructor checks,
  `refine` / `_split_allocation`, `must_be_refined`, `uniform_refinement_depth`, `griddify`,
  `area`, `center`, `num_rectangles`, `num_modules`, `allocation_rectangle`, `allocation_module`, `check_compatible`,
  `max_refinement_depth`, `bounding_box`) and of `gather_boundaries` in `frame/geometry/geometry.py`.

  * Python `assert` / exceptions are `Except AErr`; list indexing is `Option`-valued.
  * The class-wide tolerances `Rectangle._distance_epsilon / _area_epsilon` are threaded explicitly
    (`Eps`); the literals `1e-12`, `0.01` and `math.sqrt` come from an environment `Env` so that the
    very same code runs at `Float` (bit-faithful) and at `Rat`, and is proved for every ordered field.
  * The model follows the code with the repairs of `fixes/C02_*.diff`, `fixes/C12_*.diff` applied
    (fixed cells are never split; the y-loop of `griddify` ranges over the y cuts; `must_be_refined`
    has the non-empty guard of `refine`; `griddify` repeats its two sweeps until nothing is cut any more).
  * Everything lives in `namespace FV.Alloc` (so that the model can be imported together with the YAML / netlist /
    die models, which have their own `validIdent`, `Eps`, `Cell`, …).
  * `_module2rect` (module ↦ [(cell index, ratio)]) is represented without indices: the entries of a
    module are the cells that list it, in cell order (`entries`); the dictionary order of
    `_areas/_centers` is first-appearance order (`modules`).
-/
namespace FV.Alloc

inductive AErr | assertion | zeroDiv | value | index | key | fuel
  deriving DecidableEq, Repr, Inhabited

def AErr.toStr : AErr → String
  | .assertion => "err:AssertionError" | .zeroDiv => "err:ZeroDivisionError" | .value => "err:ValueError"
  | .index => "err:IndexError" | .key => "err:KeyError" | .fuel => "err:Fuel"

/-- `map` with early exit (`for … : …` whose body may raise). -/
def mapE {β γ ε : Type} (f : β → Except ε γ) : List β → Except ε (List γ)
  | [] => .ok []
  | x :: xs =>
    match f x with
    | .error e => .error e
    | .ok y =>
      match mapE f xs with
      | .error e => .error e
      | .ok ys => .ok (y :: ys)

/-- `valid_identifier`: full match of `[A-Za-z_][A-Za-z0-9_]*`. -/
def isIdStart (c : Char) : Bool := c.isAlpha || c == '_'
def isIdChar (c : Char) : Bool := c.isAlphanum || c == '_'
def validIdent (s : String) : Bool :=
  match s.toList with
  | [] => false
  | c :: cs => isIdStart c && cs.all isIdChar

/-- `Alloc = dict[str, float]` in insertion order. -/
abbrev Alloc (α : Type) := List (String × α)

/-- `RectAlloc`. -/
structure Cell (α : Type) where
  rect : Rect α
  alloc : Alloc α
  depth : Nat
  deriving Repr, Inhabited

/-- first component of an allocation descriptor: a `Rectangle` object or a YAML vector. -/
inductive RawRect (α : Type) where
  | obj (r : Rect α)
  | vec (x y w h : α) (region : Option String)
  deriving Repr, Inhabited

/-- `AllocDescriptor` as accepted by the constructor. -/
structure RawCell (α : Type) where
  rect : RawRect α
  alloc : Alloc α
  depth : Int
  deriving Repr, Inhabited

/-- literals and library functions. -/
structure Env (α : Type) where
  tiny : α            -- `1e-12`
  rho : α             -- `0.01`
  sqrt : α → α        -- `math.sqrt`

/-- `Rectangle._distance_epsilon`, `Rectangle._area_epsilon` (both `-1.0` when undefined). -/
structure Eps (α : Type) where
  dist : α
  area : α
  deriving Repr, Inhabited

/-- the allocation object: cells + the caches `_areas/_centers` + `_bounding_box`. -/
structure Allocation (α : Type) where
  cells : List (Cell α)
  stats : List (String × α × α × α)     -- module ↦ (area, centre.x, centre.y), dictionary order
  bbox : Rect α
  deriving Repr, Inhabited

variable {α : Type} [Add α] [Sub α] [Mul α] [Div α] [Neg α] [LT α] [LE α]
  [DecidableLT α] [DecidableLE α] [NatCast α] [DecidableEq α]

@[inline] def one : α := ((1 : Nat) : α)

/-- `x == 0` on numbers (IEEE: true for `-0.0`, false for NaN). -/
@[inline] def isZero (x : α) : Bool := decide (x ≤ Rect.zero) && decide (Rect.zero ≤ x)

/-- `Rectangle.epsilon_defined()`. -/
@[inline] def Eps.defined (e : Eps α) : Bool := decide (Rect.zero ≤ e.dist)

/-! ### constructor -/

/-- `parse_yaml_rectangle` + `Rectangle(**kwargs)`. -/
def parseRect : RawRect α → Except AErr (Rect α)
  | .obj r => .ok r
  | .vec x y w h region =>
    if ¬ (Rect.zero ≤ x ∧ Rect.zero ≤ y ∧ Rect.zero ≤ w ∧ Rect.zero ≤ h) then .error .assertion
    else if (match region with | some s => !validIdent s | none => false) then .error .assertion
    else if ¬ (Rect.zero < w) then .error .assertion
    else if ¬ (Rect.zero < h) then .error .assertion
    else .ok { cx := x, cy := y, w := w, h := h, region := region.getD "_" }

/-- the asserts on one occupancy dictionary. -/
def allocOK (al : Alloc α) : Bool :=
  al.all (fun p => validIdent p.1 && decide (Rect.zero ≤ p.2) && decide (p.2 ≤ one)) &&
  decide (al.map Prod.fst).Nodup

/-- one iteration of `_parse_yaml_tree`. -/
def parseCell (rc : RawCell α) : Except AErr (Cell α) :=
  if rc.depth < 0 then .error .assertion else
  match parseRect rc.rect with
  | .error e => .error e
  | .ok r => if allocOK rc.alloc then .ok ⟨r, rc.alloc, rc.depth.toNat⟩ else .error .assertion

/-- `_calculate_bounding_box` (`math.inf` start: the first cell initialises the four extremes). -/
def boundingBox (cells : List (Cell α)) : Except AErr (Rect α) :=
  match cells with
  | [] => .error .assertion          -- width = -inf: `Rectangle(shape=…)` asserts `w > 0`
  | c :: cs =>
    let xmin := cs.foldl (fun m d => pyMin m d.rect.xmin) c.rect.xmin
    let xmax := cs.foldl (fun m d => pyMax m d.rect.xmax) c.rect.xmax
    let ymin := cs.foldl (fun m d => pyMin m d.rect.ymin) c.rect.ymin
    let ymax := cs.foldl (fun m d => pyMax m d.rect.ymax) c.rect.ymax
    if ¬ (Rect.zero ≤ xmin ∧ Rect.zero ≤ ymin) then .error .assertion else
    let width := xmax - xmin
    let height := ymax - ymin
    if ¬ (Rect.zero < width) then .error .assertion
    else if ¬ (Rect.zero < height) then .error .assertion
    else .ok { cx := xmin + width / Rect.two, cy := ymin + height / Rect.two, w := width, h := height }

/-- `_check_no_overlap`: all unordered pairs (`itertools.combinations`). -/
def noOverlapPairs (εA : α) : List (Cell α) → Bool
  | [] => true
  | c :: cs => cs.all (fun d => !(Rect.overlap εA c.rect d.rect)) && noOverlapPairs εA cs

/-- … including the `assert _area_epsilon >= 0` inside `area_epsilon()`, reached when a pair exists. -/
def checkNoOverlap (st : Eps α) (cells : List (Cell α)) : Bool :=
  if 2 ≤ cells.length ∧ ¬ (Rect.zero ≤ st.area) then false else noOverlapPairs st.area cells

/-- keys of `_module2rect` after reading the cells in order (dictionary insertion order). -/
def addKeys (acc : List String) (al : Alloc α) : List String :=
  al.foldl (fun acc p => if acc.contains p.1 then acc else acc ++ [p.1]) acc

def modules (cells : List (Cell α)) : List String :=
  cells.foldl (fun acc c => addKeys acc c.alloc) []

/-- `_module2rect[m]`: (rectangle of the cell, ratio) for every cell that lists `m`, in cell order. -/
def entries (m : String) (cells : List (Cell α)) : List (Rect α × α) :=
  cells.filterMap fun c => (c.alloc.lookup m).map fun occ => (c.rect, occ)

/-- inner loop of `_calculate_areas_and_centers`: running `(total_area, center.x, center.y)`. -/
def modStats (es : List (Rect α × α)) : α × α × α :=
  es.foldl (fun acc e =>
    let ratio := e.2 * e.1.area
    (acc.1 + ratio, acc.2.1 + e.1.cx * ratio, acc.2.2 + e.1.cy * ratio)) (Rect.zero, Rect.zero, Rect.zero)

/-- one module of `_calculate_areas_and_centers` (`center / total_area` raises on zero). -/
def statOf (cells : List (Cell α)) (m : String) : Except AErr (String × α × α × α) :=
  let s := modStats (entries m cells)
  if isZero s.1 then .error .zeroDiv else .ok (m, s.1, s.2.1 / s.1, s.2.2 / s.1)

def areasCenters (cells : List (Cell α)) : Except AErr (List (String × α × α × α)) :=
  mapE (statOf cells) (modules cells)

/-- `Allocation.__init__` on a YAML tree / list of descriptors; returns the object and the
    (possibly newly defined) class-wide tolerances. -/
def mkAllocation (env : Env α) (st : Eps α) (raw : List (RawCell α)) : Except AErr (Allocation α × Eps α) :=
  match mapE parseCell raw with
  | .error e => .error e
  | .ok cells =>
    match boundingBox cells with
    | .error e => .error e
    | .ok bb =>
      let st' : Eps α := if st.defined then st else
        let d := env.tiny * pyMin bb.w bb.h
        ⟨d, env.sqrt d⟩
      if !(checkNoOverlap st' cells) then .error .assertion else
      match areasCenters cells with
      | .error e => .error e
      | .ok stats => .ok (⟨cells, stats, bb⟩, st')

/-- `(a.rect, a.alloc, a.depth)`. -/
def Cell.toRaw (c : Cell α) : RawCell α := ⟨.obj c.rect, c.alloc, (c.depth : Int)⟩

/-! ### accessors -/

/-- `area(m)` for a module name (`KeyError` = `none`). -/
def Allocation.areaOf (a : Allocation α) (m : String) : Option α := (a.stats.lookup m).map (·.1)

/-- `center(m)` for a module name. -/
def Allocation.centerOf (a : Allocation α) (m : String) : Option (α × α) := (a.stats.lookup m).map (·.2)

/-- `num_rectangles`. -/
def Allocation.numRectangles (a : Allocation α) : Nat := a.cells.length

/-- `num_modules` = `len(self._module2rect)`: the number of distinct module names listed by the cells. -/
def Allocation.numModules (a : Allocation α) : Nat := (modules a.cells).length

/-- `allocation_rectangle(i)`: `assert i < self.num_rectangles; return self._allocations[i]` — Python list indexing, so a
    negative `i` counts from the end (`-1` is the last cell) and `i < -n` raises `IndexError`. -/
def Allocation.allocationRectangle (a : Allocation α) (i : Int) : Except AErr (Cell α) :=
  let n : Int := a.cells.length
  if ¬ (i < n) then .error .assertion
  else if i < -n then .error .index
  else
    match a.cells[(if i < 0 then n + i else i).toNat]? with
    | some c => .ok c
    | none => .error .index

/-- `_module2rect[m]` with the rectangle indices (`ModuleAlloc(rect_index, area_ratio)`), in cell order. -/
def moduleAllocs (m : String) (cells : List (Cell α)) : List (Nat × α) :=
  cells.zipIdx.filterMap fun (c, i) => (c.alloc.lookup m).map fun occ => (i, occ)

/-- `allocation_module(m)` (`KeyError` for a name no cell lists). -/
def Allocation.allocationModule (a : Allocation α) (m : String) : Except AErr (List (Nat × α)) :=
  if (modules a.cells).contains m then .ok (moduleAllocs m a.cells) else .error .key

/-- `check_compatible(netlist)`: the SET of module names of the netlist equals the set of names listed by the cells
    (`names` = the netlist's module names, in any order, repetitions allowed). -/
def Allocation.checkCompatible (a : Allocation α) (names : List String) : Bool :=
  names.all (fun n => (modules a.cells).contains n) && (modules a.cells).all (fun m => names.contains m)

@[inline] def pyAbs (x : α) : α := if x < Rect.zero then -x else x

/-- CPython ≥ 3.12 `sum()` over floats: Neumaier compensated summation. -/
def pySumLoop : List α → α → α → α × α
  | [], f, c => (f, c)
  | x :: xs, f, c =>
    let t := f + x
    let c' := if pyAbs x ≤ pyAbs f then c + ((f - t) + x) else c + ((x - t) + f)
    pySumLoop xs t c'

def pySum (l : List α) : α :=
  let (f, c) := pySumLoop l Rect.zero Rect.zero
  -- `if (c && isfinite(c)) f_result += c`
  if !(isZero c) && isZero (c - c) then f + c else f

/-- `area([m…])`. -/
def Allocation.areaList (a : Allocation α) (ms : List String) : Except AErr α :=
  match mapE (fun m => match a.areaOf m with | some x => .ok x | none => (.error .key : Except AErr α)) ms with
  | .error e => .error e
  | .ok xs => .ok (pySum xs)

/-- `center([m…])`. -/
def Allocation.centerList (a : Allocation α) (ms : List String) : Except AErr (α × α) :=
  match mapE (fun m => match a.stats.lookup m with
      | some s => .ok s | none => (.error .key : Except AErr (α × α × α))) ms with
  | .error e => .error e
  | .ok ss =>
    let c := ss.foldl (fun (acc : α × α) s => (acc.1 + s.2.1 * s.1, acc.2 + s.2.2 * s.1)) (Rect.zero, Rect.zero)
    let tot := pySum (ss.map (·.1))
    if isZero tot then .error .zeroDiv else .ok (c.1 / tot, c.2 / tot)

/-! ### threshold refinement -/

/-- `_split_allocation`: `2^levels` descriptors obtained by repeatedly halving the longer side. -/
def splitAllocation (r : Rect α) (al : Alloc α) (depth : Nat) : Nat → Except AErr (List (Cell α))
  | 0 => .ok [⟨r, al, depth⟩]
  | l + 1 =>
    match r.split with
    | none => .error .assertion
    | some (r1, r2) =>
      match splitAllocation r1 al (depth + 1) l with
      | .error e => .error e
      | .ok a =>
        match splitAllocation r2 al (depth + 1) l with
        | .error e => .error e
        | .ok b => .ok (a ++ b)

/-- the split condition of `refine` (repaired: cells of fixed modules are not refinable). -/
def splitCond (t : α) (c : Cell α) : Bool :=
  !c.rect.fixed && !c.alloc.isEmpty && c.alloc.all (fun p => decide (p.2 ≤ t))

/-- the new descriptor list of `refine`. -/
def refineCells (t : α) (levels : Nat) (cells : List (Cell α)) : Except AErr (List (Cell α)) :=
  match mapE (fun c => splitAllocation c.rect c.alloc c.depth (if splitCond t c then levels else 0)) cells with
  | .error e => .error e
  | .ok parts => .ok parts.flatten

/-- `refine(threshold, levels)`. -/
def refine (env : Env α) (st : Eps α) (a : Allocation α) (t : α) (levels : Nat) :
    Except AErr (Allocation α × Eps α) :=
  if levels = 0 then .error .assertion else
  match refineCells t levels a.cells with
  | .error e => .error e
  | .ok cells => mkAllocation env st (cells.map Cell.toRaw)

/-- `must_be_refined(threshold)` (repaired: same condition as `refine`). -/
def mustBeRefined (a : Allocation α) (t : α) : Bool := a.cells.any (splitCond t)

/-! ### uniform depth -/

def maxDepth (cells : List (Cell α)) : Nat := cells.foldl (fun m c => max m c.depth) 0
def minDepth : List (Cell α) → Nat
  | [] => 0
  | c :: cs => cs.foldl (fun m d => min m d.depth) c.depth

/-- `max_refinement_depth()` (`max()` of an empty sequence raises `ValueError`). -/
def Allocation.maxRefinementDepth (a : Allocation α) : Except AErr Nat :=
  match a.cells with
  | [] => .error .value
  | _ => .ok (maxDepth a.cells)

def uniformCells (cells : List (Cell α)) : Except AErr (List (Cell α)) :=
  let mx := maxDepth cells
  match mapE (fun c => splitAllocation c.rect c.alloc c.depth (if c.rect.fixed then 0 else mx - c.depth)) cells with
  | .error e => .error e
  | .ok parts => .ok parts.flatten

/-- `uniform_refinement_depth()` (repaired: fixed cells keep their depth). -/
def uniform (env : Env α) (st : Eps α) (a : Allocation α) : Except AErr (Allocation α × Eps α) :=
  match a.cells with
  | [] => .error .value                           -- `max()` of an empty sequence
  | _ =>
    if maxDepth a.cells = minDepth a.cells then .ok (a, st) else
    match uniformCells a.cells with
    | .error e => .error e
    | .ok cells => mkAllocation env st (cells.map Cell.toRaw)

/-! ### gridding -/

def insertSorted (x : α) : List α → List α
  | [] => [x]
  | y :: ys => if y < x then y :: insertSorted x ys else x :: y :: ys

/-- `list.sort()` (stable insertion sort; any stable sort gives the same list). -/
def sortAsc (l : List α) : List α := l.foldr insertSorted []

/-- the "remove duplicates" loop of `gather_boundaries` (accumulator kept reversed). -/
def uniqEpsRev (ε : α) : List α → List α → List α
  | [], acc => acc
  | v :: vs, [] => uniqEpsRev ε vs [v]
  | v :: vs, last :: acc => if last + ε < v then uniqEpsRev ε vs (v :: last :: acc) else uniqEpsRev ε vs (last :: acc)

def uniqEps (ε : α) (l : List α) : List α := (uniqEpsRev ε l []).reverse

/-- `gather_boundaries(rectangles)`; needs the distance tolerance to be defined. -/
def gatherBoundaries (st : Eps α) (rs : List (Rect α)) : Except AErr (List α × List α) :=
  if !st.defined then .error .assertion else
  let xs := sortAsc (rs.flatMap fun r => [r.xmin, r.xmax])
  let ys := sortAsc (rs.flatMap fun r => [r.ymin, r.ymax])
  .ok (uniqEps st.dist xs, uniqEps st.dist ys)

/-- body of the inner loop of the x pass for one dequeued element. -/
def cutX (ρ x : α) (c : Cell α) : Except AErr (List (Cell α)) :=
  if !c.rect.fixed && c.rect.xCuttable x ρ then
    match c.rect.splitH x with
    | none => .error .assertion
    | some (r1, r2) => .ok [⟨r1, c.alloc, c.depth + 1⟩, ⟨r2, c.alloc, c.depth + 1⟩]
  else .ok [c]

def cutY (ρ y : α) (c : Cell α) : Except AErr (List (Cell α)) :=
  if !c.rect.fixed && c.rect.yCuttable y ρ then
    match c.rect.splitV y with
    | none => .error .assertion
    | some (r1, r2) => .ok [⟨r1, c.alloc, c.depth + 1⟩, ⟨r2, c.alloc, c.depth + 1⟩]
  else .ok [c]

/-- one sweep over the deque (`n` pops, results appended at the back = `flatMap` in order). -/
def pass (cut : Cell α → Except AErr (List (Cell α))) (q : List (Cell α)) : Except AErr (List (Cell α)) :=
  match mapE cut q with
  | .error e => .error e
  | .ok parts => .ok parts.flatten

/-- `for i in idxs: … cuts[i] …` with `Option`-valued indexing. -/
def cutsLoop (cut : α → Cell α → Except AErr (List (Cell α))) (cuts : List α) :
    List Nat → List (Cell α) → Except AErr (List (Cell α))
  | [], q => .ok q
  | i :: is, q =>
    match cuts[i]? with
    | none => .error .index
    | some x =>
      match pass (cut x) q with
      | .error e => .error e
      | .ok q' => cutsLoop cut cuts is q'

/-- the deque after one round of both loops of `griddify` (repaired: the y loop ranges over `y_cuts`). -/
def griddifyCells (ρ : α) (xs ys : List α) (cells : List (Cell α)) : Except AErr (List (Cell α)) :=
  match cutsLoop (cutX ρ) xs (List.range' 1 (xs.length - 2)) cells with
  | .error e => .error e
  | .ok q => cutsLoop (cutY ρ) ys (List.range' 1 (ys.length - 2)) q

/-- the body of `griddify` after `fixes/C12_griddify_x_before_y.diff`:

        while True:
            n_rects = len(new_allocs)
            <x loop>; <y loop>                      # = `griddifyCells`, one round
            if len(new_allocs) == n_rects: break

    `fuel` bounds the number of rounds; it is a device of the model only: with `gridFuel` it is never exhausted
    (`griddifyRounds_ok` in `FV/Proofs/Alloc.lean`), and the driver reports `err:Fuel` (which no Python exception matches)
    if it ever were. -/
def griddifyRounds (ρ : α) (xs ys : List α) : Nat → List (Cell α) → Except AErr (List (Cell α))
  | 0, _ => .error .fuel
  | fuel + 1, q =>
    match griddifyCells ρ xs ys q with
    | .error e => .error e
    | .ok q' => if q'.length = q.length then .ok q' else griddifyRounds ρ xs ys fuel q'

/-- a bound on the number of rounds: every round but the last adds a rectangle, and a rectangle list obtained by cutting
    along the lines `xs` / `ys` never has more than `(|xs| + 1)·(|ys| + 1)` pieces per original cell. -/
def gridFuel (xs ys : List α) (cells : List (Cell α)) : Nat :=
  cells.length * ((xs.length + 1) * (ys.length + 1)) + 1

/-- `griddify()` (repaired: the two sweeps are repeated until no rectangle is cut any more; the cut lines are gathered
    once, from the original cells). -/
def griddify (env : Env α) (st : Eps α) (a : Allocation α) : Except AErr (Allocation α × Eps α) :=
  match gatherBoundaries st (a.cells.map (·.rect)) with
  | .error e => .error e
  | .ok (xs, ys) =>
    match griddifyRounds env.rho xs ys (gridFuel xs ys a.cells) a.cells with
    | .error e => .error e
    | .ok q => mkAllocation env st (q.map Cell.toRaw)

/-- `griddify()` as it was before `fixes/C12_griddify_x_before_y.diff` (one round of the two sweeps); kept to state what
    the unrepaired code guaranteed and to witness the defect (`FV/Props/C12.lean`). -/
def griddifyOnce (env : Env α) (st : Eps α) (a : Allocation α) : Except AErr (Allocation α × Eps α) :=
  match gatherBoundaries st (a.cells.map (·.rect)) with
  | .error e => .error e
  | .ok (xs, ys) =>
    match griddifyCells env.rho xs ys a.cells with
    | .error e => .error e
    | .ok q => mkAllocation env st (q.map Cell.toRaw)

/-! ### operation histories -/

inductive Op (α : Type) where
  | refine (t : α) (levels : Nat)
  | uniform
  | griddify
  deriving Repr, Inhabited

def applyOp (env : Env α) (st : Eps α) (a : Allocation α) : Op α → Except AErr (Allocation α × Eps α)
  | .refine t l => refine env st a t l
  | .uniform => uniform env st a
  | .griddify => griddify env st a

def applyOps (env : Env α) : List (Op α) → Eps α → Allocation α → Except AErr (Allocation α × Eps α)
  | [], st, a => .ok (a, st)
  | op :: ops, st, a =>
    match applyOp env st a op with
    | .error e => .error e
    | .ok (a', st') => applyOps env ops st' a'

/-- `a.allocations[i].rect.fixed = True` (what `_detect_fixed_rectangles` does to the cells it recognises). -/
def Allocation.markFixed (a : Allocation α) (idxs : List Nat) : Allocation α :=
  { a with cells := a.cells.zipIdx.map fun (c, i) =>
      if idxs.contains i then { c with rect := { c.rect with fixed := true } } else c }

/-- one step of a history on an `Allocation` object: a refinement operation (the object is replaced by the result), or
    cells flagged fixed IN PLACE (`a.allocations[i].rect.fixed = True`, as `_detect_fixed_rectangles` and the repository's
    tests do) — the object stays the same. -/
inductive HStep (α : Type) where
  | op (o : Op α)
  | fix (idxs : List Nat)
  deriving Repr, Inhabited

def applyHist (env : Env α) : List (HStep α) → Eps α → Allocation α → Except AErr (Allocation α × Eps α)
  | [], st, a => .ok (a, st)
  | .op o :: rest, st, a =>
    match applyOp env st a o with
    | .error e => .error e
    | .ok (a', st') => applyHist env rest st' a'
  | .fix idxs :: rest, st, a => applyHist env rest st (a.markFixed idxs)

end FV.Alloc

import FV.Proofs.History
/-
  The SAT layer as a PROCESS (property C20, second piece of surviving state).

  `tools/rect/pseudobool.py` keeps the ROBDD node store in two module globals (`memory`, `mmap`); every
  `SATManager` of the interpreter appends to it through `Ineq.getrobdd` (called by `pseudoboolencoding`).  The C07
  model threads the store through ONE manager's operations (`Mgr.post m S p`).  Here the whole interpreter is modelled:
  any number of managers alive at the same time, operations of different managers arbitrarily interleaved, one store.

      w.mgrs   the `SATManager` objects of the process (creating one touches no global: a manager that has not been
               used yet is the empty manager `{}`, so all of them exist from the start)
      w.store  pseudobool.memory / pseudobool.mmap

  An operation that raises (a refused constraint, `solve()` on an unregistered literal, an index that names no manager)
  leaves the process unchanged — `Mgr.post` / `Mgr.solve` return the new state only on success, as the Python does
  (`getrobdd` raises "Not implemented yet." before touching the store; `heuleencoding` checks `k` first).

  Executable, Mathlib-free (driver `drv_global`, op `satproc`).
-/
namespace FV.Proc
open FV.PB FV.Sat

structure SatProc where
  mgrs : List Mgr
  store : Store Var

/-- a fresh interpreter in which `n` managers will be used -/
def SatProc.init (n : Nat) : SatProc := ⟨List.replicate n {}, Store.init⟩

inductive SatOp where
  | newvar (i : Nat) (v : Var)                    -- mgrs[i].newvar(name, pre)
  | post (i : Nat) (p : Post)                     -- any posting method of mgrs[i]
  | solve (i : Nat) (ans : Option (List Int))     -- mgrs[i].solve() with what the SAT solver answered

/-- one operation; the Boolean says whether it returned normally -/
def SatProc.step (w : SatProc) : SatOp → SatProc × Bool
  | .newvar i v =>
    match w.mgrs[i]? with
    | some m => ({ w with mgrs := w.mgrs.set i (m.newvar v) }, true)
    | none => (w, false)
  | .post i p =>
    match w.mgrs[i]? with
    | some m =>
      match m.post w.store p with
      | .ok (m', S') => (⟨w.mgrs.set i m', S'⟩, true)
      | .error _ => (w, false)
    | none => (w, false)
  | .solve i ans =>
    match w.mgrs[i]? with
    | some m =>
      match m.solve ans with
      | .ok (_, m') => ({ w with mgrs := w.mgrs.set i m' }, true)
      | .error _ => (w, false)
    | none => (w, false)

def SatProc.run (w : SatProc) (ops : List SatOp) : SatProc := ops.foldl (fun w op => (w.step op).1) w

/-- the verdicts of a run, in order -/
def SatProc.verdicts : SatProc → List SatOp → List Bool
  | _, [] => []
  | w, op :: r => (w.step op).2 :: SatProc.verdicts (w.step op).1 r

/-- whether a constraint is one the SAT layer encodes at all — a property of the constraint alone: a chain width below
    3 is refused, and so is an inequality that is neither a clause nor a tautology and whose normalised operator is
    not `>=` -/
def acceptable : Post → Bool
  | .amoH k _ => decide (3 ≤ k)
  | .pb q _ => match q.isClause with
      | .no => decide (q.op = .ge)
      | _ => true
  | _ => true

/-- the constraints manager `i` was handed and that are encodable, in order: a function of the operation list alone -/
def ownPosts (i : Nat) : List SatOp → List Post
  | [] => []
  | .post j p :: r => if j = i ∧ acceptable p = true then p :: ownPosts i r else ownPosts i r
  | _ :: r => ownPosts i r

def SatOp.WF : SatOp → Prop
  | .post _ p => p.WF
  | _ => True

end FV.Proc

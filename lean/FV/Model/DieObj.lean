import FV.Model.Die
import FV.Model.SplitRects
/-
  The `Die` OBJECT after construction (frame/die/die.py:80-158): its read-only properties and the three methods that
  refine / report the refinable regions, on the value `DieOut` the constructor model (`FV/Model/Die.lean`) returns.

      bounding_box, width, height, ground_regions, specialized_regions, blockages, fixed_regions     (properties)
      split_refinable_regions(aspect_ratio, n)      initial_grid(nrows, ncols)      floorplanning_rectangles()

  The method bodies are those of `FV/Model/SplitRects.lean` (`splitRefinableRegions`, `initialGrid`,
  `floorplanningRectangles` on the record `DieSt`); this file ties that record to the constructed object and models a
  SESSION: a sequence of method calls on one object.  In the Python every method either returns normally or raises BEFORE it
  assigns to `self._ground_regions` / `self._specialized_regions` (the asserts come first, `split_rectangles` is called before
  the assignment), so an exception leaves the object exactly as it was and the session goes on.

  No Mathlib import here: this file is compiled into the driver.
-/
namespace FV.DieObj
open FV FV.Rect FV.Die FV.SplitRects

variable {α : Type} [Add α] [Sub α] [Mul α] [Div α] [Neg α] [LT α] [LE α]
  [DecidableLT α] [DecidableLE α] [NatCast α] [DecidableEq α]

/-- `Die.bounding_box` (`self._die`, built by `parse_yaml_die`: centre `(w/2, h/2)`, ground tag, not fixed). -/
def boundingBox (o : DieOut α) : Rect α := dieRect o.W o.H

/-- the attributes the methods read and write. -/
def toSt (o : DieOut α) : DieSt α :=
  { die := boundingBox o, specialized := o.specialized, ground := o.ground, blockages := o.blockages, fixed := o.fixed }

/-- write the attributes back (`width`/`height` are read from `self._die`, which no method assigns). -/
def withSt (o : DieOut α) (s : DieSt α) : DieOut α :=
  { o with specialized := s.specialized, ground := s.ground, blockages := s.blockages, fixed := s.fixed }

/-- `die.floorplanning_rectangles()`. -/
def fpRects (o : DieOut α) : List (Rect α) × List (Rect α) := floorplanningRectangles (toSt o)

/-- `die.split_refinable_regions(ratio, n)`. -/
def split (fuel : Nat) (o : DieOut α) (ratio : α) (n : Nat) : Except SplitRects.Err (DieOut α) :=
  match splitRefinableRegions fuel (toSt o) ratio n with
  | .error e => .error e
  | .ok s => .ok (withSt o s)

/-- `die.initial_grid(nrows, ncols)`. -/
def grid (o : DieOut α) (nrows ncols : Nat) : Except SplitRects.Err (DieOut α) :=
  match initialGrid (toSt o) nrows ncols with
  | .error e => .error e
  | .ok s => .ok (withSt o s)

/-- one method call of a session. -/
inductive Call (α : Type) where
  | split (ratio : α) (n : Nat)
  | grid (nrows ncols : Nat)
  deriving Inhabited

/-- perform one call: the object afterwards and the exception, if any (the object is unchanged then).
    `fuelOf rects ratio n` = the fuel handed to the `while` loops of `split_rectangles` (see `fuelQ`). -/
def step (fuelOf : List (Rect α) → α → Nat → Nat) (o : DieOut α) : Call α → DieOut α × Option SplitRects.Err
  | .split ratio n =>
    match split (fuelOf (fpRects o).1 ratio n) o ratio n with | .ok o' => (o', none) | .error e => (o, some e)
  | .grid nr nc => match grid o nr nc with | .ok o' => (o', none) | .error e => (o, some e)

/-- a session: the final object, and the object / exception after each call, in call order. -/
def run (fuelOf : List (Rect α) → α → Nat → Nat) :
    DieOut α → List (Call α) → DieOut α × List (DieOut α × Option SplitRects.Err)
  | o, [] => (o, [])
  | o, c :: cs =>
    let r := step fuelOf o c
    let rest := run fuelOf r.1 cs
    (rest.1, r :: rest.2)

/-! ### a fuel that provably suffices at `Rat` (the exact stream of the driver)

`FV.C11.split_terminates` needs `K` with `aspect ≤ ratio · 2^K` for every input.  At `Rat` such a `K` is computable:
`aspect = p/q ≤ p < 2^(log2 p + 1)` and `ratio > 1`. -/

/-- `K` for one rectangle. -/
def levelQ (r : Rect Rat) : Nat := r.aspectRatio.num.natAbs.log2 + 1

/-- `K` for a list. -/
def levelsQ (rs : List (Rect Rat)) : Nat := rs.foldl (fun k r => max k (levelQ r)) 0

/-- the fuel of `FV.C11.split_terminates`, computed from the arguments. -/
def fuelQ (rs : List (Rect Rat)) (_ratio : Rat) (n : Nat) : Nat :=
  rs.length * (2 ^ (levelsQ rs + 1) - 1) + n + 8

/-- `split_rectangles` at `Rat` without a fuel argument. -/
def splitRectanglesQ (rs : List (Rect Rat)) (ratio : Rat) (n : Nat) : Except SplitRects.Err (List (Rect Rat)) :=
  splitRectangles (fuelQ rs ratio n) rs ratio n

/-- `die.split_refinable_regions(ratio, n)` at `Rat` without a fuel argument. -/
def splitQ (o : DieOut Rat) (ratio : Rat) (n : Nat) : Except SplitRects.Err (DieOut Rat) :=
  split (fuelQ (fpRects o).1 ratio n) o ratio n

end FV.DieObj

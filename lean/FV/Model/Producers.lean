import FV.Model.Yaml
import FV.Model.Netlist
/-
  Executable tree-level models of the document PRODUCERS of FRAME (property C19) and of the die / allocation readers.

    frame/die/die.py                       Die.write_yaml              → `writeDie`
    frame/die/yaml_parse_die.py            parse_yaml_die, parse_die_rectangle (+ the blockage split of Die.__init__) → `readDie`
    frame/allocation/allocation.py         Allocation.write_yaml       → `writeAlloc`;  _parse_yaml_tree → `readAlloc`
                                           (REPAIRED: the `fixed` mark of a cell is written and read back,
                                           fixes/C19_alloc_fixed_mark.diff; the code as found: `writeAllocOrig`, `readAllocOrig`)
    frame/geometry/geometry.py             Rectangle.vector_spec       → `VRect.toY`
    tools/netgen/netgen.py                 module_name, gen_modules (with `--add-centers`), gen_grid/chain/ring/one_net/star/
                                           ring_star/htree(_rec) on ANY Python int (`genRingStarI`, `genHtreeI`,
                                           `genGridCentredI`), and `main` after argparse (`netgenMain`)
    frame/netlist/yaml_write_netlist.py    dump_yaml_namededges        → `dumpNamedEdgesOrig` (the code as found: aliasing)
                                                                        and `dumpNamedEdges` (REPAIRED, fixes/C19_namededges_alias.diff)
    tools/floorset_parser/…/manager.py     _parse_modules, _parse_connections, write_yaml_FPEF / DIEF (REPAIRED pin placement,
                                           fixes/C19_floorset_terminal_xy.diff); compute_centroid of …/utils/utils.py;
                                           from the raw arrays: the asserts of `__init__`, kinds from the placement
                                           constraints, `alpha` from density / `weight_sum` / `compute_perimeter`
                                           (`fsOfRaw`, `convertRaw`)
    tools/rect/rect_io.py                  get_netlist (REPAIRED zero-ratio cells), solution_to_netlist (REPAIRED: weights,
                                           terminals, per-region areas; fixes/C19_rect_io_emitters.diff; its
                                           `raise Exception` for a never-placed module: `solutionToNetlist`)
    tools/legalfloor/legalfloor.py         Model.get_netlist (REPAIRED: weights; fixes/C19_legalfloor_weights.diff)

  A document is the tree (`YVal`) that its text denotes; the text layer (ruamel dump / load, `str(float)`) is not modelled.
  Writers are functions `obj → (tree, obj')`: the second component is the object as the call leaves it.  Python `dict`s are
  insertion ordered association lists; inserting an existing key overwrites in place (`dictInsert`).
  Numbers keep their Python type tag (`Num`: bool / int / float).
  The netlist READER is the model of C04/C05 (`FV.NL.parseNetlist`), imported, not redefined.
-/
namespace FV.Prod
open FV FV.NL

variable {α : Type}

/-! ### Python `dict` as an insertion-ordered association list -/

abbrev Dict (α : Type) := List (String × YVal α)

/-- `d[k] = v`. -/
def dictInsert (k : String) (v : YVal α) : Dict α → Dict α
  | [] => [(k, v)]
  | (k', v') :: r => if k' = k then (k, v) :: r else (k', v') :: dictInsert k v r

/-- `d.update(m)` / a `dict` comprehension run over `m`. -/
def dictUpdate (d : Dict α) (m : List (String × YVal α)) : Dict α :=
  m.foldl (fun acc kv => dictInsert kv.1 kv.2 acc) d

def dictOfList (m : List (String × YVal α)) : Dict α := dictUpdate [] m

def Dict.toY (d : Dict α) : YVal α := .map (d.map fun kv => (.str kv.1, kv.2))

/-! ### `Rectangle.vector_spec` -/

/-- `[center.x, center.y, shape.w, shape.h, region]` -/
structure VRect (α : Type) where
  cx : Num α
  cy : Num α
  w : Num α
  h : Num α
  region : String
  deriving Inhabited

def VRect.toY (r : VRect α) : YVal α :=
  .seq [YVal.ofNum r.cx, YVal.ofNum r.cy, YVal.ofNum r.w, YVal.ofNum r.h, .str r.region]

/-! ### the die document -/

/-- the part of a `Die` its document carries. -/
structure DieObj (α : Type) where
  width : Num α
  height : Num α
  blockages : List (VRect α)
  specialised : List (VRect α)
  deriving Inhabited

/-- `Die.write_yaml`: `regions` = blockages then specialised regions, key omitted when empty. -/
def writeDie (d : DieObj α) : YVal α × DieObj α :=
  let regions := (d.blockages ++ d.specialised).map VRect.toY
  let data : List (YVal α × YVal α) :=
    [(.str "width", YVal.ofNum d.width), (.str "height", YVal.ofNum d.height)]
    ++ (if regions.isEmpty then [] else [(.str "regions", .seq regions)])
  (.map data, d)

/-! #### the die writer over a store of Python list objects

  `Die.write_yaml` reads `self.blockages + self.specialized_regions`: `+` on lists builds a NEW list object.  To make
  "the writer does not alter the die" a statement with content, the two region lists live in a store of list objects and
  the writer is a program on that store; the in-place variant (`rectangles = self.blockages; rectangles += …`) is a
  different program (`writeDieAliasedS`) that does alter the die. -/

/-- a store of Python `list` objects, addressed by position. -/
structure Store (β : Type) where
  cells : List (List β)
  deriving Inhabited

def Store.get {β : Type} (s : Store β) (a : Nat) : List β := s.cells.getD a []

/-- a new list object. -/
def Store.alloc {β : Type} (s : Store β) (l : List β) : Store β × Nat := ({ cells := s.cells ++ [l] }, s.cells.length)

/-- `x + y` on lists: a new object holding the concatenation. -/
def pyListAdd {β : Type} (s : Store β) (x y : Nat) : Store β × Nat := s.alloc (s.get x ++ s.get y)

/-- `x += y` on lists: `x` itself is extended (and stays the value of the variable). -/
def pyListIAdd {β : Type} (s : Store β) (x y : Nat) : Store β × Nat :=
  ({ cells := s.cells.set x (s.get x ++ s.get y) }, x)

/-- a `Die` whose two region lists are objects of the store. -/
structure DieRef (α : Type) where
  width : Num α
  height : Num α
  blockages : Nat
  specialised : Nat

def DieRef.deref (s : Store (VRect α)) (d : DieRef α) : DieObj α :=
  { width := d.width, height := d.height, blockages := s.get d.blockages, specialised := s.get d.specialised }

def dieTree (width height : Num α) (rects : List (VRect α)) : YVal α :=
  .map ([(.str "width", YVal.ofNum width), (.str "height", YVal.ofNum height)]
    ++ (if (rects.map VRect.toY).isEmpty then [] else [(.str "regions", .seq (rects.map VRect.toY))]))

/-- `Die.write_yaml` as a program on the store: `for r in self.blockages + self.specialized_regions`. -/
def writeDieS (s : Store (VRect α)) (d : DieRef α) : YVal α × Store (VRect α) :=
  let r := pyListAdd s d.blockages d.specialised
  (dieTree d.width d.height (r.1.get r.2), r.1)

/-- the variant `rectangles = self.blockages; rectangles += self.specialized_regions` (NOT the code; kept to show that
    the store model tells the two apart). -/
def writeDieAliasedS (s : Store (VRect α)) (d : DieRef α) : YVal α × Store (VRect α) :=
  let r := pyListIAdd s d.blockages d.specialised
  (dieTree d.width d.height (r.1.get r.2), r.1)

inductive DErr | root | key | dup | missing | size | regions | rect
  deriving DecidableEq, Repr, Inhabited

section ordered
variable [Add α] [Sub α] [Mul α] [Div α] [Neg α] [LT α] [LE α]
  [DecidableLT α] [DecidableLE α] [NatCast α] [DecidableEq α]

/-- `parse_die_rectangle` followed by the validation of `Rectangle.__init__`. -/
def parseDieRect (r : YVal α) : Except DErr (VRect α) :=
  match r with
  | .seq [a, b, c, d, e] =>
    match a.num?, b.num?, c.num?, d.num? with
    | some x, some y, some w, some h =>
      if (zero : α) ≤ x.val ∧ (zero : α) ≤ y.val ∧ (zero : α) ≤ w.val ∧ (zero : α) ≤ h.val then
        match e.str? with
        | some s =>
          if (validIdent s || s = "_" || s = "#") && s ≠ "_" then
            if (zero : α) < w.val ∧ (zero : α) < h.val ∧ (validIdent s || s = "#") then
              .ok { cx := x, cy := y, w := w, h := h, region := s }
            else .error .rect
          else .error .rect
        | none => .error .rect
      else .error .rect
    | _, _, _, _ => .error .rect
  | _ => .error .rect

def dmapE {β γ : Type} (f : β → Except DErr γ) : List β → Except DErr (List γ)
  | [] => .ok []
  | x :: xs =>
    match f x with
    | .error e => .error e
    | .ok y => match dmapE f xs with | .error e => .error e | .ok ys => .ok (y :: ys)

/-- keys allowed at the root of a die document. -/
def dieKey (v : YVal α) : Option String :=
  match v.str? with
  | some s => if s = "width" ∨ s = "height" ∨ s = "regions" then some s else none
  | none => none

def lookup (k : String) : List (String × YVal α) → Option (YVal α)
  | [] => none
  | (k', v) :: r => if k' = k then some v else lookup k r

/-- `parse_yaml_die` on a tree, then the split into blockages / specialised regions of `Die.__init__`. -/
def readDie (t : YVal α) : Except DErr (DieObj α) :=
  match t with
  | .map l =>
    match l.mapM (fun kv => (dieKey kv.1).map fun k => (k, kv.2)) with
    | none => .error .key
    | some kvs =>
      if !nodupB (kvs.map (·.1)) then .error .dup else
      match lookup "width" kvs, lookup "height" kvs with
      | some wv, some hv =>
        match wv.num?, hv.num? with
        | some w, some h =>
          if (zero : α) < w.val ∧ (zero : α) < h.val then
            match lookup "regions" kvs with
            | none => .ok { width := w, height := h, blockages := [], specialised := [] }
            | some rv =>
              match rv with
              | .seq (x :: xs) =>
                match dmapE parseDieRect (if x.isNumber then [rv] else x :: xs) with
                | .error e => .error e
                | .ok regs =>
                  .ok { width := w, height := h,
                        blockages := regs.filter (fun r => r.region = "#"),
                        specialised := regs.filter (fun r => r.region ≠ "#") }
              | _ => .error .regions
          else .error .size
        | _, _ => .error .size
      | _, _ => .error .missing
  | _ => .error .root

end ordered

/-! ### the allocation document -/

/-- one entry of `Allocation.allocations`: rectangle, ratio map, refinement depth and the `fixed` mark of the rectangle
    (`rect.fixed`: set by `_detect_fixed_rectangles` / inherited from the die's fixed regions; `refine`,
    `must_be_refined`, `uniform_refinement_depth` and `griddify` skip marked cells).
    REPAIRED (fixes/C19_alloc_fixed_mark.diff): the mark is part of the document — the code as found wrote
    `[rect, alloc, depth?]` only and read every cell back unmarked (`Cell.toYOrig`). -/
structure Cell (α : Type) where
  rect : VRect α
  alloc : List (String × Num α)
  depth : Nat
  fixed : Bool := false
  deriving Inhabited

/-- `KW_FIXED` -/
def kwFixed : String := "fixed"

/-- one descriptor of `Allocation.write_yaml` (REPAIRED): `[rect, alloc]`, then the depth when the cell is refined or
    fixed, then the mark `fixed` when the rectangle is fixed. -/
def Cell.toY (c : Cell α) : YVal α :=
  .seq ([c.rect.toY, .map (c.alloc.map fun kv => (.str kv.1, YVal.ofNum kv.2))]
        ++ (if c.depth > 0 ∨ c.fixed = true then [.int (c.depth : Int)] else [])
        ++ (if c.fixed then [.str kwFixed] else []))

/-- the descriptor the code AS FOUND wrote: the mark is dropped. -/
def Cell.toYOrig (c : Cell α) : YVal α :=
  .seq ([c.rect.toY, .map (c.alloc.map fun kv => (.str kv.1, YVal.ofNum kv.2))]
        ++ (if c.depth > 0 then [.int (c.depth : Int)] else []))

/-- `Allocation.write_yaml` (REPAIRED). -/
def writeAlloc (cells : List (Cell α)) : YVal α × List (Cell α) :=
  (.seq (cells.map Cell.toY), cells)

/-- `Allocation.write_yaml` AS FOUND. -/
def writeAllocOrig (cells : List (Cell α)) : YVal α × List (Cell α) :=
  (.seq (cells.map Cell.toYOrig), cells)

inductive AErr | root | cell | depth | rect | allocs | entry | dup | mark
  deriving DecidableEq, Repr, Inhabited

section ordered
variable [Add α] [Sub α] [Mul α] [Div α] [Neg α] [LT α] [LE α]
  [DecidableLT α] [DecidableLE α] [NatCast α] [DecidableEq α]

def amapE {β γ : Type} (f : β → Except AErr γ) : List β → Except AErr (List γ)
  | [] => .ok []
  | x :: xs =>
    match f x with
    | .error e => .error e
    | .ok y => match amapE f xs with | .error e => .error e | .ok ys => .ok (y :: ys)

/-- `isinstance(depth, int) and depth >= 0` (a `bool` is an `int`). -/
def parseDepth (v : YVal α) : Except AErr Nat :=
  match v with
  | .int i => if 0 ≤ i then .ok i.toNat else .error .depth
  | .bool b => .ok (if b then 1 else 0)
  | _ => .error .depth

/-- one `module: occupancy` entry. -/
def parseEntry (kv : YVal α × YVal α) : Except AErr (String × Num α) :=
  match kv.1.str?, kv.2.num? with
  | some m, some o =>
    if validIdent m ∧ (zero : α) ≤ o.val ∧ o.val ≤ (one : α) then .ok (m, o) else .error .entry
  | _, _ => .error .entry

/-- the rectangle of a cell: `parse_yaml_rectangle(r)` (not fixed, not hard), as a vector spec. -/
def parseCellRect (r : YVal α) : Except AErr (VRect α) :=
  match NL.parseRect false false r with
  | .ok n => .ok { cx := n.cx, cy := n.cy, w := n.w, h := n.h, region := n.region }
  | .error _ => .error .rect

/-- `alloc[3] == KW_FIXED` (REPAIRED reader: the optional fourth entry of a descriptor). -/
def parseMark (v : YVal α) : Except AErr Bool :=
  match v with
  | .str s => if s = kwFixed then .ok true else .error .mark
  | _ => .error .mark

def parseCell (c : YVal α) : Except AErr (Cell α) :=
  let core (r allocs : YVal α) (depth : Except AErr Nat) (mark : Except AErr Bool) : Except AErr (Cell α) :=
    match depth with
    | .error e => .error e
    | .ok d =>
      match mark with
      | .error e => .error e
      | .ok fx =>
        match parseCellRect r with
        | .error e => .error e
        | .ok rect =>
          match allocs with
          | .map l =>
            match amapE parseEntry l with
            | .error e => .error e
            | .ok es =>
              if nodupB (es.map (·.1)) then .ok { rect := rect, alloc := es, depth := d, fixed := fx } else .error .dup
          | _ => .error .allocs
  match c with
  | .seq [r, a] => core r a (.ok 0) (.ok false)
  | .seq [r, a, d] => core r a (parseDepth d) (.ok false)
  | .seq [r, a, d, m] => core r a (parseDepth d) (parseMark m)
  | _ => .error .cell

/-- the reader AS FOUND: two or three entries, every rectangle unmarked. -/
def parseCellOrig (c : YVal α) : Except AErr (Cell α) :=
  match c with
  | .seq [_, _] => parseCell c
  | .seq [_, _, _] => parseCell c
  | _ => .error .cell

/-- `Allocation._parse_yaml_tree`. -/
def readAlloc (t : YVal α) : Except AErr (List (Cell α)) :=
  match t with
  | .seq l => amapE parseCell l
  | _ => .error .root

/-- `Allocation._parse_yaml_tree` AS FOUND. -/
def readAllocOrig (t : YVal α) : Except AErr (List (Cell α)) :=
  match t with
  | .seq l => amapE parseCellOrig l
  | _ => .error .root

end ordered

/-! ### netgen -/

/-- `module_name(i)` = `"M%d" % i`. -/
def modName (i : Nat) : String := "M" ++ toString i

/-- `module_name(i, j)` = `"M%d_%d" % (i, j)`. -/
def modName2 (i j : Nat) : String := "M" ++ toString i ++ "_" ++ toString j

/-- an edge as netgen builds it: member names and, for the H-tree, a trailing weight. -/
structure GEdge (α : Type) where
  members : List String
  weight : Option (Num α) := none
  deriving Inhabited

def GEdge.toY (e : GEdge α) : YVal α :=
  .seq (e.members.map .str ++ (match e.weight with | some w => [YVal.ofNum w] | none => []))

/-- `{KW_AREA: area}` -/
def modInfo (area : Num α) : YVal α := .map [(.str "area", YVal.ofNum area)]

/-- what a `gen_*` function returns: `{KW_MODULES: modules, KW_NETS: edges}`. -/
structure GenOut (α : Type) where
  modules : Dict α
  nets : List (GEdge α)
  deriving Inhabited

def GenOut.toY (g : GenOut α) : YVal α :=
  .map [(.str "Modules", g.modules.toY), (.str "Nets", .seq (g.nets.map GEdge.toY))]

/-- the module names of a `rows × columns` grid in generation order. -/
def gridNames (rows columns : Nat) : List String :=
  (List.range rows).flatMap fun r => (List.range columns).map fun c => modName2 r c

/-- `gen_modules(area, rows, columns)` without centres: a chain when `columns <= 0`. -/
def genModules (area : Num α) (rows columns : Nat) : Dict α :=
  if columns = 0 then dictOfList ((List.range rows).map fun r => (modName r, modInfo area))
  else dictOfList ((gridNames rows columns).map fun n => (n, modInfo area))

def pair (a b : String) : GEdge α := { members := [a, b] }

def genGrid (area : Num α) (rows columns : Nat) : GenOut α :=
  let horiz : List (GEdge α) := (List.range rows).flatMap fun r =>
    (List.range (columns - 1)).map fun c => pair (modName2 r c) (modName2 r (c + 1))
  let vert : List (GEdge α) := (List.range (rows - 1)).flatMap fun r =>
    (List.range columns).map fun c => pair (modName2 r c) (modName2 (r + 1) c)
  { modules := genModules area rows columns, nets := horiz ++ vert }

def genChain (area : Num α) (n : Nat) : GenOut α :=
  { modules := genModules area n 0,
    nets := (List.range (n - 1)).map fun i => pair (modName i) (modName (i + 1)) }

def genRing (area : Num α) (n : Nat) : GenOut α :=
  { modules := genModules area n 0,
    nets := (List.range n).map fun i => pair (modName i) (modName ((i + 1) % n)) }

def genOneNet (area : Num α) (n : Nat) : GenOut α :=
  { modules := genModules area n 0,
    nets := [{ members := (List.range n).map modName }] }

def genStar (area : Num α) (n : Nat) : GenOut α :=
  { modules := genModules area n 0,
    nets := (List.range' 1 (n - 1)).map fun i => pair (modName 0) (modName i) }

/-- `module_name(n - 1)`: for `n = 0` Python formats `-1`. -/
def modNamePred (n : Nat) : String := if n = 0 then "M-1" else modName (n - 1)

def genRingStar (area : Num α) (n : Nat) : GenOut α :=
  let ring : List (GEdge α) := ((List.range' 1 (n - 2)).map fun i => pair (modName i) (modName (i + 1)))
    ++ [pair (modNamePred n) (modName 1)]
  let star : List (GEdge α) := (List.range' 1 (n - 1)).map fun i => pair (modName 0) (modName i)
  { modules := genModules area n 0, nets := ring ++ star }

section centres
variable [Add α] [Mul α] [Div α] [NatCast α]

/-- grid positions in generation order (`for r in range(rows) for c in range(columns)`). -/
def gridIdx (rows columns : Nat) : List (Nat × Nat) :=
  (List.range rows).flatMap fun r => (List.range columns).map fun c => (r, c)

/-- `(0.5 + k) * (extent / count) + random.gauss(0, sd)` -/
def gridCentreCoord (k : Nat) (extent : α) (count : Nat) (noise : α) : α :=
  (((1 : Nat) : α) / ((2 : Nat) : α) + ((k : Nat) : α)) * (extent / ((count : Nat) : α)) + noise

/-- `d[key] = c` on a document dictionary (replace in place, else append). -/
def yInsert (key : String) (c : YVal α) : List (YVal α × YVal α) → List (YVal α × YVal α)
  | [] => [(.str key, c)]
  | kv :: r => if kv.1.str? = some key then (kv.1, c) :: r else kv :: yInsert key c r

/-- `info[KW_CENTER] = c` on a module's info dictionary. -/
def addCentre (c : YVal α) : YVal α → YVal α
  | .map l => .map (yInsert "center" c l)
  | v => v

/-- `modules[name][KW_CENTER] = c`. -/
def setCentre (d : Dict α) (name : String) (c : YVal α) : Dict α :=
  d.map fun kv => if kv.1 = name then (kv.1, addCentre c kv.2) else kv

/-- the centre `--add-centers` gives module `(r, c)`; `noise` = the `random.gauss` draws in the order they are made
    (x then y, module after module). -/
def gridCentreY (rows columns : Nat) (W H : α) (noise : List α) (rc : Nat × Nat) : YVal α :=
  let k := rc.1 * columns + rc.2
  .seq [.float (gridCentreCoord rc.2 W columns (noise.getD (2 * k) ((0 : Nat) : α))),
        .float (gridCentreCoord rc.1 H rows (noise.getD (2 * k + 1) ((0 : Nat) : α)))]

/-- `gen_modules(area, rows, columns, add_centers=True, sd, die_shape)` for `columns > 0`: the dictionary of
    `{area}` entries, then the loop that adds a centre to every entry. -/
def genModulesCentred (area : Num α) (rows columns : Nat) (W H : α) (noise : List α) : Dict α :=
  (gridIdx rows columns).foldl
    (fun d rc => setCentre d (modName2 rc.1 rc.2) (gridCentreY rows columns W H noise rc))
    (dictOfList ((gridIdx rows columns).map fun rc => (modName2 rc.1 rc.2, modInfo area)))

/-- `gen_grid(rows, columns, area, add_centers=True, sd, die_shape)` (`columns ≥ 1`; with `columns = 0` Python builds a
    chain-named dictionary and the centre loop is empty). -/
def genGridCentred (area : Num α) (rows columns : Nat) (W H : α) (noise : List α) : GenOut α :=
  { modules := if columns = 0 then genModules area rows columns else genModulesCentred area rows columns W H noise,
    nets := (genGrid area rows columns).nets }

end centres

section htree
variable [Mul α] [NatCast α]

def wEdge (a b : String) (w : α) : GEdge α := { members := [a, b], weight := some (.f w) }

/-- `gen_htree_rec(k + 1, area, weight, first_module)`: modules, edges, next free module index. -/
def htreeRec (area : Num α) : Nat → α → Nat → Dict α × List (GEdge α) × Nat
  | 0, _, first => ([(modName first, modInfo area)], [], first + 1)
  | k + 1, w, first =>
    let center := modName first
    let left := modName (first + 1)
    let right := modName (first + 2)
    let mods0 : Dict α := dictInsert right (modInfo area) (dictInsert left (modInfo area) [(center, modInfo area)])
    let edges0 : List (GEdge α) := [wEdge left center w, wEdge right center w]
    let w2 : α := ((2 : Nat) : α) * w
    -- the loop `for _ in range(4)`, unrolled
    let i0 := first + 3
    let r0 := htreeRec area k w2 i0
    let m1 := dictUpdate mods0 r0.1
    let e1 := edges0 ++ [wEdge center (modName i0) w] ++ r0.2.1
    let i1 := r0.2.2
    let r1 := htreeRec area k w2 i1
    let m2 := dictUpdate m1 r1.1
    let e2 := e1 ++ [wEdge center (modName i1) w] ++ r1.2.1
    let i2 := r1.2.2
    let r2 := htreeRec area k w2 i2
    let m3 := dictUpdate m2 r2.1
    let e3 := e2 ++ [wEdge center (modName i2) w] ++ r2.2.1
    let i3 := r2.2.2
    let r3 := htreeRec area k w2 i3
    let m4 := dictUpdate m3 r3.1
    let e4 := e3 ++ [wEdge center (modName i3) w] ++ r3.2.1
    let i4 := r3.2.2
    (m4,
     e4 ++ [wEdge left (modName i0) w, wEdge left (modName i1) w, wEdge right (modName i2) w, wEdge right (modName i3) w],
     i4)

/-- `gen_htree(nlevels, area)`; `none` = the `assert nlevels > 0`. -/
def genHtree (area : Num α) (nlevels : Nat) : Option (GenOut α) :=
  match nlevels with
  | 0 => none
  | k + 1 =>
    let r := htreeRec area k ((1 : Nat) : α) 0
    some { modules := r.1, nets := r.2.1 }

end htree

/-! #### netgen on ANY Python int, and its command line

  `range` of a non-positive bound is empty, so a negative size behaves as 0 — except in the names `gen_ring_star` builds
  outside its loops (`module_name(n - 1)`), in `gen_htree_rec`'s `assert nlevels > 0`, and in the division
  `die_shape.h / rows` of `gen_modules` with centres (rows = 0 raises `ZeroDivisionError`; rows < 0 does not). -/

/-- `module_name(i)` for any int: `"M%d" % i`. -/
def modNameI (i : Int) : String := "M" ++ toString i

inductive GenErr | assertion | zeroDiv
  deriving DecidableEq, Repr, Inhabited

def genRingStarI (area : Num α) (n : Int) : GenOut α :=
  if 0 ≤ n then genRingStar area n.toNat
  else { modules := genModules area 0 0, nets := [pair (modNameI (n - 1)) (modName 1)] }

def genHtreeI [Mul α] [NatCast α] (area : Num α) (n : Int) : Option (GenOut α) :=
  if n ≤ 0 then none else genHtree area n.toNat

section centresI
variable [Add α] [Mul α] [Div α] [NatCast α]

/-- `gen_grid(rows, columns, area, add_centers=True, sd, die_shape)` on any ints; `die = none` is `die_shape=None`. -/
def genGridCentredI (area : Num α) (rows columns : Int) (die : Option (α × α)) (noise : List α) :
    Except GenErr (GenOut α) :=
  if columns ≤ 0 then .ok (genGrid area rows.toNat 0)          -- chain-named modules, no centre loop, no nets
  else match die with
    | none => .error .assertion                                  -- `assert die_shape is not None`
    | some (W, H) =>
      if rows = 0 then .error .zeroDiv                           -- `y_offset = die_shape.h / rows`
      else .ok (genGridCentred area rows.toNat columns.toNat W H noise)

/-- the options `main` reads after `argparse`: type (one of the seven choices), sizes, `--add-centers`, the standard
    deviation (`--add-noise`, 0 when absent), the die shape `Die(options['die'])` gave (`none`: no `--die`), and the
    gaussian draws `random.gauss` will return. -/
structure NgOpts (α : Type) where
  type : String
  size : List Int
  addCenters : Bool
  sd : α
  die : Option (α × α)
  noise : List α

/-- `netgen.main` up to the dump: the data it writes, or the exception it raises. -/
def netgenMain [LT α] [DecidableLT α] (o : NgOpts α) : Except GenErr (GenOut α) :=
  let area : Num α := .i 1
  if (o.type = "grid" ∧ o.size.length ≠ 2) ∨ (o.type ≠ "grid" ∧ o.size.length ≠ 1) then .error .assertion
  else if o.addCenters ∧ o.type ≠ "grid" then .error .assertion
  else if o.addCenters ∧ o.die.isNone then .error .assertion
  else if o.addCenters ∧ o.sd < ((0 : Nat) : α) then .error .assertion
  else
    let n : Int := o.size.headD 0
    match o.type with
    | "grid" =>
      let c : Int := (o.size.drop 1).headD 0
      if o.addCenters then genGridCentredI area n c o.die o.noise else .ok (genGrid area n.toNat c.toNat)
    | "chain" => .ok (genChain area n.toNat)
    | "ring" => .ok (genRing area n.toNat)
    | "star" => .ok (genStar area n.toNat)
    | "ring-star" => .ok (genRingStarI area n)
    | "one-net" => .ok (genOneNet area n.toNat)
    | "htree" => match genHtreeI area n with | some g => .ok g | none => .error .assertion
    | _ => .error .assertion                                     -- `assert False  # Should never happen`

end centresI

/-! ### `dump_yaml_namededges` -/

/-- a `NamedHyperEdge`: the Python list `modules` (names; after the defect also numbers) and the weight. -/
structure NEdge (α : Type) where
  modules : List (YVal α)
  weight : Num α
  deriving Inhabited

section ne
variable [Neg α] [NatCast α] [DecidableEq α]

/-- `e.weight != 1` -/
def weightIsOne (w : Num α) : Bool := decide (w.val = (one : α))

/-- the code AS FOUND: `edge = e.modules` is the edge's own list, so `edge.append(e.weight)` alters the edge. -/
def dumpNamedEdgesOrig (es : List (NEdge α)) : YVal α × List (NEdge α) :=
  let es' := es.map fun e => if weightIsOne e.weight then e else { e with modules := e.modules ++ [YVal.ofNum e.weight] }
  (.seq (es'.map fun e => .seq e.modules), es')

/-- REPAIRED: `edge = list(e.modules)`. -/
def dumpNamedEdges (es : List (NEdge α)) : YVal α × List (NEdge α) :=
  (.seq (es.map fun e => .seq (e.modules ++ (if weightIsOne e.weight then [] else [YVal.ofNum e.weight]))), es)

end ne

/-! ### FloorSet converter -/

/-- one block after `strop_decomposition`: kind 0 soft / 1 hard (FloorSet "fixed") / 2 fixed (FloorSet "pre-placed"),
    target area, rectangles `[cx, cy, w, h]`. -/
structure FsBlock (α : Type) where
  kind : Nat
  area : α
  rects : List (α × α × α × α)
  deriving Inhabited

structure FsInst (α : Type) where
  blocks : List (FsBlock α)
  pins : List (α × α)
  terminalsAsModules : Bool
  alpha : α
  b2b : List (Nat × Nat × α)
  p2b : List (Nat × Nat × α)
  deriving Inhabited

def rect4Y (r : α × α × α × α) : YVal α := .seq [.float r.1, .float r.2.1, .float r.2.2.1, .float r.2.2.2]

section fs
variable [Add α] [Sub α] [Mul α] [Div α] [Neg α] [LT α] [LE α]
  [DecidableLT α] [DecidableLE α] [NatCast α] [DecidableEq α]

/-- `compute_centroid(partition)`. -/
def fsCentroid (rs : List (α × α × α × α)) : α × α :=
  let s := rs.foldl (fun (acc : α × α × α) r =>
    (acc.1 + r.2.2.1 * r.2.2.2 * r.1, acc.2.1 + r.2.2.1 * r.2.2.2 * r.2.1, acc.2.2 + r.2.2.1 * r.2.2.2))
    ((zero : α), (zero : α), (zero : α))
  (s.1 / s.2.2, s.2.1 / s.2.2)

/-- the `data` dictionary of one block. -/
def fsBlockInfo (b : FsBlock α) : YVal α :=
  let rects : YVal α × YVal α := (.str "rectangles", .seq (b.rects.map rect4Y))
  if b.kind = 2 then .map [rects, (.str "fixed", .bool true)]
  else if b.kind = 1 then .map [rects, (.str "hard", .bool true)]
  else
    let c := fsCentroid b.rects
    .map [rects, (.str "area", .float b.area), (.str "center", .seq [.float c.1, .float c.2])]

/-- Python `max(...)` of a sequence (first maximal element); `none` = the `ValueError` on an empty sequence. -/
def maxOf? (l : List α) : Option α :=
  match l with
  | [] => none
  | x :: xs => some (xs.foldl pyMax x)

/-- `EPSILON = 1e-3` is a parameter `eps`. REPAIRED pin placement: border pins move inwards by `eps`. -/
def fsPinCoord (eps shape p : α) : α :=
  if p < eps then p + eps else if shape - eps < p then p - eps else p

def fsPinInfo (eps shapeX shapeY : α) (tam : Bool) (p : α × α) : YVal α :=
  if tam then
    .map [(.str "rectangles", .seq [.float (fsPinCoord eps shapeX p.1), .float (fsPinCoord eps shapeY p.2), .float eps, .float eps]),
          (.str "fixed", .bool true)]
  else .map [(.str "center", .seq [.float p.1, .float p.2]), (.str "terminal", .bool true)]

def termName (i : Nat) : String := "T" ++ toString i

def enum {β : Type} (l : List β) : List (Nat × β) := (List.range l.length).zip l

/-- exceptions of the converter: `max()` of an empty sequence, the `assert`s of `__init__`, a zero perimeter / zero
    maximal weight density in `_parse_connections`. -/
inductive FsErr | valueError | assertion | zeroDiv
  deriving DecidableEq, Repr, Inhabited

/-- the `_modules` dictionary `_parse_modules` builds once the die shape `(shapeX, shapeY)` is known. -/
def fsModulesAt (eps shapeX shapeY : α) (f : FsInst α) : Dict α :=
  let d1 := dictUpdate [] ((enum f.blocks).map fun ib => (modName ib.1, fsBlockInfo ib.2))
  dictUpdate d1 ((enum f.pins).map fun ip => (termName ip.1, fsPinInfo eps shapeX shapeY f.terminalsAsModules ip.2))

/-- the die shape: `max(p[0] for p in pins_pos)`, `max(p[1] for p in pins_pos)`; an instance without pins raises
    `ValueError` (`max()` of an empty sequence). -/
def fsShape (f : FsInst α) : Except FsErr (α × α) :=
  match maxOf? (f.pins.map (·.1)), maxOf? (f.pins.map (·.2)) with
  | some sx, some sy => .ok (sx, sy)
  | _, _ => .error .valueError

/-- `weight = wei if wei > 0 else 1` with `wei = float(w * alpha)`. -/
def fsWeight (alpha w : α) : Num α := if (zero : α) < w * alpha then .f (w * alpha) else .i 1

/-- `_parse_connections`: the `_nets` list. -/
def fsNets (f : FsInst α) : List (NEdge α) :=
  (f.b2b.map fun e => { modules := [.str (modName e.1), .str (modName e.2.1)], weight := fsWeight f.alpha e.2.2 })
  ++ (f.p2b.map fun e => { modules := [.str (termName e.1), .str (modName e.2.1)], weight := fsWeight f.alpha e.2.2 })

/-- the FPEF document of an instance whose die shape is `(shapeX, shapeY)`. -/
def fpefTree (eps shapeX shapeY : α) (f : FsInst α) : YVal α :=
  .map [(.str "Modules", (fsModulesAt eps shapeX shapeY f).toY), (.str "Nets", (dumpNamedEdges (fsNets f)).1)]

/-- `FloorSetInstance(...)` then `write_yaml_FPEF()`: the tree, and the nets as the call leaves them. -/
def writeFPEF (eps : α) (f : FsInst α) : Except FsErr (YVal α × List (NEdge α)) :=
  match fsShape f with
  | .error e => .error e
  | .ok s => .ok (fpefTree eps s.1 s.2 f, (dumpNamedEdges (fsNets f)).2)

/-- `FloorSetInstance(...)` then `write_yaml_DIEF()`. -/
def writeDIEF (f : FsInst α) : Except FsErr (YVal α) :=
  match fsShape f with
  | .error e => .error e
  | .ok s => .ok (.map [(.str "width", .float s.1), (.str "height", .float s.2)])

/-! #### the converter from the raw (numpy) arrays: validation, kinds, weight normalisation

  `FloorSetInstance.__init__` — the `assert`s on the arrays and on the density, `_parse_modules` (kind of a block from its
  placement constraints; the polygon decomposition `strop_decomposition` of property C15 stays an input), and
  `_parse_connections` (the normalisation factor `alpha = density / max_b (weight_sum(b) / perimeter(b))`, where the
  perimeter is taken over the UNFILTERED vertex rows, padding included, exactly as the code does). -/

/-- the raw arrays, as lists: block and pin indices of the connectivity arrays as naturals (`int(b1)`). -/
structure FsRaw (α : Type) where
  areaBlocks : List α
  b2b : List (Nat × Nat × α)
  p2b : List (Nat × Nat × α)
  pins : List (α × α)
  cons : List (List α)                        -- `placement_constraints` rows
  vertices : List (List (α × α))              -- `vertex_blocks` rows, padding `(-1, -1)` included
  metrics : List α
  density : Option α
  terminalsAsModules : Bool
  decomp : List (List (α × α × α × α))        -- `strop_decomposition(vertices)` of every block (C15), an input
  deriving Inhabited

/-- `assert not (arr < 0).any()` for the six checked arrays. -/
def fsValidate (r : FsRaw α) : Bool :=
  r.areaBlocks.all (fun x => !decide (x < (zero : α))) &&
  r.b2b.all (fun e => !decide (e.2.2 < (zero : α))) &&
  r.p2b.all (fun e => !decide (e.2.2 < (zero : α))) &&
  r.pins.all (fun p => !decide (p.1 < (zero : α)) && !decide (p.2 < (zero : α))) &&
  r.cons.all (fun row => row.all fun x => !decide (x < (zero : α))) &&
  r.metrics.all (fun x => !decide (x < (zero : α)))

/-- `if density: assert isinstance(density, float) and 0 <= density <= 1` (a float or `None` is handed over): the density
    that `_parse_connections` will use, `none` when it is falsy. -/
def fsDensity (d : Option α) : Except FsErr (Option α) :=
  match d with
  | none => .ok none
  | some x =>
    if x = (zero : α) then .ok none
    else if (zero : α) ≤ x ∧ x ≤ (one : α) then .ok (some x) else .error .assertion

/-- kind of a block from its `placement_constraints` row: `[1]` pre-placed → fixed (2), `[0]` fixed → hard (1), else soft. -/
def fsKindOf (row : List α) : Nat :=
  if row.getD 1 (zero : α) ≠ (zero : α) then 2 else if row.getD 0 (zero : α) ≠ (zero : α) then 1 else 0

/-- `weight_sum(b2b, p2b, target)`: the b2b rows that name the block at either end, plus the p2b rows that name it. -/
def fsWeightSum (r : FsRaw α) (id : Nat) : α :=
  ((r.b2b.filter fun e => e.1 = id ∨ e.2.1 = id).map (·.2.2)).foldl (· + ·) (zero : α)
  + ((r.p2b.filter fun e => e.2.1 = id).map (·.2.2)).foldl (· + ·) (zero : α)

/-- `compute_perimeter(vertex_blocks[b])`: consecutive rows, open chain, padding rows included. -/
def fsPerimeter (sqrt : α → α) (vs : List (α × α)) : α :=
  (vs.zip vs.tail).foldl (fun acc pq =>
    acc + sqrt ((pq.2.1 - pq.1.1) * (pq.2.1 - pq.1.1) + (pq.2.2 - pq.1.2) * (pq.2.2 - pq.1.2))) (zero : α)

/-- the loop of `_parse_connections` (`max_f = -1` initially) and `alpha = d / max_f`. -/
def fsAlpha (sqrt : α → α) (r : FsRaw α) (d : α) : Except FsErr α :=
  let step (acc : Except FsErr α) (id : Nat) : Except FsErr α :=
    match acc with
    | .error e => .error e
    | .ok mx =>
      let per := fsPerimeter sqrt (r.vertices.getD id [])
      if per = (zero : α) then .error .zeroDiv
      else
        let f := fsWeightSum r id / per
        .ok (if mx < f then f else mx)
  match (List.range r.areaBlocks.length).foldl step (.ok (-(one : α))) with
  | .error e => .error e
  | .ok mx => if mx = (zero : α) then .error .zeroDiv else .ok (d / mx)

/-- the blocks `_parse_modules` builds. -/
def fsBlocksOf (r : FsRaw α) : List (FsBlock α) :=
  (List.range r.areaBlocks.length).map fun i =>
    { kind := fsKindOf (r.cons.getD i []), area := r.areaBlocks.getD i (zero : α), rects := r.decomp.getD i [] }

/-- `FloorSetInstance(data, density, terminals_as_modules)`: the instance, or the exception of the constructor, in the
    order the constructor raises them (array asserts, density assert, `max()` of no pins, then the divisions). -/
def fsOfRaw (sqrt : α → α) (r : FsRaw α) : Except FsErr (FsInst α) :=
  if !fsValidate r then .error .assertion else
  match fsDensity r.density with
  | .error e => .error e
  | .ok d =>
    let inst0 : FsInst α := { blocks := fsBlocksOf r, pins := r.pins, terminalsAsModules := r.terminalsAsModules,
                              alpha := (one : α), b2b := r.b2b, p2b := r.p2b }
    match fsShape inst0 with
    | .error e => .error e
    | .ok _ =>
      match d with
      | none => .ok inst0
      | some x =>
        match fsAlpha sqrt r x with
        | .error e => .error e
        | .ok a => .ok { inst0 with alpha := a }

/-- constructor, then `write_yaml_FPEF()` and `write_yaml_DIEF()`. -/
def convertRaw (eps : α) (sqrt : α → α) (r : FsRaw α) : Except FsErr (YVal α × YVal α) :=
  match fsOfRaw sqrt r with
  | .error e => .error e
  | .ok f =>
    match writeFPEF eps f, writeDIEF f with
    | .ok t, .ok d => .ok (t.1, d)
    | .error e, _ => .error e
    | _, .error e => .error e

end fs

/-! ### string-built netlists (the tree their text denotes) -/

section emit
variable [Add α] [Sub α] [Mul α] [Div α] [Neg α] [LT α] [LE α]
  [DecidableLT α] [DecidableLE α] [NatCast α] [DecidableEq α]

/-- `rect_io.get_netlist(None, allocation)`: running (centre, area) per module, in order of first appearance.
    REPAIRED: a pair of zero areas is not merged (the original divides 0/0). -/
def rioStep (mm : List (String × (α × α) × α)) (m : String) (c : α × α) (a : α) : List (String × (α × α) × α) :=
  match mm with
  | [] => [(m, c, a)]
  | (m', c1, a1) :: r =>
    if m' = m then
      if (zero : α) < a1 + a then
        (m, (c1.1 * (a1 / (a1 + a)) + c.1 * (a / (a1 + a)), c1.2 * (a1 / (a1 + a)) + c.2 * (a / (a1 + a))), a1 + a) :: r
      else (m', c1, a1) :: r
    else (m', c1, a1) :: rioStep r m c a

def rioMap (cells : List (Cell α)) : List (String × (α × α) × α) :=
  cells.foldl (fun mm c =>
    c.alloc.foldl (fun mm kv => rioStep mm kv.1 (c.rect.cx.val, c.rect.cy.val) (c.rect.w.val * c.rect.h.val * kv.2.val)) mm) []

def rioTree (cells : List (Cell α)) : YVal α :=
  .map [(.str "Modules", .map ((rioMap cells).map fun e =>
          (.str e.1, .map [(.str "area", .float e.2.2), (.str "center", .seq [.float e.2.1.1, .float e.2.1.2])]))),
        (.str "Nets", .seq [])]

/-- what `solution_to_netlist` reads of a module. -/
inductive SolShape (α : Type)
  | result (boxes : List (Num α × Num α × Num α × Num α))    -- `module.name in result`
  | rects (rs : List (Num α × Num α × Num α × Num α))        -- the module's own rectangles
  | center (c : α × α)                                        -- `module.center`
  deriving Inhabited

structure SolMod (α : Type) where
  name : String
  shape : SolShape α
  hard : Bool
  fixed : Bool
  terminal : Bool
  areaRegions : List (String × α)
  area : α                       -- `module.area()`
  deriving Inhabited

def num4Y (r : Num α × Num α × Num α × Num α) : YVal α :=
  .seq [YVal.ofNum r.1, YVal.ofNum r.2.1, YVal.ofNum r.2.2.1, YVal.ofNum r.2.2.2]

/-- `{region: area, …}` -/
def regionsY (regs : List (String × α)) : YVal α := .map (regs.map fun p => (.str p.1, .float p.2))

/-- the `area:` value for a soft module (REPAIRED: one area per region unless there is only the ground region). -/
def solAreaY (m : SolMod α) : YVal α :=
  match m.areaRegions with
  | [(r, _)] => if r = "_" then .float m.area else regionsY m.areaRegions
  | _ => regionsY m.areaRegions

def solShapeY (s : SolShape α) : YVal α × YVal α :=
  match s with
  | .result bs => (.str "rectangles", .seq (bs.map num4Y))
  | .rects rs => (.str "rectangles", .seq (rs.map num4Y))
  | .center c => (.str "center", .seq [.float c.1, .float c.2])

/-- one module of `solution_to_netlist` (REPAIRED: per-region areas, `terminal: true` instead of `hard: true`). -/
def solModInfo (m : SolMod α) : YVal α :=
  let area : List (YVal α × YVal α) := if m.hard then [] else [(.str "area", solAreaY m)]
  let kind : List (YVal α × YVal α) :=
    (if m.fixed then [(.str "fixed", .bool true)] else if m.hard && !m.terminal then [(.str "hard", .bool true)] else [])
    ++ (if m.terminal then [(.str "terminal", .bool true)] else [])
  .map ([solShapeY m.shape] ++ area ++ kind)

/-- a hyperedge: member names and weight (REPAIRED: the weight is written when it is not 1). -/
def solNetY (e : List String × α) : YVal α :=
  .seq (e.1.map .str ++ (if e.2 = (one : α) then [] else [.float e.2]))

def solTree (ms : List (SolMod α)) (es : List (List String × α)) : YVal α :=
  .map [(.str "Modules", .map (ms.map fun m => (.str m.name, solModInfo m))), (.str "Nets", .seq (es.map solNetY))]

/-- exceptions of `solution_to_netlist`. -/
inductive SolErr | exception
  deriving DecidableEq, Repr, Inhabited

/-- `solution_to_netlist(netlist, result)` including its refusal: a module that is not in `result`, has no rectangle and
    no centre (`none` here) makes it `raise Exception("I don't know what to do with module …")` — nothing is produced. -/
def solutionToNetlist (ms : List (Option (SolMod α))) (es : List (List String × α)) : Except SolErr (YVal α) :=
  if ms.any Option.isNone then .error .exception else .ok (solTree (ms.filterMap id) es)

/-- a module of the legalisation model: name, degree (0 soft / 1 hard / 2 fixed), original area, evaluated rectangles. -/
structure LfMod (α : Type) where
  name : String
  degree : Nat
  area : Num α
  rects : List (Num α × Num α × Num α × Num α)
  deriving Inhabited

def lfModInfo (m : LfMod α) : YVal α :=
  let head : YVal α × YVal α :=
    if m.degree = 0 then (.str "area", YVal.ofNum m.area)
    else if m.degree = 1 then (.str "hard", .bool true) else (.str "fixed", .bool true)
  .map [head, (.str "rectangles", .seq (m.rects.map num4Y))]

/-- name of hyperedge member `m` (`og_names[m]` or `__fixed_region_k`). -/
def lfMember (names : List String) (m : Nat) : String :=
  match names[m]? with
  | some n => n
  | none => "__fixed_region_" ++ toString (m - names.length)

/-- `Model.get_netlist` (REPAIRED: weights). -/
def lfTree (ms : List (LfMod α)) (hyper : List (Num α × List Nat)) : YVal α :=
  let names := ms.map (·.name)
  .map [(.str "Modules", .map (ms.map fun m => (.str m.name, lfModInfo m))),
        (.str "Nets", .seq (hyper.map fun e =>
          .seq ((e.2.map fun m => YVal.str (lfMember names m)) ++ (if weightIsOne e.1 then [] else [YVal.ofNum e.1]))))]

end emit

end FV.Prod

import FV.Model.Scalar
/-
  Executable model of `tools/floorset_parser/floor_set_manager/strop.py` (classes `Interval`,
  `StropRectangle`, `Strop`, `StropInstance`) and of `strop_decomposition` / `is_point_inside_polygon`
  of `tools/floorset_parser/floor_set_manager/utils/utils.py`.  Mirrors the Python line by line; the
  Python member is named next to each definition.

  Representation choices (all stated, none hides behaviour):
  * `Interval(-1,-1)` (`EMPTY_INTERVAL`) is `none : Option Interval`; every non-empty interval the code
    builds has `0 ≤ low`, so `low high : Nat`.
  * the grid is `List (List Bool)`; the constructor's assertions (at least one row, equal row lengths)
    are `Grid.wf`; `cell` reads `m[i][j]` (default `false` outside, never reached for a well-formed grid
    because every loop range of the code is bounded by `nrows` / `ncols`).
  * the mutable `nrows × nrows` table `rect` of `_get_trunks_matrix` is an update log (`Table`) with
    `get`/`upd` (`get (upd t i j v) i' j' = if i' = i ∧ j' = j then v else get t i' j'`); the `for` loops are `forUp` / `forDown` over the same index ranges in the same
    order, so the in-place reads see exactly the entries the Python reads.
  * Python `set`s of rectangles are duplicate-free lists (order is not part of the model: the harness
    canonicalises; `strop_decomposition` takes the first element of a set iteration, so its model returns the
    list of all possible answers).
-/
namespace FV.Strop

/-! ### loops -/

/-- `for i in range(a, a+cnt): s = body i s`. -/
def forUp {σ : Type} (a : Nat) : (cnt : Nat) → (body : Nat → σ → σ) → σ → σ
  | 0, _, s => s
  | cnt+1, body, s => forUp (a+1) cnt body (body a s)

/-- `for i in range(lo+cnt-1, lo-1, -1): s = body i s`. -/
def forDown {σ : Type} (lo : Nat) : (cnt : Nat) → (body : Nat → σ → σ) → σ → σ
  | 0, _, s => s
  | cnt+1, body, s => forDown lo cnt body (body (lo+cnt) s)

/-- `sum(f i for i in range(n))`. -/
def sumTo : Nat → (Nat → Nat) → Nat
  | 0, _ => 0
  | n+1, f => sumTo n f + f n

/-- `any(p i for i in range(a, a+cnt))`. -/
def anyFrom (a : Nat) : (cnt : Nat) → (Nat → Bool) → Bool
  | 0, _ => false
  | cnt+1, p => p a || anyFrom (a+1) cnt p

/-! ### `Interval`, `StropRectangle` -/

structure Interval where
  low : Nat
  high : Nat
  deriving DecidableEq, Repr, Inhabited

/-- `Interval.intersection` (`none` = `EMPTY_INTERVAL`). -/
def inter : Option Interval → Option Interval → Option Interval
  | some a, some b =>
      let lo := max a.low b.low
      let hi := min a.high b.high
      if lo ≤ hi then some ⟨lo, hi⟩ else none
  | _, _ => none

/-- `Interval.length`. -/
def Interval.length (i : Interval) : Nat := i.high - i.low + 1

structure SRect where
  rows : Interval
  cols : Interval
  deriving DecidableEq, Repr, Inhabited

/-- `StropRectangle.area`. -/
def SRect.area (r : SRect) : Nat := r.rows.length * r.cols.length

/-- cell `(i,j)` lies in the rectangle. -/
def SRect.mem (r : SRect) (i j : Nat) : Bool :=
  decide (r.rows.low ≤ i) && decide (i ≤ r.rows.high) && decide (r.cols.low ≤ j) && decide (j ≤ r.cols.high)

/-! ### the grid -/

abbrev Grid := List (List Bool)

def Grid.nrows (m : Grid) : Nat := m.length
def Grid.ncols (m : Grid) : Nat := (m.headD []).length

/-- the constructor's assertions: `nrows > 0`, all rows of equal length (a row of a split string is never
empty, so `ncols > 0` as well). -/
def Grid.wf (m : Grid) : Bool := decide (0 < m.nrows) && decide (0 < m.ncols) && m.all (fun r => r.length == m.ncols)

/-- `m[i][j]`. -/
def cell (m : Grid) (i j : Nat) : Bool := (m.getD i []).getD j false

/-- `Mt = [[m[j][i] for j in range(nrows)] for i in range(ncols)]`. -/
def transpose (m : Grid) : Grid :=
  (List.range m.ncols).map fun i => (List.range m.nrows).map fun j => cell m j i

/-! ### `_row_interval` -/

/-- `R.index(v, start)`: `none` = `ValueError`. -/
def indexFrom : List Bool → Bool → Nat → Option Nat
  | [], _, _ => none
  | x :: xs, v, 0 => if x == v then some 0 else (indexFrom xs v 0).map (· + 1)
  | _ :: xs, v, s+1 => (indexFrom xs v s).map (· + 1)

/-- `Strop._row_interval`. -/
def rowInterval (R : List Bool) : Option Interval :=
  match indexFrom R true 0 with
  | none => none
  | some firstTrue =>
    match indexFrom R false (firstTrue + 1) with
    | none => some ⟨firstTrue, R.length - 1⟩
    | some firstFalse =>
      match indexFrom R true (firstFalse + 1) with
      | some _ => none
      | none => some ⟨firstTrue, firstFalse - 1⟩

/-! ### `_get_trunks_matrix` -/

/-- the table `rect`: an update log read newest-first (an entry never written reads `EMPTY_INTERVAL`, its initial
value).  A concrete strict data structure, so compiled code evaluates every update eagerly, as Python does. -/
structure Table where
  entries : List (Nat × Nat × Option Interval)

/-- `rect[i][j]`. -/
def Table.get (t : Table) (i j : Nat) : Option Interval :=
  match t.entries.find? (fun e => e.1 == i && e.2.1 == j) with
  | some e => e.2.2
  | none => none

/-- `rect[i][j] = v`. -/
def upd (t : Table) (i j : Nat) (v : Option Interval) : Table := ⟨(i, j, v) :: t.entries⟩

/-- diagonal + upper triangle. -/
def fillTable (M : Grid) : Table :=
  let n := M.length
  let t0 : Table := ⟨[]⟩
  -- for i in range(nrows): rect[i][i] = _row_interval(M[i])
  let t1 := forUp 0 n (fun i t => upd t i i (rowInterval (M.getD i []))) t0
  -- for column in range(1, nrows): for row in range(column-1, -1, -1): …
  forUp 1 (n - 1) (fun column t =>
    forDown 0 column (fun row t =>
      upd t row column (inter (t.get (row + 1) column) (t.get row (column - 1)))) t) t1

/-- "Remove the non-prime rectangles by rows" (in place). -/
def prune1 (n : Nat) (t : Table) : Table :=
  -- for row in range(nrows-1): for column in range(row, nrows-1): …
  forUp 0 (n - 1) (fun row t =>
    forUp row (n - 1 - row) (fun column t =>
      if t.get row column = t.get row (column + 1) then upd t row column none else t) t) t

/-- "Remove the non-prime rectangles by columns" (in place). -/
def prune2 (n : Nat) (t : Table) : Table :=
  -- for column in range(1, nrows): for row in range(column, 0, -1): …
  forUp 1 (n - 1) (fun column t =>
    forDown 1 column (fun row t =>
      if t.get row column = t.get (row - 1) column then upd t row column none else t) t) t

def finalTable (M : Grid) : Table := prune2 M.length (prune1 M.length (fillTable M))

/-- `Strop._get_trunks_matrix` (the returned set, row-major). -/
def trunksMatrix (M : Grid) : List SRect :=
  let n := M.length
  let t := finalTable M
  (List.range n).flatMap fun row =>
    (List.range' row (n - row)).filterMap fun column =>
      (t.get row column).map fun I => ⟨⟨row, column⟩, I⟩

/-! ### `_empty_corners`, `_get_potential_trunks` -/

/-- `any(m[i][j] for i in range(r0, r0+nr) for j in range(c0, c0+nc))`. -/
def anyBlock (m : Grid) (r0 nr c0 nc : Nat) : Bool :=
  anyFrom r0 nr fun i => anyFrom c0 nc fun j => cell m i j

/-- `Strop._empty_corners`. -/
def emptyCorners (m : Grid) (R : SRect) : Bool :=
  !(anyBlock m 0 R.rows.low 0 R.cols.low
    || anyBlock m 0 R.rows.low (R.cols.high + 1) (m.ncols - (R.cols.high + 1))
    || anyBlock m (R.rows.high + 1) (m.nrows - (R.rows.high + 1)) 0 R.cols.low
    || anyBlock m (R.rows.high + 1) (m.nrows - (R.rows.high + 1)) (R.cols.high + 1) (m.ncols - (R.cols.high + 1)))

/-- `Strop._get_potential_trunks` (a set; here in the row-major order of `trunksMatrix m`). -/
def potentialTrunks (m : Grid) : List SRect :=
  let a := trunksMatrix m
  let b := (trunksMatrix (transpose m)).map fun r => (⟨r.cols, r.rows⟩ : SRect)
  (a.filter fun t => b.contains t).filter (emptyCorners m)

/-! ### `StropInstance` -/

/-- number of leading `true`s of `f 0, f 1, …, f (cnt-1)` (a `for … if not …: break; h += 1` loop). -/
def runLen (f : Nat → Bool) : Nat → Nat
  | 0 => 0
  | cnt+1 => if f 0 then 1 + runLen (fun k => f (k + 1)) cnt else 0

/-- `h_north[c]` for a trunk column `c`: ones met walking up from `rows.low-1`. -/
def hNorth (m : Grid) (T : SRect) (c : Nat) : Nat := runLen (fun k => cell m (T.rows.low - 1 - k) c) T.rows.low
/-- `h_south[c]`: ones met walking down from `rows.high+1`. -/
def hSouth (m : Grid) (T : SRect) (c : Nat) : Nat :=
  runLen (fun k => cell m (T.rows.high + 1 + k) c) (m.nrows - (T.rows.high + 1))
/-- `h_west[r]`. -/
def hWest (m : Grid) (T : SRect) (r : Nat) : Nat := runLen (fun k => cell m r (T.cols.low - 1 - k)) T.cols.low
/-- `h_east[r]`. -/
def hEast (m : Grid) (T : SRect) (r : Nat) : Nat :=
  runLen (fun k => cell m r (T.cols.high + 1 + k)) (m.ncols - (T.cols.high + 1))

/-- `_num_cells`. -/
def numCells (m : Grid) : Nat := sumTo m.nrows fun i => sumTo m.ncols fun j => if cell m i j then 1 else 0

/-- `sum(f i for i in range(lo, hi+1))`. -/
def sumRange (lo hi : Nat) (f : Nat → Nat) : Nat := sumTo (hi + 1 - lo) fun k => f (lo + k)

/-- `total`: trunk area plus all histogram entries. -/
def total (m : Grid) (T : SRect) : Nat :=
  T.area + sumRange T.cols.low T.cols.high (fun c => hNorth m T c + hSouth m T c)
         + sumRange T.rows.low T.rows.high (fun r => hWest m T r + hEast m T r)

/-- the run-length scan of a histogram `h`: state `(init, v)`, current index `c`, `cnt` entries still to read;
emits `(v, init, last)` for every maximal run of a non-zero value (`last = c - 1` when the run is closed at `c`;
after the loop `c - 1 = hi`). -/
def runsAux (h : Nat → Nat) : (cnt c init v : Nat) → List (Nat × Nat × Nat)
  | 0, c, init, v => if v ≠ 0 then [(v, init, c - 1)] else []
  | cnt+1, c, init, v =>
      if h c ≠ v then (if v ≠ 0 then [(v, init, c - 1)] else []) ++ runsAux h cnt (c + 1) c (h c)
      else runsAux h cnt (c + 1) init v

/-- runs of `h lo, …, h hi` (`lo ≤ hi`): `init, v = lo, h[lo]; for c in range(lo+1, hi+1): …`. -/
def runs (h : Nat → Nat) (lo hi : Nat) : List (Nat × Nat × Nat) :=
  runsAux h (hi - lo) (lo + 1) lo (h lo)

structure Instance where
  trunk : SRect
  north : List SRect
  south : List SRect
  east : List SRect
  west : List SRect
  deriving DecidableEq, Repr

/-- `StropInstance.__init__`; `none` when `_valid` is false (such instances are not kept by `Strop`). -/
def mkInstance (m : Grid) (T : SRect) : Option Instance :=
  if numCells m = total m T then
    some {
      trunk := T
      north := (runs (hNorth m T) T.cols.low T.cols.high).map fun (v, a, b) =>
        ⟨⟨T.rows.low - v, T.rows.low - 1⟩, ⟨a, b⟩⟩
      south := (runs (hSouth m T) T.cols.low T.cols.high).map fun (v, a, b) =>
        ⟨⟨T.rows.high + 1, T.rows.high + v⟩, ⟨a, b⟩⟩
      west := (runs (hWest m T) T.rows.low T.rows.high).map fun (v, a, b) =>
        ⟨⟨a, b⟩, ⟨T.cols.low - v, T.cols.low - 1⟩⟩
      east := (runs (hEast m T) T.rows.low T.rows.high).map fun (v, a, b) =>
        ⟨⟨a, b⟩, ⟨T.cols.high + 1, T.cols.high + v⟩⟩ }
  else none

/-- `Strop._instances` (valid instances of all potential trunks). -/
def instances (m : Grid) : List Instance := (potentialTrunks m).filterMap (mkInstance m)

/-- `Strop.is_strop`. -/
def isStrop (m : Grid) : Bool := !(instances m).isEmpty

/-- `Strop(str_matrix)`: `none` = `AssertionError` of the constructor. -/
def strop (m : Grid) : Option (List Instance) := if m.wf then some (instances m) else none

/-- all branches in the order `rectangles()` yields them. -/
def Instance.branches (s : Instance) : List SRect := s.north ++ s.south ++ s.east ++ s.west

/-- `StropInstance.rectangles(which)`; `none` = `AssertionError` (unknown selector). -/
def Instance.rectanglesWhich (s : Instance) (which : List Char) : Option (List SRect) :=
  if which.all (fun x => x ∈ ['N', 'S', 'W', 'E', 'T', 'B']) then
    let sel (c : Char) (l : List SRect) := if which.isEmpty || which.contains c || which.contains 'B' then l else []
    some ((if which.isEmpty || which.contains 'T' then [s.trunk] else [])
          ++ sel 'N' s.north ++ sel 'S' s.south ++ sel 'E' s.east ++ sel 'W' s.west)
  else none

/-- `rectangles()` (all: trunk first). -/
def Instance.rectangles (s : Instance) : List SRect := s.trunk :: s.branches

/-! ### `strop_decomposition`, `is_point_inside_polygon` -/

section Coords
variable {α : Type} [Add α] [Sub α] [Mul α] [Div α] [Neg α] [LT α] [LE α]
  [DecidableLT α] [DecidableLE α] [NatCast α] [DecidableEq α]

@[inline] def two : α := ((2 : Nat) : α)

/-- `is_point_inside_polygon` (even–odd rule; the edge `vertices[i] → vertices[(i+1) % n]`). -/
def isPointInside (px py : α) (vs : List (α × α)) : Bool :=
  let n := vs.length
  forUp 0 n (fun i inside =>
    match vs[i]?, vs[(i + 1) % n]? with
    | some p1, some p2 =>
      if (p1.2 ≤ py ∧ py < p2.2) ∨ (p2.2 ≤ py ∧ py < p1.2) then
        let ix := p1.1 + (py - p1.2) * (p2.1 - p1.1) / (p2.2 - p1.2)
        if px < ix then !inside else inside
      else inside
    | _, _ => inside) false

/-- insertion into an ascending duplicate-free list (`sorted(set(…))`). -/
def insertAsc (x : α) : List α → List α
  | [] => [x]
  | y :: ys => if x < y then x :: y :: ys else if x = y then y :: ys else y :: insertAsc x ys

def sortedSet (l : List α) : List α := l.foldl (fun acc x => insertAsc x acc) []

/-- the 0/1 matrix built from the vertex list (`x_coords` ascending, `y_coords` descending). -/
def gridOfVertices (vs : List (α × α)) : List α × List α × Grid :=
  let xs := sortedSet (vs.map (·.1))
  let ys := (sortedSet (vs.map (·.2))).reverse
  let rows := ys.length - 1
  let cols := xs.length - 1
  let g : Grid := (List.range rows).map fun i => (List.range cols).map fun j =>
    match xs[j]?, xs[j+1]?, ys[i]?, ys[i+1]? with
    | some xmin, some xmax, some ymax, some ymin =>
        isPointInside ((xmin + xmax) / two) ((ymin + ymax) / two) vs
    | _, _, _, _ => false
  (xs, ys, g)

/-- `[cx, cy, w, h]` of a grid rectangle through the coordinate lists (`X j` = `x_coords[j]`, `Y i` = `y_coords[i]`). -/
def coordRect (X Y : Nat → α) (r : SRect) : α × α × α × α :=
  let xmin := X r.cols.low
  let xmax := X (r.cols.high + 1)
  let ymax := Y r.rows.low
  let ymin := Y (r.rows.high + 1)
  ((xmin + xmax) / two, (ymin + ymax) / two, xmax - xmin, ymax - ymin)

/-- `strop_decomposition(vertices)`.  `none` = `AssertionError` (empty matrix or not a STrOP); otherwise the
list of possible results — one per instance, the implementation returns the one its set iteration meets first. -/
def stropDecomposition (zero : α) (vs : List (α × α)) : Option (List (List (α × α × α × α))) :=
  let (xs, ys, g) := gridOfVertices vs
  match strop g with
  | none => none
  | some insts =>
    if insts.isEmpty then none
    else some (insts.map fun s => s.rectangles.map (coordRect (fun j => xs.getD j zero) (fun i => ys.getD i zero)))

/-! ### the polygon as a boundary (specification side: executed by the driver as a hypothesis monitor)

`strop_decomposition` never sees the cell set a polygon was drawn around — only the vertex list.  The following
definitions say, executably, that a vertex list *is* the boundary of the 1-cells of a grid `S` drawn on the
pipeline's own coordinate lists: every edge is axis-parallel and, for every grid line `x = xs[k]` and every row `i`,
the signed number of vertical edges on that line that cross the row (upwards `+1`, downwards `-1`) is
`σ·(S[i][k-1] − S[i][k])` — a piece of the line is walked exactly where it separates a 1-cell from a 0-cell, upwards
when the 1-cell is on its left (`σ = 1`: counter-clockwise in `y`-up coordinates; `σ = −1`: clockwise).  (For a closed
axis-parallel loop the condition on the vertical pieces forces the one on the horizontal pieces.) -/

/-- `sum(f i for i in range(n))` over `Int`. -/
def sumInt : Nat → (Nat → Int) → Int
  | 0, _ => 0
  | n+1, f => sumInt n f + f n

/-- `sum(f i for i in range(n))` over the scalars, from `zero`. -/
def sumSc (zero : α) : Nat → (Nat → α) → α
  | 0, _ => zero
  | n+1, f => sumSc zero n f + f n

/-- the cyclic edge `vertices[i] → vertices[(i+1) % n]` (the pair `p1, p2` of `is_point_inside_polygon`). -/
def edgeAt (vs : List (α × α)) (i : Nat) : Option ((α × α) × (α × α)) :=
  match vs[i]?, vs[(i + 1) % vs.length]? with
  | some p1, some p2 => some (p1, p2)
  | _, _ => none

/-- all cyclic edges, in order. -/
def cycEdges (vs : List (α × α)) : List ((α × α) × (α × α)) := (List.range vs.length).filterMap (edgeAt vs)

/-- every edge is horizontal or vertical. -/
def rectilinear (vs : List (α × α)) : Bool :=
  (cycEdges vs).all fun e => decide (e.1.1 = e.2.1) || decide (e.1.2 = e.2.2)

/-- the half-open crossing test of `is_point_inside_polygon`: `p1.y <= y < p2.y or p2.y <= y < p1.y`. -/
def spansY (e : (α × α) × (α × α)) (y : α) : Bool :=
  decide ((e.1.2 ≤ y ∧ y < e.2.2) ∨ (e.2.2 ≤ y ∧ y < e.1.2))

/-- `+1` for a vertical edge on the line `x` walking upwards across the ordinate `y`, `-1` downwards, else `0`. -/
def edgeSign (x y : α) (e : (α × α) × (α × α)) : Int :=
  if e.1.1 = x ∧ e.2.1 = x then
    (if e.1.2 ≤ y ∧ y < e.2.2 then 1 else if e.2.2 ≤ y ∧ y < e.1.2 then -1 else 0)
  else 0

/-- closed form of `is_point_inside_polygon` for an axis-parallel loop (`FV.C15.pip_closed_form`): the number of
vertical edges strictly to the right of the point whose half-open `y`-range contains the point's ordinate. -/
def rightCount (px py : α) (vs : List (α × α)) : Nat :=
  (cycEdges vs).countP fun e => decide (e.1.1 = e.2.1) && spansY e py && decide (px < e.1.1)

/-- signed number of vertical edges of the loop on the line `x` crossing the ordinate `y`. -/
def winding (x y : α) (vs : List (α × α)) : Int :=
  sumInt vs.length fun i => match edgeAt vs i with | some e => edgeSign x y e | none => 0

def b2i (b : Bool) : Int := if b then 1 else 0

/-- `S` has `nr` rows of `nc` cells. -/
def gridDims (S : Grid) (nr nc : Nat) : Bool := S.length == nr && S.all (fun r => r.length == nc)

/-- the vertical pieces of the loop are the vertical boundary pieces of the 1-cells of `S` on the coordinate lists
`xs` (ascending) / `ys` (descending), oriented by `σ`. -/
def isBoundaryOf (zero : α) (σ : Int) (S : Grid) (xs ys : List α) (vs : List (α × α)) : Bool :=
  (List.range (ys.length - 1)).all fun i =>
    (List.range xs.length).all fun k =>
      winding (xs.getD k zero) ((ys.getD (i + 1) zero + ys.getD i zero) / two) vs
        == σ * ((if k = 0 then 0 else b2i (cell S i (k - 1))) - b2i (cell S i k))

/-- the vertex list is an axis-parallel loop around the 1-cells of `S`, on the coordinate lists the pipeline itself
extracts from it. -/
def tracesGrid (zero : α) (σ : Int) (S : Grid) (vs : List (α × α)) : Bool :=
  let (xs, ys, _) := gridOfVertices vs
  rectilinear vs && gridDims S (ys.length - 1) (xs.length - 1) && isBoundaryOf zero σ S xs ys vs

/-- twice the signed (shoelace) area: `Σ x_i·y_{i+1} − x_{i+1}·y_i` over the cyclic edges. -/
def shoelace2 (zero : α) (vs : List (α × α)) : α :=
  sumSc zero vs.length fun i => match edgeAt vs i with
    | some e => e.1.1 * e.2.2 - e.2.1 * e.1.2
    | none => zero

end Coords

end FV.Strop

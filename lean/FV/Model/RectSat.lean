import FV.Model.RectSearch
import FV.Model.Sat
/-
  The part of `tools/rect/rect.py: solve` that talks to the SAT layer, on top of the SAT-layer model of property C07
  (`FV/Model/Sat.lean`): the variable names handed to `sm.newvar(name, "")`, the expressions `selarea`, `realarea`,
  `obj` as `solve` builds them with the `Expr` algebra, and the RETURN VALUE of `solve` (rect.py:235-281) computed from
  what `sm.solve()`, `sm.value(...)`, `sm.evalexpr(...)` return.  Core Lean only (the driver executes it).
-/
namespace FV.RectSat
open FV FV.PB

variable {α : Type} (nm : RectSearch.Var α → String)

def trVar (v : RectSearch.Var α) : Sat.Var := .user (nm v)
def trLit (l : RectSearch.Lit α) : Sat.Lit := ⟨trVar nm l.v, l.s⟩

/-- `Expr() + l₁ + … + lₙ` -/
def sumLits (ls : List Sat.Lit) : Expr Sat.Var := ls.foldl (fun e l => e.add (.lit l)) ⟨0, []⟩
/-- `Expr() + l₁ * c₁ + … + lₙ * cₙ` -/
def linExpr (ts : List (Int × Sat.Lit)) : Expr Sat.Var :=
  ts.foldl (fun e t => e.add (.term (t.2.mul (.int t.1)))) ⟨0, []⟩
/-- `e >= k`, i.e. `Expr.__ge__`: `Ineq(e, Expr() + k, ">=")` -/
def geIneq (e : Expr Sat.Var) (k : Int) : Ineq Sat.Var := Ineq.make e ((⟨0, []⟩ : Expr Sat.Var).add (.num (.int k))) .ge

/-- `selarea` / `realarea`: `Expr() + b_0 * int(area 0) + b_1 * int(area 1) + …` -/
def areaExpr (P : RectSearch.Problem α) (A : List Int) : Expr Sat.Var :=
  linExpr (P.C.blocks.map fun b => (A.getD b 0, (⟨trVar nm (.sel b), true⟩ : Sat.Lit)))

/-- `obj = ratio * selarea - realarea` (rect.py:212; `ratio * selarea` is `Expr.__rmul__`, which applies `int()`) -/
def objExpr (P : RectSearch.Problem α) (ratio : Int) : Expr Sat.Var :=
  ((areaExpr nm P P.selA).mul (.int ratio)).sub (.expr (areaExpr nm P P.realA))

/-- `obj >= dif[0]` -/
def objIneq (P : RectSearch.Problem α) (ratio dif0 : Int) : Ineq Sat.Var := geIneq (objExpr nm P ratio) dif0

/-! ### the variable names of `rect.py` -/
def dirName : RectSearch.Dir → String
  | .north => "north" | .south => "south" | .east => "east" | .west => "west"

/-- the names `enforce_bb` / `solve` hand to `sm.newvar(name, "")`; `str` is Python's `str` on coordinates -/
def pyName (str : α → String) : RectSearch.Var α → String
  | .sel b => "b_" ++ toString b
  | .cell i b => "b" ++ toString i ++ "_" ++ toString b
  | .lilx i x => "b" ++ toString i ++ "_x_" ++ str x
  | .bigx i x => "b" ++ toString i ++ "_X_" ++ str x
  | .lily i y => "b" ++ toString i ++ "_y_" ++ str y
  | .bigy i y => "b" ++ toString i ++ "_Y_" ++ str y
  | .dir i d => "b" ++ toString i ++ "_" ++ dirName d

/-! ### the value `solve` returns (rect.py:235-281, min-error mode) -/
variable [DecidableEq α] [LT α] [DecidableLT α]

/-- rect.py:256-270 for box `i`: the bounding box of the cells `b` with `sm.value(sm.newvar("b<i>_<b>", "")) == 1`
    (`none` stands for the initial `(inf, inf, -inf, -inf)`) -/
def bboxFromMgr (m : Sat.Mgr) (C : RectSearch.Coords α) (ip : List (RectSearch.Cell α)) (i : Nat) :
    Option (RectSearch.Box α) :=
  (RectSearch.cellsOf C ip).foldl
    (fun acc bc => if m.value ⟨trVar nm (.cell i bc.1), true⟩ = some 1 then RectSearch.growBox acc bc.2 else acc) none

inductive SolveRet (α : Type)
  | insat                                                              -- `return (0, 1), [], 0`
  | found (cost : Int) (rects : List (Option (RectSearch.Box α)))      -- `return (int(o + 1), 1), rects, quality`
  | raised                                                             -- `raise Exception("No solution!!!")`
deriving Repr

/-- what `solve` returns, from what the SAT layer answers: `sat` is the value of `sm.solve()`, `m` the manager after it.
    `evalexpr` returning `None` (a variable without a value) leads to `Exception("No solution!!!")`. -/
def solveReturn (P : RectSearch.Problem α) (ratio : Int) (k : Nat) (sat : Bool) (m : Sat.Mgr) : SolveRet α :=
  if sat = false then .insat
  else
    match m.evalExpr (areaExpr nm P P.selA), m.evalExpr (areaExpr nm P P.realA) with
    | some _, some _ =>
      match m.evalExpr (objExpr nm P ratio) with
      | some o => .found (o + 1) ((List.range k).map fun i => bboxFromMgr nm m P.C P.ip i)
      | none => .raised
    | _, _ => .raised

end FV.RectSat

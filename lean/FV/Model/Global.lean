import FV.Model.Geom
/-
  Process-wide state of the FRAME library that survives between operations (property C20).

  `Rectangle._distance_epsilon / _area_epsilon` (frame/geometry/geometry.py) are class attributes:
  undefined (-1) at start, set by the FIRST design that is loaded
    * `Netlist._create_rectangles`:  `if not epsilon_defined(): set_epsilon(smallest * 1e-12)`
    * `Die.__init__`:                `if not epsilon_defined(): set_epsilon(min(w, h) * 10e-12)`
    * `Allocation.__init__`:         `if not epsilon_defined(): set_epsilon(1e-12 * min(bb.w, bb.h))`
  and read by every tolerance-dependent operation afterwards.  The model threads that state explicitly.
-/
namespace FV.Proc

structure Eps (α : Type) where
  dist : α
  area : α
  deriving Repr

/-- `none` = undefined (the `-1` sentinel). -/
abbrev GEps (α : Type) := Option (Eps α)

variable {α : Type}

/-- `Rectangle.set_epsilon(d)` (area tolerance defaults to `sqrt d`; `sqrt` is libm, a parameter). -/
def setEps (sqrt : α → α) (d : α) : GEps α := some ⟨d, sqrt d⟩

/-- the guarded `if not Rectangle.epsilon_defined(): Rectangle.set_epsilon(d)`. -/
def ensureEps (sqrt : α → α) (g : GEps α) (d : α) : GEps α :=
  match g with
  | some e => some e
  | none => setEps sqrt d

/-- an operation as far as the tolerance state is concerned: the tolerance its design proposes, and what it
    computes from the tolerance in force. -/
structure EpsOp (α β : Type) where
  proposal : α
  body : Eps α → β

/-- run an operation: guard, then compute with the tolerance now in force. -/
def EpsOp.run {β : Type} (sqrt : α → α) (op : EpsOp α β) (g : GEps α) : GEps α × β :=
  match ensureEps sqrt g op.proposal with
  | some e => (some e, op.body e)
  | none => (none, op.body ⟨op.proposal, sqrt op.proposal⟩)   -- unreachable: `ensureEps` always defines

/-- state after a history of operations (only their proposals matter: bodies never write the state). -/
def runHistory (sqrt : α → α) (g : GEps α) (hist : List α) : GEps α :=
  hist.foldl (ensureEps sqrt) g

variable [Mul α] [LT α] [DecidableLT α]

/-- tolerance proposed by a die of size `w × h` (`k` = the literal `10e-12`). -/
def dieProposal (k w h : α) : α := pyMin w h * k
/-- tolerance proposed by an allocation whose bounding box is `w × h` (`k` = the literal `1e-12`). -/
def allocProposal (k w h : α) : α := k * pyMin w h
/-- tolerance proposed by a netlist: `min` over rectangle sides and `sqrt(area)` of modules, times `1e-12`;
    `dims` lists those numbers in the order Python visits them, starting from `inf`.  A netlist with no such number
    (terminals only) proposes nothing — since /repo 750ac5a the guarded `set_epsilon` is skipped when the minimum is
    still `math.inf` — and is then simply absent from the history of proposals (`runHistory`). -/
def netlistProposal (k inf : α) (dims : List α) : α := dims.foldl pyMin inf * k

end FV.Proc

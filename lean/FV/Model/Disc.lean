import FV.Model.Scalar
/-
  Executable model of `circle_circle_intersection_area` (tools/force/fruchterman_reingold.py), as repaired
  by `fixes/C17_acos_clamp.diff` (quotients clamped into [-1, 1] before `math.acos`, result clamped into
  `[0, area of the smaller disc]`) and `fixes/C17_underflow_scale.diff` (lengths taken relative to the larger
  radius; a divisor that still rounds to zero returns the area of the smaller disc).

  The function is generic in a record `Fns` of the library functions it calls (`x ** 2`, `x ** (1/2)`,
  `math.acos`, `math.sin`, `math.pi`).  The partial ones return `Except`: Python's `math.acos` raises
  `ValueError` outside [-1, 1]; `x ** (1/2)` of a negative float is a complex number, on which the next
  comparison raises `TypeError`; float division by zero raises `ZeroDivisionError`.
  Executed at `Float` with the C library functions (the ones CPython calls); proved at `ℝ`.
-/
namespace FV.Disc

inductive PyErr | valueError | zeroDivision | typeError
  deriving DecidableEq, Repr

def PyErr.toStr : PyErr → String
  | .valueError => "ValueError" | .zeroDivision => "ZeroDivisionError" | .typeError => "TypeError"

/-- the library functions used by the code. -/
structure Fns (α : Type) where
  /-- `x ** 2` -/
  sq : α → α
  /-- `x ** (1 / 2)` (`Point.norm`) -/
  root : α → Except PyErr α
  /-- `math.acos` -/
  acos : α → Except PyErr α
  /-- `math.sin` -/
  sin : α → α
  /-- `math.pi` -/
  pi : α

variable {α : Type} [Add α] [Sub α] [Mul α] [Div α] [Neg α] [LT α] [LE α]
  [DecidableLT α] [DecidableLE α] [NatCast α]

@[inline] def zero : α := ((0 : Nat) : α)
@[inline] def one : α := ((1 : Nat) : α)
@[inline] def two : α := ((2 : Nat) : α)
@[inline] def negOne : α := -(one : α)

/-- `abs(x)` -/
@[inline] def pyAbs (x : α) : α := if x < zero then -x else x

/-- float `/` : `ZeroDivisionError` on a zero divisor. -/
@[inline] def pyDiv (a b : α) : Except PyErr α :=
  if b ≤ zero ∧ zero ≤ b then .error .zeroDivision else .ok (a / b)

/-- `max(-1.0, min(1.0, q))` -/
@[inline] def clamp (q : α) : α := pyMax negOne (pyMin one q)

/-- `(c1 - c2).norm()`:  `Point(x1 + -x2, y1 + -y2)`, then `(x**2 + y**2)**(1/2)`. -/
def dist (F : Fns α) (x1 y1 x2 y2 : α) : Except PyErr α :=
  F.root (F.sq (x1 + -x2) + F.sq (y1 + -y2))

/-- `math.pi * min(r1, r2)**2` -/
def small (F : Fns α) (r1 r2 : α) : α := F.pi * F.sq (pyMin r1 r2)

/-- `x == 0` on floats (true for `±0.0`, false for NaN). -/
@[inline] def isZero (x : α) : Prop := x ≤ zero ∧ zero ≤ x

instance (x : α) : Decidable (isZero x) := by unfold isZero; infer_instance

/-- quotient `(a**2 + e**2 - b**2) / (2 * a * e)` (cosine of the angle at the first centre). -/
def quot (F : Fns α) (a b e : α) : Except PyErr α :=
  pyDiv (F.sq a + F.sq e - F.sq b) (two * a * e)

/-- `a**2 * alpha + b**2 * beta - e * a * math.sin(alpha)` -/
def lensRaw (F : Fns α) (a b e al be : α) : α :=
  F.sq a * al + F.sq b * be - e * a * F.sin al

/-- the body of the function once `d` is known. -/
def areaD (F : Fns α) (r1 r2 d : α) : Except PyErr α :=
  if r1 + r2 < d then .ok zero                       -- `if d > r1 + r2: return 0`
  else
    let sm := small F r1 r2
    if d ≤ pyAbs (r1 - r2) then .ok sm               -- `if d <= abs(r1 - r2): return small`
    else do
      let s := pyMax r1 r2                           -- lengths relative to the larger radius
      let a ← pyDiv r1 s
      let b ← pyDiv r2 s
      let e ← pyDiv d s
      if isZero (two * a * e) ∨ isZero (two * b * e) then .ok sm   -- `if den1 == 0 or den2 == 0: return small`
      else do
        let q1 ← quot F a b e
        let al ← F.acos (clamp q1)
        let q2 ← quot F b a e
        let be ← F.acos (clamp q2)
        .ok (pyMin sm (pyMax zero (lensRaw F a b e al be * s * s)))

/-- `circle_circle_intersection_area(Point(x1, y1), r1, Point(x2, y2), r2)` -/
def area (F : Fns α) (x1 y1 r1 x2 y2 r2 : α) : Except PyErr α := do
  let d ← dist F x1 y1 x2 y2
  areaD F r1 r2 d

/-- the C library at `Float` (what CPython calls for `**`, `math.acos`, `math.sin`). -/
def floatFns : Fns Float where
  sq x := Float.pow x 2.0
  root x := if x < 0.0 then .error .typeError else .ok (Float.pow x 0.5)
  acos x := if x < -1.0 ∨ 1.0 < x then .error .valueError else .ok (Float.acos x)
  sin := Float.sin
  pi := 3.141592653589793

end FV.Disc

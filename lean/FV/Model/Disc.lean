import FV.Model.Scalar
/-
  Executable model of `circle_circle_intersection_area` (tools/force/fruchterman_reingold.py), as repaired
  by `fixes/C17_acos_clamp.diff` (quotients clamped into [-1, 1] before `math.acos`, result clamped into
  `[0, area of the smaller disc]`), `fixes/C17_underflow_scale.diff` (lengths taken relative to the larger
  radius; a divisor that still rounds to zero returns the area of the smaller disc),
  `fixes/C17_near_equal_radii.diff` (numerators of the two quotients with the difference of squares factored:
  `(a - b) * (a + b) + e**2`) and `fixes/C17_far_overflow.diff` (centre distance by `math.hypot` on the coordinate
  differences instead of `Point.norm`, whose squares overflow).

  The function is generic in a record `Fns` of the library functions it calls (`x ** 2`, `math.hypot`,
  `math.acos`, `math.sin`, `math.pi`).  The partial one returns `Except`: Python's `math.acos` raises
  `ValueError` outside [-1, 1]; float division by zero raises `ZeroDivisionError`.  `math.hypot` of two floats
  never raises (it returns `inf` when the result is not a double).
  Executed at `Float` with the C library functions (the ones CPython calls) and a transcription of CPython 3.12's
  `math.hypot` (`pyHypot`, which is plain double arithmetic + `sqrt`); proved at `ℝ`.
-/
namespace FV.Disc

inductive PyErr | valueError | zeroDivision
  deriving DecidableEq, Repr

def PyErr.toStr : PyErr → String
  | .valueError => "ValueError" | .zeroDivision => "ZeroDivisionError"

/-- the library functions used by the code. -/
structure Fns (α : Type) where
  /-- `x ** 2` -/
  sq : α → α
  /-- `math.hypot(x, y)` -/
  hypot : α → α → α
  /-- `math.acos` -/
  acos : α → Except PyErr α
  /-- `math.sin` -/
  sin : α → α
  /-- `math.pi` -/
  pi : α

variable {α : Type} [Add α] [Sub α] [Mul α] [Div α] [Neg α] [LT α] [LE α]
  [DecidableLT α] [DecidableLE α] [NatCast α]

@[inline] def zero : α := ((0 : Nat) : α)
@[inline] def one : α := ((1 : Nat) : α)
@[inline] def two : α := ((2 : Nat) : α)
@[inline] def negOne : α := -(one : α)

/-- `abs(x)` -/
@[inline] def pyAbs (x : α) : α := if x < zero then -x else x

/-- float `/` : `ZeroDivisionError` on a zero divisor. -/
@[inline] def pyDiv (a b : α) : Except PyErr α :=
  if b ≤ zero ∧ zero ≤ b then .error .zeroDivision else .ok (a / b)

/-- `max(-1.0, min(1.0, q))` -/
@[inline] def clamp (q : α) : α := pyMax negOne (pyMin one q)

/-- `math.hypot(c1.x - c2.x, c1.y - c2.y)` (never raises; `Except` only for the `do` block of `area`). -/
def dist (F : Fns α) (x1 y1 x2 y2 : α) : Except PyErr α :=
  .ok (F.hypot (x1 - x2) (y1 - y2))

/-- `math.pi * min(r1, r2)**2` -/
def small (F : Fns α) (r1 r2 : α) : α := F.pi * F.sq (pyMin r1 r2)

/-- `x == 0` on floats (true for `±0.0`, false for NaN). -/
@[inline] def isZero (x : α) : Prop := x ≤ zero ∧ zero ≤ x

instance (x : α) : Decidable (isZero x) := by unfold isZero; infer_instance

/-- quotient `((a - b) * (a + b) + e**2) / (2 * a * e)` (cosine of the angle at the first centre; the numerator
    is `a² + e² - b²` with the difference of the squares factored). -/
def quot (F : Fns α) (a b e : α) : Except PyErr α :=
  pyDiv ((a - b) * (a + b) + F.sq e) (two * a * e)

/-- `a**2 * alpha + b**2 * beta - e * a * math.sin(alpha)` -/
def lensRaw (F : Fns α) (a b e al be : α) : α :=
  F.sq a * al + F.sq b * be - e * a * F.sin al

/-- the body of the function once `d` is known. -/
def areaD (F : Fns α) (r1 r2 d : α) : Except PyErr α :=
  if r1 + r2 < d then .ok zero                       -- `if d > r1 + r2: return 0`
  else
    let sm := small F r1 r2
    if d ≤ pyAbs (r1 - r2) then .ok sm               -- `if d <= abs(r1 - r2): return small`
    else do
      let s := pyMax r1 r2                           -- lengths relative to the larger radius
      let a ← pyDiv r1 s
      let b ← pyDiv r2 s
      let e ← pyDiv d s
      if isZero (two * a * e) ∨ isZero (two * b * e) then .ok sm   -- `if den1 == 0 or den2 == 0: return small`
      else do
        let q1 ← quot F a b e
        let al ← F.acos (clamp q1)
        let q2 ← quot F b a e
        let be ← F.acos (clamp q2)
        .ok (pyMin sm (pyMax zero (lensRaw F a b e al be * s * s)))

/-- `circle_circle_intersection_area(Point(x1, y1), r1, Point(x2, y2), r2)` -/
def area (F : Fns α) (x1 y1 r1 x2 y2 r2 : α) : Except PyErr α := do
  let d ← dist F x1 y1 x2 y2
  areaD F r1 r2 d

/-! ### `math.hypot` of CPython 3.12 at `Float`

  `math_hypot` (Modules/mathmodule.c) takes the absolute values, their maximum (ignoring NaN) and calls
  `vector_norm`: the coordinates are scaled by a power of two so that the largest is in [0.5, 1), each square is
  accumulated exactly (Veltkamp split `x = hi + lo`, the three partial products added to `csum` starting at 1.0
  with the rounding errors collected in `frac1..3`), followed by one Newton correction of the square root.
  Everything is `+ - * /`, `sqrt`, `frexp`, `ldexp` on doubles, transcribed statement by statement. -/

/-- `oldcsum = csum; csum += x; frac += (oldcsum - csum) + x` -/
@[inline] def hypAcc (csum frac x : Float) : Float × Float :=
  let csum' := csum + x
  (csum', frac + ((csum - csum') + x))

/-- Veltkamp split: `t = x * T27; hi = t - (t - x); lo = x - hi`. -/
@[inline] def hypSplit (x : Float) : Float × Float :=
  let t := x * 134217729.0
  let hi := t - (t - x)
  (hi, x - hi)

/-- one iteration of the loop of `vector_norm` on the coordinate `x` (already absolute). -/
def hypStep (scale : Float) (st : Float × Float × Float × Float) (x : Float) : Float × Float × Float × Float :=
  let (csum, frac1, frac2, frac3) := st
  let (hi, lo) := hypSplit (x * scale)
  let (csum, frac1) := hypAcc csum frac1 (hi * hi)
  let (csum, frac2) := hypAcc csum frac2 (2.0 * hi * lo)
  (csum, frac1, frac2, frac3 + lo * lo)

/-- `vector_norm(2, [x, y], max, 0)` for a finite non-zero `max` whose `frexp` exponent is at least -1023. -/
def hypNorm (x y mx : Float) : Float :=
  let scale := Float.scaleB 1.0 (-(Float.frExp mx).2)
  let (csum, frac1, frac2, frac3) := hypStep scale (hypStep scale (1.0, 0.0, 0.0, 0.0) x) y
  let h := Float.sqrt (csum - 1.0 + (frac1 + frac2 + frac3))
  let (hi, lo) := hypSplit h
  let (csum, frac1) := hypAcc csum frac1 (-hi * hi)
  let (csum, frac2) := hypAcc csum frac2 (-2.0 * hi * lo)
  let (csum, frac3) := hypAcc csum frac3 (-lo * lo)
  let c := csum - 1.0 + (frac1 + frac2 + frac3)
  (h + c / (2.0 * h)) / scale

/-- `DBL_MIN` = 2⁻¹⁰²² -/
def dblMin : Float := Float.scaleB 1.0 (-1022)

/-- `math.hypot(x, y)` -/
def pyHypot (x y : Float) : Float :=
  let ax := Float.abs x
  let ay := Float.abs y
  let m0 : Float := if ax > 0.0 then ax else 0.0        -- `if (x > max) max = x`, `max` initially 0.0
  let mx := if ay > m0 then ay else m0
  if mx.isInf then mx
  else if ax.isNaN || ay.isNaN then ax + ay              -- NaN
  else if mx == 0.0 then mx
  else if (Float.frExp mx).2 < -1023 then                -- `ldexp(1.0, -max_e)` would overflow:
    dblMin * hypNorm (ax / dblMin) (ay / dblMin) (mx / dblMin)   -- subnormals are made normal first
  else hypNorm ax ay mx

/-- the C library at `Float` (what CPython calls for `**`, `math.acos`, `math.sin`) and CPython's `math.hypot`. -/
def floatFns : Fns Float where
  sq x := Float.pow x 2.0
  hypot := pyHypot
  acos x := if x < -1.0 ∨ 1.0 < x then .error .valueError else .ok (Float.acos x)
  sin := Float.sin
  pi := 3.141592653589793

end FV.Disc

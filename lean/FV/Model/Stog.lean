import FV.Model.Geom
/-
  Executable model of `Rectangle.find_location` and `create_stog` (frame/geometry/geometry.py), i.e. of what
  `Module.create_stog` / `Netlist` loading run on the rectangles of a module (property C06).

  The class-wide tolerances `Rectangle.distance_epsilon()` / `Rectangle.area_epsilon()` are explicit
  parameters `ε` / `εA`.  A Python list of distinct `Rectangle` objects is a Lean list; the identity of an
  object is its position in the list (assumption: the list does not contain the same object twice).

  `create_stog` is modelled as repaired by `fixes/C06_trunk_identity.diff`: the candidate trunk is skipped
  by identity (`r is trunk`), not by value equality.
-/
namespace FV
namespace Stog

variable {α : Type} [Add α] [Sub α] [Mul α] [Div α] [Neg α] [LT α] [LE α]
  [DecidableLT α] [DecidableLE α] [NatCast α] [DecidableEq α]

/-- Python's `abs`. -/
@[inline] def pyAbs (x : α) : α := if x < Rect.zero then -x else x

/-- `utils.almost_eq(v1, v2, epsilon)`: `abs(v1 - v2) < epsilon`. -/
@[inline] def almostEq (v1 v2 ε : α) : Bool := decide (pyAbs (v1 - v2) < ε)

/-- `Rectangle.find_location(self, r)`; `self` is the candidate trunk `t`. -/
def findLocation (ε εA : α) (t r : Rect α) : Loc :=
  -- If they overlap, it cannot be a branch
  if εA < t.areaOverlap r then .nopoly else
  -- Let us first find the common side and then check the interval
  let loc : Loc :=
    if almostEq t.ymax r.ymin ε then .north
    else if almostEq t.ymin r.ymax ε then .south
    else if almostEq t.xmax r.xmin ε then .east
    else if almostEq t.xmin r.xmax ε then .west
    else .nopoly
  match loc with
  | .nopoly => .nopoly
  | .trunk => .nopoly          -- unreachable
  | .north | .south =>
      if t.xmin - ε < r.xmin ∧ r.xmax < t.xmax + ε then loc else .nopoly
  | .east | .west =>
      if t.ymin - ε < r.ymin ∧ r.ymax < t.ymax + ε then loc else .nopoly

/-- the `all(r is trunk or trunk.find_location(r) != NO_POLYGON for r in rectangles)` test for the
    candidate at position `i`. -/
def validTrunk (ε εA : α) (rs : List (Rect α)) (i : Nat) (trunk : Rect α) : Bool :=
  rs.zipIdx.all fun (r, j) => j == i || findLocation ε εA trunk r != .nopoly

/-- the candidate loop `for i, trunk in enumerate(rectangles)`.  `best` is `best_trunk` together with
    `rectangles[best_trunk]` (`none` ⇔ `best_trunk = -1`).  Returning without recursion is the `break`. -/
def scan (ε εA : α) (rs : List (Rect α)) : List (Rect α × Nat) → Option (Nat × Rect α) → Option (Nat × Rect α)
  | [], best => best
  | (trunk, i) :: rest, best =>
    let brk : Bool := match best with
      | some (_, b) => decide (trunk.area ≤ b.area)
      | none => false
    if brk then best
    else if validTrunk ε εA rs i trunk then scan ε εA rs rest (some (i, trunk))
    else scan ε εA rs rest best

/-- `create_stog(rectangles)`: `none` models the failing `assert len(rectangles) > 0`; otherwise the returned
    Boolean and the list as it is left behind (order and `location` of every rectangle). -/
def createStog (ε εA : α) (rs : List (Rect α)) : Option (Bool × List (Rect α)) :=
  match rs with
  | [] => none
  | [r] => some (true, [{ r with loc := .trunk }])
  | r0 :: _ =>
    let rs := rs.map fun r => { r with loc := .nopoly }
    let r0 : Rect α := { r0 with loc := .nopoly }
    match scan ε εA rs rs.zipIdx none with
    | none => some (false, rs)
    | some (b, rb) =>
      -- rectangles[0], rectangles[best] = rectangles[best], rectangles[0]
      let rs := (rs.set 0 rb).set b r0
      match rs with
      | [] => none             -- unreachable
      | t :: others =>
        some (true, { t with loc := .trunk } :: others.map fun r => { r with loc := findLocation ε εA t r })

end Stog
end FV

/-
  Model of `tools/rect/pseudobool.py` (classes `Literal`, `Term`, `Expr`, `Ineq`) — properties C16 / C07.

  * `V` is the type of variable names (Python `str`); only decidable equality is used.
  * Python numbers that reach `int(...)` are `Num`: an `int`, or a finite `float` given as the exact
    rational `n/d`; `Num.toInt` is Python's `int()` (truncation toward zero).  `nan`/`inf` raise in
    `int()` and are outside the model.
  * `Expr.t` (an `OrderedDict` keyed by variable name whose value for key `v` is a `Term` on variable `v`)
    is an association list in insertion order; `dget` / `dset` / `ddel` are `d[k]`, `d[k] = x`, `del d[k]`.
  * `Expr.mul` and `Ineq.isClause` model the REPAIRED code (`fixes/C16_mul_constant.diff`,
    `fixes/C07_isclause_strict_zero.diff`).
  No Mathlib.
-/
namespace FV.PB

/-- a Python number operand -/
inductive Num where
  | int (z : Int)
  | flt (n : Int) (d : Nat)
  deriving DecidableEq, Repr

/-- Python `int(x)` -/
def Num.toInt : Num → Int
  | .int z => z
  | .flt n d => Int.tdiv n d

/-- Python unary minus on a number -/
def Num.neg : Num → Num
  | .int z => .int (-z)
  | .flt n d => .flt (-n) d

structure Literal (V : Type) where
  v : V
  s : Bool := true
  deriving DecidableEq, Repr

structure Term (V : Type) where
  L : Literal V
  c : Int
  deriving DecidableEq, Repr

structure Expr (V : Type) where
  c : Int := 0
  t : List (Term V) := []
  deriving DecidableEq, Repr

variable {V : Type} [DecidableEq V]

/-- `Literal.__neg__` -/
def Literal.neg (l : Literal V) : Literal V := ⟨l.v, !l.s⟩
/-- `Literal.__mul__` / `__rmul__`: `Term(self, other)`, the constructor applies `int()` -/
def Literal.mul (l : Literal V) (n : Num) : Term V := ⟨⟨l.v, l.s⟩, n.toInt⟩
/-- `Term.__mul__` / `__rmul__`: `Term(self.L, self.c * int(other))` -/
def Term.mul (t : Term V) (n : Num) : Term V := ⟨t.L, t.c * n.toInt⟩
/-- `Term.__neg__` -/
def Term.neg (t : Term V) : Term V := ⟨t.L, -t.c⟩

/-! ### ordered dictionary keyed by the variable of the term -/
def dget : List (Term V) → V → Option (Term V)
  | [], _ => none
  | y :: r, v => if y.L.v = v then some y else dget r v

/-- `d[v] = x` (an existing key keeps its position, a new key goes last) -/
def dset : List (Term V) → V → Term V → List (Term V)
  | [], _, x => [x]
  | y :: r, v, x => if y.L.v = v then x :: r else y :: dset r v x

/-- `del d[v]` -/
def ddel : List (Term V) → V → List (Term V)
  | [], _ => []
  | y :: r, v => if y.L.v = v then r else y :: ddel r v

/-- lines 136–139 of `Expr.__add__`: a negative coefficient is turned into a positive one on the opposite literal -/
def Expr.fixNeg (r : Expr V) (v : V) : Expr V :=
  match dget r.t v with
  | some cur => if cur.c < 0 then ⟨r.c + cur.c, dset r.t v ⟨⟨cur.L.v, !cur.L.s⟩, -cur.c⟩⟩ else r
  | none => r

/-- `Expr.__add__`, branch `isinstance(term, Term)` -/
def Expr.addTerm (e : Expr V) (tm : Term V) : Expr V :=
  if tm.c = 0 then e else
  let v := tm.L.v
  let r : Expr V :=
    match dget e.t v with
    | some old =>
      if tm.L.s = old.L.s then
        let c' := old.c + tm.c
        if c' = 0 then ⟨e.c, ddel e.t v⟩ else ⟨e.c, dset e.t v ⟨old.L, c'⟩⟩
      else
        let c' := old.c - tm.c
        if c' = 0 then ⟨e.c + tm.c, ddel e.t v⟩ else ⟨e.c + tm.c, dset e.t v ⟨old.L, c'⟩⟩
    | none => ⟨e.c, dset e.t v ⟨⟨tm.L.v, tm.L.s⟩, tm.c⟩⟩
  r.fixNeg v

/-- what may stand on the right of `Expr + …` / `Expr - …` (`AddTerm`) -/
inductive Operand (V : Type) where
  | str (v : V)
  | lit (l : Literal V)
  | term (t : Term V)
  | num (n : Num)
  | expr (e : Expr V)
  deriving Repr

/-- `Expr.__add__` -/
def Expr.add (e : Expr V) : Operand V → Expr V
  | .str v => e.addTerm ⟨⟨v, true⟩, 1⟩
  | .lit l => e.addTerm ⟨l, 1⟩
  | .term t => e.addTerm t
  | .num n => ⟨e.c + n.toInt, e.t⟩
  | .expr x => x.t.foldl Expr.addTerm ⟨e.c + x.c, e.t⟩

/-- `Expr.__sub__` -/
def Expr.sub (e : Expr V) : Operand V → Expr V
  | .str v => e.addTerm ⟨⟨v, true⟩, -1⟩
  | .lit l => e.addTerm ⟨l, -1⟩
  | .term t => e.addTerm ⟨t.L, -t.c⟩
  | .num n => ⟨e.c + (-n.toInt), e.t⟩
  | .expr x => x.t.foldl (fun acc t => acc.addTerm ⟨t.L, -t.c⟩) ⟨e.c + (-x.c), e.t⟩

/-- the loop of `Expr.__mul__`: returns what is added to the constant and the rewritten terms -/
def mulTerms (k : Int) : List (Term V) → Int × List (Term V)
  | [] => (0, [])
  | t :: r =>
    let c' := t.c * k
    let (a, ts) := mulTerms k r
    if c' < 0 then (c' + a, ⟨⟨t.L.v, !t.L.s⟩, -c'⟩ :: ts) else (a, ⟨t.L, c'⟩ :: ts)

/-- `Expr.__mul__` / `__rmul__` (REPAIRED: the constant is scaled too) -/
def Expr.mul (e : Expr V) (n : Num) : Expr V :=
  let k := n.toInt
  let (a, ts) := mulTerms k e.t
  ⟨e.c * k + a, ts.filter (fun t => t.c ≠ 0)⟩

/-! ### inequalities -/
inductive CmpOp where | ge | le | gt | lt | eq | eqeq
  deriving DecidableEq, Repr
/-- operator after normalisation -/
inductive NOp where | ge | gt | eq
  deriving DecidableEq, Repr

def parseOp : String → Option CmpOp
  | ">=" => some .ge | "<=" => some .le | ">" => some .gt | "<" => some .lt | "=" => some .eq | "==" => some .eqeq
  | _ => none

/-- `Ineq`: `lhs.c` is always `0` -/
structure Ineq (V : Type) where
  lhs : Expr V
  rhs : Int
  op : NOp
  deriving Repr

/-- `Ineq.__init__` -/
def Ineq.make (a b : Expr V) (o : CmpOp) : Ineq V :=
  let (l, r, op) : Expr V × Expr V × NOp :=
    match o with
    | .ge => (a, b, .ge) | .le => (b, a, .ge) | .gt => (a, b, .gt) | .lt => (b, a, .gt)
    | .eq => (a, b, .eq) | .eqeq => (a, b, .eq)
  let d := l.sub (.expr r)
  ⟨⟨0, d.t⟩, -d.c, op⟩

/-- `Ineq.__init__` with the operator as a string: `none` = `Exception("Invalid operator")` -/
def Ineq.makeStr (a b : Expr V) (o : String) : Option (Ineq V) := (parseOp o).map (Ineq.make a b)

/-- stable insertion used for `lst.sort(key=lambda x: -x.c)`: `x` goes before the first element with `c < x.c`,
    i.e. behind the elements with an equal key -/
def insDesc (x : Term V) : List (Term V) → List (Term V)
  | [] => [x]
  | y :: r => if y.c < x.c then x :: y :: r else y :: insDesc x r

/-- stable sort by decreasing coefficient (left fold, so equal keys keep their dictionary order) -/
def sortDesc (l : List (Term V)) : List (Term V) := l.foldl (fun acc x => insDesc x acc) []

inductive ClauseRes (V : Type) where
  | no
  | taut
  | clause (c : List (Literal V))
  deriving Repr

/-- second loop of `isclause`: `while i < len(lst) and s <= rhs: s += lst[i].c` -/
def accum (rhs : Int) : Int → List (Term V) → Int
  | s, [] => s
  | s, t :: r => if s ≤ rhs then accum rhs (s + t.c) r else s

def isBig (q : Ineq V) (t : Term V) : Bool := t.c > q.rhs || (t.c ≥ q.rhs && q.op = .ge)

/-- `list.sort()` on `Literal`s: `Literal.__lt__` returns an `Ineq` object, which is truthy, so every comparison
    answers "smaller" and CPython's run detection reverses the list. -/
def pySortLits (c : List (Literal V)) : List (Literal V) := c.reverse

/-- `Ineq.isclause` (REPAIRED: `> 0` is not a tautology); `taut` = returns `True` leaving `clause = None` -/
def Ineq.isClause (q : Ineq V) : ClauseRes V :=
  if q.op ≠ .ge ∧ q.op ≠ .gt then .no
  else if q.rhs < 0 ∨ (q.rhs = 0 ∧ q.op = .ge) then .taut
  else
    let lst := sortDesc q.lhs.t
    let big := lst.takeWhile (isBig q)
    let rest := lst.dropWhile (isBig q)
    let s := accum q.rhs 0 rest
    if s > q.rhs ∨ (s ≥ q.rhs ∧ q.op = .ge) then .no
    else .clause (pySortLits (big.map (·.L)))

/-! ### Python operator dispatch on expression trees -/
inductive Val (V : Type) where
  | str (v : V)
  | num (n : Num)
  | lit (l : Literal V)
  | term (t : Term V)
  | expr (e : Expr V)
  | ineq (q : Ineq V)
  | bool (b : Bool)             -- only ever produced by `Ineq == str/number` (default `object.__eq__`: `False`)
  deriving Repr

inductive Err where
  | typeError      -- Python `TypeError` (no such operator for the operand types)
  | exception      -- `Exception("Invalid type")` / `Exception("Invalid operator")`
  | unmodelled     -- combination outside the model (never generated)
  deriving DecidableEq, Repr

/-- the `AddTerm` view of a value -/
def Val.operand? : Val V → Option (Operand V)
  | .str v => some (.str v) | .num n => some (.num n) | .lit l => some (.lit l)
  | .term t => some (.term t) | .expr e => some (.expr e) | .ineq _ => none | .bool _ => none

/-- what `Expr.__add__` / `__sub__` raise for an operand that is not an `AddTerm`: `Exception("Invalid type")` for an
    `Ineq`; a `bool` IS an `int` for Python (it would be accepted) — `bool` operands are outside the model -/
def operandErr : Val V → Err
  | .bool _ => .unmodelled
  | _ => .exception

/-- `Expr() + x` (raises `Exception("Invalid type")` for anything else) -/
def exprOf (x : Val V) : Except Err (Expr V) :=
  match x.operand? with
  | some o => .ok ((⟨0, []⟩ : Expr V).add o)
  | none => .error (operandErr x)

def pyNeg : Val V → Except Err (Val V)
  | .lit l => .ok (.lit l.neg)
  | .term t => .ok (.term t.neg)
  | .num n => .ok (.num n.neg)
  | .bool _ => .error .unmodelled
  | _ => .error .typeError

/-- `~x`: no class of the module defines `__invert__`; on an `int` it is `-x - 1`, on a `float` a `TypeError` -/
def pyInv : Val V → Except Err (Val V)
  | .num (.int z) => .ok (.num (.int (-z - 1)))
  | .bool _ => .error .unmodelled
  | _ => .error .typeError

/-- unary `+x`: no class of the module defines `__pos__` -/
def pyPos : Val V → Except Err (Val V)
  | .num n => .ok (.num n)
  | .bool _ => .error .unmodelled
  | _ => .error .typeError

def pyMul : Val V → Val V → Except Err (Val V)
  | .lit l, .num n => .ok (.term (l.mul n))
  | .num n, .lit l => .ok (.term (l.mul n))
  | .term t, .num n => .ok (.term (t.mul n))
  | .num n, .term t => .ok (.term (t.mul n))
  | .expr e, .num n => .ok (.expr (e.mul n))
  | .num n, .expr e => .ok (.expr (e.mul n))
  | .expr _, .lit _ => .error .exception
  | .expr _, .term _ => .error .exception
  | .expr _, .expr _ => .error .exception
  | .lit _, .lit _ => .error .typeError
  | .lit _, .term _ => .error .typeError
  | .term _, .lit _ => .error .typeError
  | .term _, .term _ => .error .typeError
  -- `Term(self, other)` / `self.c * int(other)`: `int()` of an `Expr` / `Ineq` is a `TypeError`
  | .lit _, .expr _ => .error .typeError
  | .lit _, .ineq _ => .error .typeError
  | .term _, .expr _ => .error .typeError
  | .term _, .ineq _ => .error .typeError
  -- `Expr.__mul__` / `__rmul__` with anything but a number: `Exception("Invalid type")`
  | .expr _, .ineq _ => .error .exception
  | .expr _, .str _ => .error .exception
  | .str _, .expr _ => .error .exception
  | .ineq _, .expr _ => .error .exception        -- `Ineq` has no `__mul__`: `Expr.__rmul__(ineq)`
  -- `Ineq` has no `__mul__` / `__rmul__`; the reflected `Literal/Term.__rmul__(ineq)` ends in `int(ineq)`
  | .ineq _, .lit _ => .error .typeError
  | .ineq _, .term _ => .error .typeError
  | .ineq _, .num _ => .error .typeError
  | .ineq _, .str _ => .error .typeError
  | .ineq _, .ineq _ => .error .typeError
  | .num _, .ineq _ => .error .typeError
  | .str _, .ineq _ => .error .typeError
  -- `str * Literal`, `Literal * str`, … end in `int(name)` (depends on the characters of the name); builtin-only
  -- combinations (`str`/number with `str`/number) and `bool` operands are outside the model
  | _, _ => .error .unmodelled

/-- `Expr() + a + b` for `a` a literal or a term (`__add__` and `__radd__` both put `self` first) -/
def addLT (a : Operand V) (b : Val V) : Except Err (Val V) :=
  match b.operand? with
  | some o => .ok (.expr (((⟨0, []⟩ : Expr V).add a).add o))
  | none => .error (operandErr b)

/-- `int + int`; anything involving a `float` is float arithmetic, outside the model -/
def numAdd : Num → Num → Except Err (Val V)
  | .int a, .int b => .ok (.num (.int (a + b)))
  | _, _ => .error .unmodelled

def pyAdd : Val V → Val V → Except Err (Val V)
  | .lit l, b => addLT (.lit l) b
  | .term t, b => addLT (.term t) b
  | .expr e, b => match b.operand? with
      | some o => .ok (.expr (e.add o))
      | none => .error (operandErr b)
  | .num n, .lit l => addLT (.lit l) (.num n)
  | .num n, .term t => addLT (.term t) (.num n)
  | .str s, .lit l => addLT (.lit l) (.str s)
  | .str s, .term t => addLT (.term t) (.str s)
  | .num _, .expr _ => .error .typeError
  | .str _, .expr _ => .error .typeError
  -- `int + int` (the first steps of `sum()` over leading integers); float arithmetic is outside the model
  | .num a, .num b => numAdd a b
  | .num _, .str _ => .error .typeError          -- `int + str` (e.g. `sum()` reaching a `str` first)
  | .str _, .num _ => .error .typeError
  -- `Ineq` has no `__add__` / `__radd__`; `Literal/Term.__radd__(ineq)` is `Expr() + self + ineq`; `Expr` has no `__radd__`
  | .ineq _, .lit _ => .error .exception
  | .ineq _, .term _ => .error .exception
  | .ineq _, .expr _ => .error .typeError
  | .ineq _, .num _ => .error .typeError
  | .ineq _, .str _ => .error .typeError
  | .ineq _, .ineq _ => .error .typeError
  | .num _, .ineq _ => .error .typeError
  | .str _, .ineq _ => .error .typeError
  | _, _ => .error .unmodelled

def pySub : Val V → Val V → Except Err (Val V)
  | .expr e, b => match b.operand? with
      | some o => .ok (.expr (e.sub o))
      | none => .error (operandErr b)
  | .lit _, _ => .error .typeError
  | .term _, _ => .error .typeError
  | .num _, .expr _ => .error .typeError
  | .num _, .lit _ => .error .typeError
  | .num _, .term _ => .error .typeError
  | .num _, .str _ => .error .typeError
  | .str _, .num _ => .error .typeError
  | .str _, .str _ => .error .typeError
  -- only `Expr` defines `__sub__`, nothing defines `__rsub__`
  | .str _, .lit _ => .error .typeError
  | .str _, .term _ => .error .typeError
  | .str _, .expr _ => .error .typeError
  | .ineq _, .lit _ => .error .typeError
  | .ineq _, .term _ => .error .typeError
  | .ineq _, .expr _ => .error .typeError
  | .ineq _, .num _ => .error .typeError
  | .ineq _, .str _ => .error .typeError
  | .ineq _, .ineq _ => .error .typeError
  | .num _, .ineq _ => .error .typeError
  | .str _, .ineq _ => .error .typeError
  | _, _ => .error .unmodelled

/-- the reflected operator Python tries when the left operand does not implement the comparison -/
def CmpOp.swap : CmpOp → CmpOp
  | .ge => .le | .le => .ge | .gt => .lt | .lt => .gt | .eq => .eq | .eqeq => .eqeq

/-- `Ineq(ea, Expr() + b, ⋈)` -/
def cmpPB (o : CmpOp) (ea : Expr V) (b : Val V) : Except Err (Val V) := do
  let eb ← exprOf b
  pure (.ineq (Ineq.make ea eb o))

/-- `Expr() + self` for a literal / a term -/
def exprOfLit (l : Literal V) : Expr V := (⟨0, []⟩ : Expr V).add (.lit l)
def exprOfTerm (t : Term V) : Expr V := (⟨0, []⟩ : Expr V).add (.term t)

/-- the comparison operators (`==` builds an `Ineq` with operator "=") -/
def pyCmp (o : CmpOp) : Val V → Val V → Except Err (Val V)
  | .lit l, b => cmpPB o (exprOfLit l) b
  | .term t, b => cmpPB o (exprOfTerm t) b
  | .expr e, b => cmpPB o e b
  | .num n, .lit l => cmpPB o.swap (exprOfLit l) (.num n)
  | .num n, .term t => cmpPB o.swap (exprOfTerm t) (.num n)
  | .num n, .expr e => cmpPB o.swap e (.num n)
  | .str s, .lit l => cmpPB o.swap (exprOfLit l) (.str s)
  | .str s, .term t => cmpPB o.swap (exprOfTerm t) (.str s)
  | .str s, .expr e => cmpPB o.swap e (.str s)
  -- `Ineq` defines no comparison: Python tries the reflected operator of the right operand, which for a
  -- `Literal` / `Term` / `Expr` is `… (Expr() + ineq)` → `Exception("Invalid type")`
  | .ineq _, .lit _ => .error .exception
  | .ineq _, .term _ => .error .exception
  | .ineq _, .expr _ => .error .exception
  -- against a `str` / number: ordering is a `TypeError`, `==` falls back to identity (`False`)
  | .ineq _, .num _ => if o = .eq ∨ o = .eqeq then .ok (.bool false) else .error .typeError
  | .ineq _, .str _ => if o = .eq ∨ o = .eqeq then .ok (.bool false) else .error .typeError
  | .num _, .ineq _ => if o = .eq ∨ o = .eqeq then .ok (.bool false) else .error .typeError
  | .str _, .ineq _ => if o = .eq ∨ o = .eqeq then .ok (.bool false) else .error .typeError
  -- `ineq ⋈ ineq`: ordering is a `TypeError`; `==` is object identity, which a value model cannot decide
  | .ineq _, .ineq _ => if o = .eq ∨ o = .eqeq then .error .unmodelled else .error .typeError
  | _, _ => .error .unmodelled

/-- `Ineq.__init__` after the operator has been normalised, for a left side that is an `Expr` and any right operand
    `Expr.__sub__` accepts: `self.lhs = lhs - rhs; self.rhs = -self.lhs.c; self.lhs.c = 0` -/
def Ineq.makeOp (l : Expr V) (x : Operand V) (op : NOp) : Ineq V :=
  let d := l.sub x
  ⟨⟨0, d.t⟩, -d.c, op⟩

/-- normalised operator and whether the two sides are swapped -/
def CmpOp.norm : CmpOp → NOp × Bool
  | .ge => (.ge, false) | .le => (.ge, true) | .gt => (.gt, false) | .lt => (.gt, true)
  | .eq => (.eq, false) | .eqeq => (.eq, false)

/-- direct constructor call `Ineq(a, b, "op")`.  The operator string is checked first; then `lhs - rhs` is evaluated
    on the (possibly swapped) arguments: only an `Expr` on the left supports it (`Literal` / `Term` / `Ineq` / `str`
    have no `__sub__` and nothing has `__rsub__`: `TypeError`); number − number is an `int` without `.c`
    (`AttributeError`, outside the model). -/
def pyIneq (o : String) (a b : Val V) : Except Err (Val V) :=
  match parseOp o with
  | none => .error .exception
  | some c =>
    let (op, sw) := c.norm
    let (l, r) := if sw then (b, a) else (a, b)
    match l, r with
    | .bool _, _ => .error .unmodelled
    | _, .bool _ => .error .unmodelled
    | .expr e, r => match r.operand? with
        | some x => .ok (.ineq (Ineq.makeOp e x op))
        | none => .error .exception
    | .num _, .num _ => .error .unmodelled
    | _, _ => .error .typeError

/-- Python expression over the pseudo-Boolean classes -/
inductive Tree (V : Type) where
  | str (v : V)                 -- a `str` operand
  | num (n : Num)               -- an `int` / `float` operand
  | lit (v : V) (s : Bool)      -- `Literal(v, s)`
  | neg (a : Tree V)
  | inv (a : Tree V)            -- `~a`
  | pos (a : Tree V)            -- `+a`
  | mul (a b : Tree V)
  | add (a b : Tree V)
  | sub (a b : Tree V)
  | cmp (o : CmpOp) (a b : Tree V)
  | ineq (o : String) (a b : Tree V)   -- `Ineq(a, b, o)`
  deriving Repr

def Tree.run : Tree V → Except Err (Val V)
  | .str v => .ok (.str v)
  | .num n => .ok (.num n)
  | .lit v s => .ok (.lit ⟨v, s⟩)
  | .neg a => do pyNeg (← a.run)
  | .inv a => do pyInv (← a.run)
  | .pos a => do pyPos (← a.run)
  | .mul a b => do let x ← a.run; let y ← b.run; pyMul x y
  | .add a b => do let x ← a.run; let y ← b.run; pyAdd x y
  | .sub a b => do let x ← a.run; let y ← b.run; pySub x y
  | .cmp o a b => do let x ← a.run; let y ← b.run; pyCmp o x y
  | .ineq o a b => do let x ← a.run; let y ← b.run; pyIneq o x y

/-- the builtin `sum(items, start)`: `result = start; for x in items: result = result + x` (the fast paths of CPython's
    `sum` for exact ints / floats compute the same values) -/
def Tree.sumFrom (start : Tree V) (items : List (Tree V)) : Tree V := items.foldl Tree.add start

/-- `sum(items)`: the start value is the int `0`, so the first addition is `0 + x` — the reflected `__radd__` of a
    `Literal` / `Term`, and a `TypeError` for an `Expr` (which has no `__radd__`) -/
def Tree.sumOf (items : List (Tree V)) : Tree V := Tree.sumFrom (.num (.int 0)) items

/-! ### `tostr` (variable names are Python strings) -/
/-- `Literal.tostr` -/
def Literal.tostr (l : Literal String) : String := if l.s then l.v else "-" ++ l.v
/-- `Term.tostr`: `str(self.c) + " " + self.L.tostr()` -/
def Term.tostr (t : Term String) : String := toString t.c ++ " " ++ t.L.tostr
/-- `Expr.tostr` -/
def Expr.tostr (e : Expr String) : String := String.join (e.t.map fun t => t.tostr ++ " + ") ++ toString e.c
def NOp.str : NOp → String | .ge => ">=" | .gt => ">" | .eq => "="
/-- `Ineq.tostr`; `clause` is the attribute set by an earlier `isclause()` (`none` = never called / not a clause) -/
def Ineq.tostr (q : Ineq String) (clause : Option (List (Literal String))) : String :=
  match clause with
  | some c => " + ".intercalate (c.map fun l => "1 " ++ l.tostr) ++ " >= 1"
  | none => q.lhs.tostr ++ " " ++ q.op.str ++ " " ++ toString q.rhs
end FV.PB

import FV.Model.Yaml
import FV.Model.Geom
/-
  Executable model of the netlist reader and writer (properties C04, C05):

    frame/netlist/yaml_read_netlist.py   parse_yaml_netlist / _modules / _module / _center / _aspect_ratio /
                                         _rectangles / _edges
    frame/netlist/module.py              Module.__init__ (kwargs in document order), _read_region_area, setup,
                                         area, calculate_center_from_rectangles
    frame/geometry/geometry.py           parse_yaml_rectangle, Rectangle.__init__ (validation)
    frame/netlist/netlist.py             Netlist.__init__, _create_rectangles, rectangles, fixed_rectangles, wire_length
    frame/netlist/netlist_types.py       HyperEdge.wire_length
    frame/netlist/yaml_write_netlist.py  dump_yaml_modules / _module / _rectangles / _edges

  The model follows the REPAIRED code (fixes/C04_writer_regions_flip.diff, fixes/C05_one_pin_net.diff):
  the writer emits per-region areas as a dictionary and emits `flip`; the reader rejects a net with fewer than two
  members.  Every Python `assert` is an `Except.error`; all of them raise `AssertionError`, the constructor of `Err`
  only records which one (never compared with the implementation).

  `create_stog` (property C06, modelled elsewhere) is a PARAMETER `stog`: a function that reorders the rectangles of
  a module and assigns their roles.  The process-wide area tolerance `Rectangle._area_epsilon` in force during the
  hard-overlap check is the parameter `εA`; `defaultEps` models the `if not Rectangle.epsilon_defined()` block.
-/
namespace FV.NL
open FV

inductive Err
  | root | rootKey | modules | name | info | attrKey | dup | center | aspect | area | flag | excl | ctor
  | rects | rect | setup | hardNoCenter | unreachable | overlap | flip | edge | onePin | unknownModule | weight
  deriving DecidableEq, Repr, Inhabited

/-! ### small `Except` combinators (own definitions: simple induction principles) -/

def guardE (c : Bool) (e : Err) : Except Err Unit := if c then .ok () else .error e

def mapE {β γ : Type} (f : β → Except Err γ) : List β → Except Err (List γ)
  | [] => .ok []
  | x :: xs =>
    match f x with
    | .error e => .error e
    | .ok y =>
      match mapE f xs with
      | .error e => .error e
      | .ok ys => .ok (y :: ys)

def foldlE {β σ : Type} (f : σ → β → Except Err σ) : σ → List β → Except Err σ
  | s, [] => .ok s
  | s, x :: xs =>
    match f s x with
    | .error e => .error e
    | .ok s' => foldlE f s' xs

/-- keys of a Python `dict` are distinct. -/
def nodupB {β : Type} [DecidableEq β] : List β → Bool
  | [] => true
  | x :: xs => !(xs.contains x) && nodupB xs

/-- first value stored under a key. -/
def assoc {β γ : Type} [DecidableEq β] (k : β) : List (β × γ) → Option γ
  | [] => none
  | (k', v) :: r => if k' = k then some v else assoc k r

/-- `all(p(a, b) for a, b in itertools.combinations(l, 2))`. -/
def pairsAll {β : Type} (p : β → β → Bool) : List β → Bool
  | [] => true
  | x :: xs => xs.all (p x) && pairsAll p xs

/-! ### rectangles of a module: the document's numbers keep their type tag -/

structure NRect (α : Type) where
  cx : Num α
  cy : Num α
  w : Num α
  h : Num α
  region : String := "_"
  fixed : Bool := false
  hard : Bool := false
  loc : Loc := .nopoly
  deriving Inhabited

structure Mod (α : Type) where
  name : String
  center : Option (α × α)
  aspect : Option (α × α)
  terminal : Bool
  hard : Bool
  fixed : Bool
  flip : Bool
  areaRegions : List (String × α)
  rects : List (NRect α)
  deriving Inhabited

/-- `NamedHyperEdge` / `HyperEdge` (members by name; resolution checked in `finish`). -/
structure Net (α : Type) where
  members : List String
  weight : α
  deriving Inhabited

structure Netlist (α : Type) where
  modules : List (Mod α)
  nets : List (Net α)
  deriving Inhabited

inductive AttrKind | area | terminal | fixed | hard | flip | center | aspect | rectangles
  deriving DecidableEq, Repr

/-- the keywords of `frame/utils/keywords.py`. -/
def attrKind (s : String) : Option AttrKind :=
  if s = "area" then some .area
  else if s = "terminal" then some .terminal
  else if s = "fixed" then some .fixed
  else if s = "hard" then some .hard
  else if s = "flip" then some .flip
  else if s = "center" then some .center
  else if s = "aspect_ratio" then some .aspect
  else if s = "rectangles" then some .rectangles
  else none

/-- `KW_MODULES` ↦ `true`, `KW_NETS` ↦ `false`. -/
def rootKind (s : String) : Option Bool :=
  if s = "Modules" then some true else if s = "Nets" then some false else none

/-- parameters handed to `Module(name, **params)`: raw values, except centre and aspect ratio (already parsed). -/
inductive Param (α : Type)
  | area (v : YVal α) | terminal (v : YVal α) | fixed (v : YVal α) | hard (v : YVal α) | flip (v : YVal α)
  | center (c : α × α) | aspect (a : α × α)

def Param.kind : Param α → AttrKind
  | .area _ => .area | .terminal _ => .terminal | .fixed _ => .fixed | .hard _ => .hard | .flip _ => .flip
  | .center _ => .center | .aspect _ => .aspect

/-- state of `Module.__init__` while the keyword arguments are processed. -/
structure MState (α : Type) where
  center : Option (α × α) := none
  aspect : Option (α × α) := none
  terminal : Bool := false
  hard : Bool := false
  fixed : Bool := false
  flip : Bool := false
  area : List (String × α) := []

variable {α : Type} [Add α] [Sub α] [Mul α] [Div α] [Neg α] [LT α] [LE α]
  [DecidableLT α] [DecidableLE α] [NatCast α] [DecidableEq α]

@[inline] def zero : α := ((0 : Nat) : α)
@[inline] def one : α := ((1 : Nat) : α)

namespace NRect

def toRect (r : NRect α) : Rect α :=
  { cx := r.cx.val, cy := r.cy.val, w := r.w.val, h := r.h.val,
    region := r.region, fixed := r.fixed, hard := r.hard, loc := r.loc }

/-- `Rectangle.area` = `shape.w * shape.h`. -/
def area (r : NRect α) : α := r.w.val * r.h.val

/-- what a freshly parsed rectangle carries: `StogLocation.NO_POLYGON`. -/
def resetLoc (r : NRect α) : NRect α := { r with loc := .nopoly }

end NRect

/-! ### reader -/

/-- `parse_yaml_center`. -/
def parseCenter (v : YVal α) : Except Err (α × α) :=
  match v with
  | .seq [a, b] =>
    match a.num?, b.num? with
    | some x, some y => .ok (x.val, y.val)
    | _, _ => .error .center
  | _ => .error .center

/-- `parse_yaml_aspect_ratio`. -/
def parseAspect (v : YVal α) : Except Err (α × α) :=
  match v.num? with
  | some n =>
    let ar := n.val
    if (zero : α) < ar then
      let inv := (one : α) / ar
      .ok (pyMin ar inv, pyMax ar inv)
    else .error .aspect
  | none =>
    match v with
    | .seq [a, b] =>
      match a.num?, b.num? with
      | some x, some y =>
        if (zero : α) ≤ x.val ∧ x.val ≤ (one : α) ∧ (one : α) ≤ y.val then .ok (x.val, y.val) else .error .aspect
      | _, _ => .error .aspect
    | _ => .error .aspect

/-- one entry of a per-region area dictionary. -/
def readRegion (e : YVal α × YVal α) : Except Err (String × α) :=
  match e.1.str?, e.2.num? with
  | some s, some n => if validIdent s ∧ (zero : α) < n.val then .ok (s, n.val) else .error .area
  | _, _ => .error .area

/-- `Module._read_region_area`. -/
def readRegionArea (v : YVal α) : Except Err (List (String × α)) :=
  match v.num? with
  | some n => if (zero : α) < n.val then .ok [("_", n.val)] else .error .area
  | none =>
    match v with
    | .map l =>
      match mapE readRegion l with
      | .error e => .error e
      | .ok regs => if nodupB (regs.map (·.1)) then .ok regs else .error .dup
    | _ => .error .area

/-- the per-attribute part of `parse_yaml_module`'s loop (`rectangles` is handled after the constructor). -/
def mkParam (kv : AttrKind × YVal α) : Except Err (Param α) :=
  match kv.1 with
  | .area => .ok (.area kv.2)
  | .terminal => .ok (.terminal kv.2)
  | .fixed => .ok (.fixed kv.2)
  | .hard => .ok (.hard kv.2)
  | .flip => .ok (.flip kv.2)
  | .center => match parseCenter kv.2 with | .ok c => .ok (.center c) | .error e => .error e
  | .aspect => match parseAspect kv.2 with | .ok a => .ok (.aspect a) | .error e => .error e
  | .rectangles => .error .unreachable

/-- one iteration of `for key, value in kwargs.items()` in `Module.__init__`; `ks` = the keys of `kwargs`. -/
def ctorStep (ks : List AttrKind) (s : MState α) (p : Param α) : Except Err (MState α) :=
  match p with
  | .center c => .ok { s with center := some c }
  | .aspect a =>
    if (zero : α) ≤ a.1 ∧ a.1 ≤ (one : α) ∧ (one : α) ≤ a.2 then .ok { s with aspect := some a } else .error .aspect
  | .area v =>
    match readRegionArea v with
    | .ok regs => .ok { s with area := regs }
    | .error e => .error e
  | .fixed v =>
    match v.bool? with
    | some b => .ok { s with fixed := b, hard := b }
    | none => .error .flag
  | .hard v =>
    if ks.contains .fixed then .error .excl else
    match v.bool? with
    | some b => .ok { s with hard := b }
    | none => .error .flag
  | .flip v =>
    match v.bool? with
    | some b => .ok { s with flip := b }
    | none => .error .flag
  | .terminal v =>
    if ks.contains .area || ks.contains .aspect || ks.contains .flip then .error .excl else
    match v.bool? with
    | some b => .ok { s with terminal := b, hard := true }
    | none => .error .flag

/-- `Module.__init__`: the loop and the two closing assertions. -/
def ctor (ps : List (Param α)) : Except Err (MState α) :=
  match foldlE (ctorStep (ps.map Param.kind)) ({} : MState α) ps with
  | .error e => .error e
  | .ok s =>
    if (!s.hard || s.aspect.isNone) && (!s.terminal || !s.fixed || s.center.isSome) then .ok s else .error .ctor

/-- `parse_yaml_rectangle` followed by the validation of `Rectangle.__init__`. -/
def parseRect (fixed hard : Bool) (r : YVal α) : Except Err (NRect α) :=
  let core (a b c d : YVal α) (reg : Option (YVal α)) : Except Err (NRect α) :=
    match a.num?, b.num?, c.num?, d.num? with
    | some x, some y, some w, some h =>
      if (zero : α) ≤ x.val ∧ (zero : α) ≤ y.val ∧ (zero : α) ≤ w.val ∧ (zero : α) ≤ h.val then
        match reg with
        | none =>
          if (zero : α) < w.val ∧ (zero : α) < h.val then
            .ok { cx := x, cy := y, w := w, h := h, fixed := fixed, hard := hard }
          else .error .rect
        | some e =>
          match e.str? with
          | some s =>
            if validIdent s && !(fixed || hard) then
              if (zero : α) < w.val ∧ (zero : α) < h.val then
                .ok { cx := x, cy := y, w := w, h := h, region := s, fixed := fixed, hard := hard }
              else .error .rect
            else .error .rect
          | none => .error .rect
      else .error .rect
    | _, _, _, _ => .error .rect
  match r with
  | .seq [a, b, c, d] => core a b c d none
  | .seq [a, b, c, d, e] => core a b c d (some e)
  | _ => .error .rect

/-- `parse_yaml_rectangles`: a single rectangle may be given without the outer list. -/
def parseRects (fixed hard : Bool) (v : YVal α) : Except Err (List (NRect α)) :=
  match v with
  | .seq (x :: xs) => if x.isNumber then mapE (parseRect fixed hard) [v] else mapE (parseRect fixed hard) (x :: xs)
  | _ => .error .rects

/-- `sum(r.area for r in rectangles)` (from the integer `0`, left to right). -/
def sumAreas (rs : List (NRect α)) : α := rs.foldl (fun acc r => acc + r.area) zero

/-- `Module.setup`. -/
def setup (name : String) (s : MState α) (rects : List (NRect α)) : Except Err (Mod α) :=
  let areaDefined := !s.area.isEmpty
  if !(s.fixed && !s.hard) && !(s.flip && s.fixed) && !(s.flip && !s.hard) && (s.hard || areaDefined)
      && (!s.terminal || s.hard) then
    if s.hard then
      if !areaDefined && (s.center.isNone || s.terminal) && s.aspect.isNone && (s.terminal || !rects.isEmpty) then
        .ok { name := name, center := s.center, aspect := s.aspect, terminal := s.terminal, hard := s.hard,
              fixed := s.fixed, flip := s.flip, areaRegions := [("_", sumAreas rects)], rects := rects }
      else .error .setup
    else
      .ok { name := name, center := s.center, aspect := s.aspect, terminal := s.terminal, hard := s.hard,
            fixed := s.fixed, flip := s.flip, areaRegions := s.area, rects := rects }
  else .error .setup

/-- key of a module attribute: must be a `str` naming a known attribute. -/
def classify (kv : YVal α × YVal α) : Except Err (AttrKind × YVal α) :=
  match kv.1.str? with
  | some s => match attrKind s with | some k => .ok (k, kv.2) | none => .error .attrKey
  | none => .error .attrKey

/-- `parse_yaml_module(name, info)` (with the name check of `parse_yaml_modules`). -/
def parseModule (e : YVal α × YVal α) : Except Err (Mod α) :=
  match e.1.str? with
  | none => .error .name
  | some name =>
    if !validIdent name then .error .name else
    match e.2 with
    | .map l =>
      match mapE classify l with
      | .error err => .error err
      | .ok kvs =>
        if !nodupB (kvs.map (·.1)) then .error .dup else
        match mapE mkParam (kvs.filter (fun kv => kv.1 ≠ .rectangles)) with
        | .error err => .error err
        | .ok ps =>
          match ctor ps with
          | .error err => .error err
          | .ok s =>
            match assoc .rectangles kvs with
            | none => setup name s []
            | some v =>
              match parseRects s.fixed s.hard v with
              | .error err => .error err
              | .ok rects => setup name s rects
    | _ => .error .info

/-- `parse_yaml_modules`. -/
def parseModules (v : YVal α) : Except Err (List (Mod α)) :=
  match v with
  | .map l =>
    match mapE parseModule l with
    | .error e => .error e
    | .ok ms => if nodupB (ms.map (·.name)) then .ok ms else .error .dup
  | _ => .error .modules

/-- all but the last element / the last element of a non-empty list. -/
def splitLast {β : Type} : List β → Option (List β × β)
  | [] => none
  | [x] => some ([], x)
  | x :: y :: r => match splitLast (y :: r) with | some (i, l) => some (x :: i, l) | none => none

/-- `isinstance(e[i], str)` for all the given elements. -/
def strs (l : List (YVal α)) : Option (List String) :=
  match l with
  | [] => some []
  | x :: xs => match x.str?, strs xs with | some s, some r => some (s :: r) | _, _ => none

/-- one edge of `parse_yaml_edges` (REPAIRED: at least two members once the weight is taken off). -/
def parseEdge (e : YVal α) : Except Err (Net α) :=
  match e with
  | .seq l =>
    if l.length < 2 then .error .edge else
    match splitLast l with
    | none => .error .edge
    | some (ini, last) =>
      match strs ini with
      | none => .error .edge
      | some names =>
        match last.num? with
        | some w => if names.length < 2 then .error .onePin else .ok { members := names, weight := w.val }
        | none =>
          match last.str? with
          | some s => .ok { members := names ++ [s], weight := one }
          | none => .error .edge
  | _ => .error .edge

/-- `parse_yaml_edges`. -/
def parseEdges (v : YVal α) : Except Err (List (Net α)) :=
  match v with
  | .seq l => mapE parseEdge l
  | _ => .error .edge

def classifyRoot (kv : YVal α × YVal α) : Except Err (Bool × YVal α) :=
  match kv.1.str? with
  | some s => match rootKind s with | some k => .ok (k, kv.2) | none => .error .rootKey
  | none => .error .rootKey

/-- value under a root key that may be missing (`modules = []` / `edges = []` initially). -/
def optParse {β : Type} (f : YVal α → Except Err (List β)) (v : Option (YVal α)) : Except Err (List β) :=
  match v with
  | none => .ok []
  | some x => f x

/-- `parse_yaml_netlist` on a document tree. -/
def parseDoc (t : YVal α) : Except Err (List (Mod α) × List (Net α)) :=
  match t with
  | .map l =>
    match mapE classifyRoot l with
    | .error e => .error e
    | .ok kvs =>
      if !nodupB (kvs.map (·.1)) then .error .dup else
      match optParse parseModules (assoc true kvs) with
      | .error e => .error e
      | .ok ms =>
        match optParse parseEdges (assoc false kvs) with
        | .error e => .error e
        | .ok es => .ok (ms, es)
  | _ => .error .root

/-! ### `Netlist.__init__` -/

/-- `Module.calculate_center_from_rectangles`: Σ area·x, Σ area·y and Σ area over the rectangles, then two divisions.
    After fixes/C04_centroid_fsum.diff the implementation takes the three sums with `math.fsum`: each is the CORRECTLY
    ROUNDED value of the exact sum of the (rounded) products, hence independent of the order of the rectangles — which
    `create_stog` changes between a write and the next read — so the float centre is bit-identical after a round trip.
    In exact arithmetic (`Rat`, and every theorem) a correctly rounded sum IS the sum, i.e. this left-to-right fold; the
    theorems are unchanged (`centroid_perm` is the exact-arithmetic counterpart of the order independence).  At `Float`
    the fold may differ from `fsum` in the last bits: the float stream compares centres with 1e-9 against the model and
    EXACTLY between the loaded and the re-read implementation objects. -/
def centroid (rs : List (NRect α)) : α × α :=
  let s := rs.foldl (fun (acc : α × α × α) r =>
    (acc.1 + r.area * r.cx.val, acc.2.1 + r.area * r.cy.val, acc.2.2 + r.area)) ((zero : α), (zero : α), (zero : α))
  (s.1 / s.2.2, s.2.1 / s.2.2)

/-- first loop of `_create_rectangles` for one module.  The `create_square` branch needs a hard, non-terminal module
    without rectangles, which `setup` has already rejected (`ModOK.hard_ok` in FV/Proofs/Netlist.lean). -/
def prepModule (m : Mod α) : Except Err (Mod α) :=
  if !(m.terminal || !m.hard || m.center.isSome || !m.rects.isEmpty) then .error .hardNoCenter
  else if m.hard && !m.terminal && m.rects.isEmpty then .error .unreachable
  else if !m.rects.isEmpty then .ok { m with center := some (centroid m.rects) }
  else .ok m

/-- `not r1.overlap(r2)` for all `combinations(m.rectangles, 2)`. -/
def noOverlap (εA : α) (rs : List (NRect α)) : Bool :=
  pairsAll (fun a b => !(Rect.overlap εA a.toRect b.toRect)) rs

/-- `Module.has_stog`. -/
def hasStog (m : Mod α) : Bool :=
  match m.rects with
  | [] => false
  | r :: _ => r.loc == .trunk

/-- the edge loop of `Netlist.__init__`. -/
def resolveNet (names : List String) (e : Net α) : Except Err (Net α) :=
  if !(e.members.all (names.contains ·)) then .error .unknownModule
  else if (zero : α) < e.weight then .ok e else .error .weight

/-- `_create_rectangles` (after the tolerance is known) and the edge loop. -/
def finish (stog : List (NRect α) → List (NRect α)) (εA : α) (ms : List (Mod α)) (es : List (Net α)) :
    Except Err (Netlist α) :=
  match mapE prepModule ms with
  | .error e => .error e
  | .ok ms1 =>
    if !(ms1.all fun m => !(m.hard && !m.terminal) || noOverlap εA m.rects) then .error .overlap else
    let ms2 := ms1.map fun m => if m.rects.isEmpty then m else { m with rects := stog m.rects }
    if !(ms2.all fun m => !m.flip || hasStog m) then .error .flip else
    match mapE (resolveNet (ms2.map (·.name))) es with
    | .error e => .error e
    | .ok nets => .ok { modules := ms2, nets := nets }

/-- `Netlist(tree)`. -/
def parseNetlist (stog : List (NRect α) → List (NRect α)) (εA : α) (t : YVal α) : Except Err (Netlist α) :=
  match parseDoc t with
  | .error e => .error e
  | .ok (ms, es) => finish stog εA ms es

/-! ### writer (REPAIRED) -/

def dumpNum (n : Num α) : YVal α := YVal.ofNum n

/-- `dump_yaml_rectangles`. -/
def dumpRect (r : NRect α) : YVal α :=
  .seq ([dumpNum r.cx, dumpNum r.cy, dumpNum r.w, dumpNum r.h] ++ (if r.region ≠ "_" then [.str r.region] else []))

def dumpPair (p : α × α) : YVal α := .seq [.float p.1, .float p.2]

/-- the `area` entry: scalar for a single ground region, else the dictionary of regions. -/
def dumpArea (regs : List (String × α)) : YVal α :=
  match regs with
  | [(r, a)] => if r = "_" then .float a else .map [(.str r, .float a)]
  | _ => .map (regs.map fun p => (.str p.1, .float p.2))

/-- `dump_yaml_module`; the result is the insertion-ordered `info` dictionary. -/
def dumpModuleAttrs (m : Mod α) : List (YVal α × YVal α) :=
  let ctr : List (YVal α × YVal α) := match m.center with | some c => [(.str "center", dumpPair c)] | none => []
  (if !m.hard then
      [(YVal.str "area", dumpArea m.areaRegions)] ++ ctr ++
      (match m.aspect with | some a => [(YVal.str "aspect_ratio", dumpPair a)] | none => [])
    else [])
  ++ (if m.fixed then [(.str "fixed", .bool true)] else if m.hard && !m.terminal then [(.str "hard", .bool true)] else [])
  ++ (if m.terminal then [(YVal.str "terminal", YVal.bool true)] ++ (if m.hard then ctr else []) else [])
  ++ (if m.flip then [(.str "flip", .bool true)] else [])
  ++ (if !m.rects.isEmpty then [(.str "rectangles", .seq (m.rects.map dumpRect))] else [])

def dumpModule (m : Mod α) : YVal α := .map (dumpModuleAttrs m)

/-- `dump_yaml_edges`. -/
def dumpNet (e : Net α) : YVal α :=
  .seq (e.members.map .str ++ (if e.weight ≠ (one : α) then [.float e.weight] else []))

/-- `Netlist.write_yaml` up to the text layer; `dump_yaml_modules` is a `dict` comprehension keyed by name, which is
    this list whenever the names are distinct (guaranteed by `parseNetlist`, theorem `parse_names_nodup`). -/
def dumpNetlist (n : Netlist α) : YVal α :=
  .map [(.str "Modules", .map (n.modules.map fun m => (.str m.name, dumpModule m))),
        (.str "Nets", .seq (n.nets.map dumpNet))]

/-! ### derived quantities -/

/-- `Module.area()`: `sum(self._area_regions.values())`. -/
def Mod.area (m : Mod α) : α := m.areaRegions.foldl (fun acc p => acc + p.2) zero

/-- `Module.area(region)`. -/
def Mod.areaOf (m : Mod α) (region : String) : α :=
  match assoc region m.areaRegions with | some a => a | none => zero

/-- the rectangles of all modules, module by module, in the order the modules hold them after loading
    (`[r for m in n.modules for r in m.rectangles]`). -/
def Netlist.rectangles (n : Netlist α) : List (NRect α) := n.modules.flatMap (·.rects)

/-- `Netlist.rectangles` as the implementation stores it: `self._rectangles` is built in `_create_rectangles` BEFORE
    the STOG step reorders each module's own list, so it keeps the document order.  (The list shares its objects with
    the modules, so the roles are those assigned later; roles are not part of this model of the flat list: every
    entry carries `NO_POLYGON`.)  Defined for documents that load. -/
def loadRectangles (stog : List (NRect α) → List (NRect α)) (εA : α) (t : YVal α) : Except Err (List (NRect α)) :=
  match parseNetlist stog εA t with
  | .error e => .error e
  | .ok _ =>
    match parseDoc t with
    | .error e => .error e
    | .ok (ms, _) => .ok (ms.flatMap (·.rects))

/-- `Netlist.fixed_rectangles()`: `[r for r in self.rectangles if r.fixed]`. -/
def fixedOf (rs : List (NRect α)) : List (NRect α) := rs.filter (·.fixed)

def Netlist.fixedRectangles (n : Netlist α) : List (NRect α) := fixedOf n.rectangles

def Netlist.find (n : Netlist α) (name : String) : Option (Mod α) := n.modules.find? (·.name = name)

def centersOf (n : Netlist α) : List String → Option (List (α × α))
  | [] => some []
  | x :: xs =>
    match n.find x with
    | none => none
    | some m => match m.center, centersOf n xs with | some c, some r => some (c :: r) | _, _ => none

/-- `HyperEdge.wire_length` on the centres of the members (`sqrt` = `math.sqrt`, a parameter). -/
def netWireLength (sqrt : α → α) (cs : List (α × α)) (w : α) : α :=
  let s := cs.foldl (fun (acc : α × α) c => (acc.1 + c.1, acc.2 + c.2)) ((zero : α), (zero : α))
  let k : α := ((cs.length : Nat) : α)
  let ip : α × α := (s.1 / k, s.2 / k)
  let wl := cs.foldl (fun acc c =>
    let vx := ip.1 + -c.1
    let vy := ip.2 + -c.2
    acc + sqrt (vx * vx + vy * vy)) (zero : α)
  wl * w

/-- `Netlist.wire_length`; `none` = a member without centre (`assert b.center is not None`). -/
def Netlist.wireLength (sqrt : α → α) (n : Netlist α) : Option α :=
  n.nets.foldl (fun acc e =>
    match acc, centersOf n e.members with
    | some a, some cs => some (a + netWireLength sqrt cs e.weight)
    | _, _ => none) (some zero)

/-! ### the tolerance a netlist proposes when none is defined -/

def optMin (a : Option α) (b : α) : Option α :=
  match a with
  | none => some b
  | some x => some (pyMin x b)

/-- `smallest_distance` of `_create_rectangles` (`none` = `math.inf`). -/
def smallestDistance (sqrt : α → α) (ms : List (Mod α)) : Option α :=
  let s1 := (ms.flatMap (·.rects)).foldl (fun acc r => optMin (optMin acc r.w.val) r.h.val) none
  ms.foldl (fun acc m => if (zero : α) < m.area then optMin acc (sqrt m.area) else acc) s1

/-- `(distance ε, area ε)` set by `Rectangle.set_epsilon(smallest_distance * 1e-12)`; `tiny` = the literal `1e-12`. -/
def defaultEps (sqrt : α → α) (tiny : α) (ms : List (Mod α)) : Option (α × α) :=
  match smallestDistance sqrt ms with
  | none => none
  | some d => some (d * tiny, sqrt (d * tiny))

/-- `Netlist(tree)` in a process where NO tolerance is defined yet (`Rectangle.epsilon_defined()` false): the netlist
    installs the tolerance it proposes (`defaultEps`, computed after the centres and before the overlap check) and the
    overlap check and `create_stog` run under it.  `stogOf ε εA` = the STOG step under the tolerances `ε`, `εA`.
    (`math.inf` when the netlist has no rectangle and no positive area: then nothing below uses the tolerance.) -/
def loadFresh (sqrt : α → α) (tiny : α) (stogOf : α → α → List (NRect α) → List (NRect α)) (t : YVal α) :
    Except Err (Netlist α) :=
  match parseDoc t with
  | .error e => .error e
  | .ok (ms, es) =>
    match defaultEps sqrt tiny ms with
    | some (ε, εA) => finish (stogOf ε εA) εA ms es
    | none => finish (stogOf zero zero) zero ms es

end FV.NL

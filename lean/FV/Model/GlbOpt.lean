import FV.Model.Glb
/-
  Executable model of WHAT `optimize_allocation` POSTS TO GEKKO (`tools/glbfloor/optimization.py` 239-408): a pure
  function from (die bounding box, offered allocation, netlist modules, threshold, distance tolerance, module areas,
  sizes of the nets) to

    * `vars`   — the named `g.Var(...)` declarations with their bounds, in creation order:
                 `x_m, y_m` (die bounds) and `d_m` (`lb=0`) of the non-fixed model modules; the ratio variables
                 `a_m_c` (`lb=0, ub=1`) that are not frozen to constants; `x_m, y_m` and `a_m_c` of the movable hard modules;
    * `consts` — the entries of `model.x / model.y / model.a` that are plain floats (fixed modules, frozen ratios),
                 in dictionary order;
    * `rows`   — the `g.Equation(...)` calls in posting order, with their bodies:
                 capacity `Σ_m a[m][c] <= 1` per cell; per model module `Σ_c area_c·a[m][c] >= area_m` and the centroid
                 definitions `1/area_m · Σ_c area_c·cx_c·a[m][c] == x[m]` (y alike); per movable hard module the centre
                 offset to its first rectangle, `a[m][c] == Σ_r a[m_r][c]` per cell, and the pairwise rigid offsets of
                 its rectangles (squared when the module may flip).
                 NOT MODELLED (present as body-less `stub` rows so that a missing / extra call is still seen): the
                 dispersion equations (`disp`), the centre equations of nets with more than two pins (`hyper`) and
                 every `g.Minimize(...)` term of the objective (`minimize`); initial values of variables; the anonymous
                 variables GEKKO creates for hyperedges and inside `g.sum`.

  Python's constant folding is followed: `cells[c].area * model.a[m][c]` is a number when the ratio is frozen and the
  GEKKO expression `((area)*(a_m_c))` otherwise.  The "model modules" (`modules` in the Python: soft and fixed modules,
  movable hard ones replaced by one fake module per rectangle) are `Glb.modelModules`; constants vs variables are
  `Glb.aIsConst` / `Glb.getA`.  Terminals are not supported by `glbfloor` (its initial allocation rejects them).
-/
namespace FV.GlbOpt
open FV FV.Glb

/-- GEKKO variables of the model, by role. -/
inductive V
  | a (m : String) (c : Nat)
  | x (m : String)
  | y (m : String)
  | d (m : String)
  deriving DecidableEq, Repr

/-- an element of a `g.sum([...])`: a number, a variable, or `((k)*(v))`. -/
inductive T (α : Type)
  | num (v : α)
  | var (v : V)
  | lin (k : α) (v : V)
  deriving Repr

/-- the expression shapes `optimize_allocation` posts (no recursion needed). -/
inductive E (α : Type)
  | num (v : α)
  | var (v : V)
  | sum (l : List (T α))                -- g.sum([...])
  | scaled (k : α) (l : List (T α))     -- ((k)*(g.sum([...])))
  | diff (p q : V)                      -- (p-q)
  | sqdiff (p q : V)                    -- ((p-q))^(2)
  deriving Repr

inductive Cmp | le | ge | eq
  deriving DecidableEq, Repr

inductive Row (α : Type)
  | eqn (name : String) (lhs : E α) (cmp : Cmp) (rhs : E α)
  | stub (kind : String) (who : String)
  deriving Repr

structure Posted (α : Type) where
  vars : List (V × Option α × Option α)
  consts : List (V × α)
  rows : List (Row α)

/-- what the generator reads. -/
structure Input (α : Type) where
  die : Rect α
  epsD : α
  thr : α
  offered : List (RectAlloc α)
  mods : List (Module α)
  areaOf : String → α        -- `module.area()` of the soft and fixed modules (by name)
  edgeSizes : List Nat       -- number of pins of every net, in order

variable {α : Type} [Add α] [Sub α] [Mul α] [Div α] [Neg α] [LT α] [LE α]
  [DecidableLT α] [DecidableLE α] [NatCast α] [DecidableEq α]

/-- a movable hard module (gets fake modules and its own variables). -/
def movable (m : Module α) : Bool := m.hard && !m.fixed

/-- `module.area()` of a model module: a fake module has the area of its rectangle. -/
def mmArea (inp : Input α) (mm : Module α) : α :=
  if movable mm then (match mm.rects with | [r] => r.area | _ => Glb.zero) else inp.areaOf mm.name

/-- is `model.a[mm][c]` a float (and which)? -/
def constA (inp : Input α) (mm : Module α) (c : Nat) : Option α :=
  match getA inp.offered mm c with
  | none => none
  | some v => if aIsConst inp.epsD inp.thr inp.offered mm c then some v else none

/-- `model.a[mm][c]` as a sum element. -/
def aTerm (inp : Input α) (mm : Module α) (c : Nat) : T α :=
  match constA inp mm c with
  | some v => .num v
  | none => .var (.a mm.name c)

/-- `k * model.a[mm][c]` (Python folds the product when the ratio is a float). -/
def kaTerm (inp : Input α) (k : α) (mm : Module α) (c : Nat) : T α :=
  match constA inp mm c with
  | some v => .num (k * v)
  | none => .lin k (.a mm.name c)

def cellIdx (inp : Input α) : List Nat := List.range inp.offered.length
def cellArea (inp : Input α) (c : Nat) : α := match inp.offered[c]? with | some ra => ra.rect.area | none => Glb.zero
def cellCx (inp : Input α) (c : Nat) : α := match inp.offered[c]? with | some ra => ra.rect.cx | none => Glb.zero
def cellCy (inp : Input α) (c : Nat) : α := match inp.offered[c]? with | some ra => ra.rect.cy | none => Glb.zero

/-- the fake modules of a movable hard module. -/
def fakes (m : Module α) : List (Module α) := m.rects.zipIdx.map fun (rect, r) => fakeModule m r rect

/-! ### declarations -/

def xyVars (inp : Input α) (n : String) : List (V × Option α × Option α) :=
  [(.x n, some inp.die.xmin, some inp.die.xmax), (.y n, some inp.die.ymin, some inp.die.ymax)]

def varsOf (inp : Input α) : List (V × Option α × Option α) :=
  let mm := modelModules inp.mods
  (mm.flatMap fun m => if m.fixed then [] else xyVars inp m.name ++ [(.d m.name, some Glb.zero, none)]) ++
  (mm.flatMap fun m => (cellIdx inp).filterMap fun c =>
    match constA inp m c with
    | some _ => none
    | none => some (.a m.name c, some Glb.zero, some Glb.one)) ++
  ((inp.mods.filter movable).flatMap fun m =>
    xyVars inp m.name ++ (cellIdx inp).map fun c => (.a m.name c, some Glb.zero, some Glb.one))

def constsOf (inp : Input α) : List (V × α) :=
  let mm := modelModules inp.mods
  (mm.filter (·.fixed)).map (fun m => (V.x m.name, m.cx)) ++
  (mm.filter (·.fixed)).map (fun m => (V.y m.name, m.cy)) ++
  (mm.flatMap fun m => (cellIdx inp).filterMap fun c => (constA inp m c).map fun v => (V.a m.name c, v))

/-! ### equations -/

/-- `model.x[m]` / `model.y[m]` as the right-hand side of a centroid equation. -/
def xRhs (m : Module α) : E α := if m.fixed then .num m.cx else .var (.x m.name)
def yRhs (m : Module α) : E α := if m.fixed then .num m.cy else .var (.y m.name)

def capacityRows (inp : Input α) : List (Row α) :=
  (cellIdx inp).map fun c =>
    .eqn s!"cap_{c}" (.sum ((modelModules inp.mods).map fun m => aTerm inp m c)) .le (.num Glb.one)

def moduleRows (inp : Input α) (m : Module α) : List (Row α) :=
  let area := mmArea inp m
  let k := Glb.one / area
  [ .eqn s!"area_{m.name}" (.sum ((cellIdx inp).map fun c => kaTerm inp (cellArea inp c) m c)) .ge (.num area),
    .eqn s!"cx_{m.name}" (.scaled k ((cellIdx inp).map fun c => kaTerm inp (cellArea inp c * cellCx inp c) m c)) .eq (xRhs m),
    .eqn s!"cy_{m.name}" (.scaled k ((cellIdx inp).map fun c => kaTerm inp (cellArea inp c * cellCy inp c) m c)) .eq (yRhs m) ] ++
  (if m.hard then [] else [.stub "disp" m.name])

/-- offset equation between two variables: linear, or squared when the module may flip. -/
def offsetRow (name : String) (flip : Bool) (p q : V) (delta : α) : Row α :=
  if flip then .eqn name (.sqdiff p q) .eq (.num (delta * delta)) else .eqn name (.diff p q) .eq (.num delta)

def pairRows (m : Module α) : List (Row α) :=
  m.rects.zipIdx.flatMap fun (r, i) =>
    (m.rects.zipIdx.flatMap fun (r', j) =>
      if i < j then
        [ offsetRow s!"px_{m.name}_{i}_{j}" m.flip (.x (subName m.name i)) (.x (subName m.name j)) (r.cx - r'.cx),
          offsetRow s!"py_{m.name}_{i}_{j}" m.flip (.y (subName m.name i)) (.y (subName m.name j)) (r.cy - r'.cy) ]
      else []) ++ [.stub "disp" (subName m.name i)]

def hardRows (inp : Input α) (m : Module α) : List (Row α) :=
  let r0cx := match m.rects with | r :: _ => r.cx | [] => Glb.zero
  let r0cy := match m.rects with | r :: _ => r.cy | [] => Glb.zero
  [ offsetRow s!"ox_{m.name}" m.flip (.x m.name) (.x (subName m.name 0)) (m.cx - r0cx),
    offsetRow s!"oy_{m.name}" m.flip (.y m.name) (.y (subName m.name 0)) (m.cy - r0cy) ] ++
  ((cellIdx inp).map fun c =>
    .eqn s!"hsum_{m.name}_{c}" (.var (.a m.name c)) .eq (.sum ((fakes m).map fun f => aTerm inp f c))) ++
  pairRows m

def edgeRows (n : Nat) : List (Row α) :=
  if n = 2 then [.stub "minimize" "edge"]
  else [.stub "hyper" "x", .stub "hyper" "y"] ++ (List.replicate n (.stub "minimize" "hyper"))

def rowsOf (inp : Input α) : List (Row α) :=
  capacityRows inp ++
  ((modelModules inp.mods).flatMap fun m => moduleRows inp m) ++
  ((inp.mods.filter movable).flatMap fun m => hardRows inp m) ++
  (inp.edgeSizes.flatMap fun n => edgeRows n) ++
  [.stub "minimize" "dispersion"]

/-- everything `optimize_allocation` posts. -/
def post (inp : Input α) : Posted α := ⟨varsOf inp, constsOf inp, rowsOf inp⟩

/-! ### meaning -/

def lsum : List α → α
  | [] => Glb.zero
  | x :: xs => x + lsum xs

def evalT (σ : V → α) : T α → α
  | .num v => v
  | .var v => σ v
  | .lin k v => k * σ v

def evalE (σ : V → α) : E α → α
  | .num v => v
  | .var v => σ v
  | .sum l => lsum (l.map (evalT σ))
  | .scaled k l => k * lsum (l.map (evalT σ))
  | .diff p q => σ p - σ q
  | .sqdiff p q => (σ p - σ q) * (σ p - σ q)

/-- residual of a row under an assignment: how far it is from being satisfied (0 = satisfied). -/
def residual (σ : V → α) : Row α → α
  | .stub _ _ => Glb.zero
  | .eqn _ l cmp r =>
    let a := evalE σ l
    let b := evalE σ r
    match cmp with
    | .le => if b < a then a - b else Glb.zero
    | .ge => if a < b then b - a else Glb.zero
    | .eq => if a < b then b - a else a - b

end FV.GlbOpt

import FV.Model.Glb
/-
  Executable model of WHAT `optimize_allocation` POSTS TO GEKKO (`tools/glbfloor/optimization.py` 239-408): a pure
  function from (die bounding box, offered allocation, netlist modules, threshold, distance tolerance, module areas,
  sizes of the nets) to

    * `vars`   — the named `g.Var(...)` declarations with their bounds, in creation order:
                 `x_m, y_m` (die bounds) and `d_m` (`lb=0`) of the non-fixed model modules; the ratio variables
                 `a_m_c` (`lb=0, ub=1`) that are not frozen to constants; `x_m, y_m` and `a_m_c` of the movable hard modules;
    * `consts` — the entries of `model.x / model.y / model.a` that are plain floats (fixed modules, frozen ratios),
                 in dictionary order;
    * `rows`   — the `g.Equation(...)` calls in posting order, with their bodies:
                 capacity `Σ_m a[m][c] <= 1` per cell; per model module `Σ_c area_c·a[m][c] >= area_m` and the centroid
                 definitions `1/area_m · Σ_c area_c·cx_c·a[m][c] == x[m]` (y alike); per movable hard module the centre
                 offset to its first rectangle, `a[m][c] == Σ_r a[m_r][c]` per cell, and the pairwise rigid offsets of
                 its rectangles (squared when the module may flip).
                 the dispersion equations `6/area_m^(3/2) · Σ_c area_c·a[m][c]·((x[m]-cx_c)² + (y[m]-cy_c)²) == d[m]` of the soft
                 modules and `12/(w³+h³) · Σ_c area_c·a[m_r][c]·disp_r == d[m_r]` of every rectangle of a movable hard module
                 (`disp_r` = the default dispersion function on the offsets, the shorter side's offset stretched by the
                 aspect ratio); for every net with other than two pins the anonymous centre variables `ex, ey` (`lb=0`)
                 and their defining equations `Σ_pins x[p] / n == ex` (y alike);
    * objective terms (`Row.obj`, the `g.Minimize(...)` calls, in posting order): per two-pin net
                 `alpha·w·((x0-x1)² + (y0-y1)²)/2`, per pin of a larger net `alpha·w·((ex-x[p])² + (ey-y[p])²)`, and
                 `(1-alpha)·Σ d` at the end.
                 NOT MODELLED: initial values of variables (`value=`); the helper variables GEKKO creates inside `g.sum`;
                 dispersion functions other than the default `x² + y²` (the only one `glbfloor`'s command line uses).

  Python's constant folding is followed: `cells[c].area * model.a[m][c]` is a number when the ratio is frozen and the
  GEKKO expression `((area)*(a_m_c))` otherwise; `alpha * e.weight`, `6 / area**(3/2)`, `12 / (w**3 + h**3)`, `h / w`,
  `1 - alpha` are numbers before GEKKO sees them; a two-pin net between two fixed modules contributes a plain number.
  Python's float power (`**` with a float left operand) is the parameter `Input.powF` (`Float.pow` when executed).  The "model modules" (`modules` in the Python: soft and fixed modules,
  movable hard ones replaced by one fake module per rectangle) are `Glb.modelModules`; constants vs variables are
  `Glb.aIsConst` / `Glb.getA`.  Terminals are not supported by `glbfloor` (its initial allocation rejects them).
-/
namespace FV.GlbOpt
open FV FV.Glb

/-- GEKKO variables of the model, by role (`ex e`, `ey e`: the anonymous centre variables of net number `e`). -/
inductive V
  | a (m : String) (c : Nat)
  | x (m : String)
  | y (m : String)
  | d (m : String)
  | ex (e : Nat)
  | ey (e : Nat)
  deriving DecidableEq, Repr

/-- a general scalar GEKKO expression (fully parenthesised infix in GEKKO's printing): numbers, variables,
    `(a+b)`, `(a-b)`, `((a)*(b))`, `((a)/(b))`, `((a)^(2))`. -/
inductive X (α : Type)
  | num (v : α)
  | var (v : V)
  | add (a b : X α)
  | sub (a b : X α)
  | mul (a b : X α)
  | div (a b : X α)
  | sq (a : X α)
  deriving Repr

/-- an element of a `g.sum([...])`: a number, a variable, `((k)*(v))`, or a general expression. -/
inductive T (α : Type)
  | num (v : α)
  | var (v : V)
  | lin (k : α) (v : V)
  | gen (e : X α)
  deriving Repr

/-- the expression shapes `optimize_allocation` posts (no recursion through sums needed). -/
inductive E (α : Type)
  | num (v : α)
  | var (v : V)
  | sum (l : List (T α))                -- g.sum([...])
  | scaled (k : α) (l : List (T α))     -- ((k)*(g.sum([...])))
  | diff (p q : V)                      -- (p-q)
  | sqdiff (p q : V)                    -- ((p-q))^(2)
  | sumDiv (l : List (T α)) (n : α)     -- ((g.sum([...]))/(n))
  | gen (e : X α)                       -- anything without a sum
  deriving Repr

inductive Cmp | le | ge | eq
  deriving DecidableEq, Repr

inductive Row (α : Type)
  | eqn (name : String) (lhs : E α) (cmp : Cmp) (rhs : E α)     -- g.Equation(lhs cmp rhs)
  | obj (name : String) (e : E α)                                -- g.Minimize(e)
  deriving Repr

structure Posted (α : Type) where
  vars : List (V × Option α × Option α)
  consts : List (V × α)
  rows : List (Row α)

/-- what the generator reads. -/
structure Input (α : Type) where
  die : Rect α
  epsD : α
  thr : α
  alpha : α
  offered : List (RectAlloc α)
  mods : List (Module α)
  areaOf : String → α                    -- `module.area()` of the soft and fixed modules (by name)
  edges : List (α × List String)         -- the nets in order: weight, names of the pins
  powF : α → α → α                       -- Python `float ** number`

variable {α : Type} [Add α] [Sub α] [Mul α] [Div α] [Neg α] [LT α] [LE α]
  [DecidableLT α] [DecidableLE α] [NatCast α] [DecidableEq α]

/-- a movable hard module (gets fake modules and its own variables). -/
def movable (m : Module α) : Bool := m.hard && !m.fixed

/-- `module.area()` of a model module: a fake module has the area of its rectangle. -/
def mmArea (inp : Input α) (mm : Module α) : α :=
  if movable mm then (match mm.rects with | [r] => r.area | _ => Glb.zero) else inp.areaOf mm.name

/-- is `model.a[mm][c]` a float (and which)? -/
def constA (inp : Input α) (mm : Module α) (c : Nat) : Option α :=
  match getA inp.offered mm c with
  | none => none
  | some v => if aIsConst inp.epsD inp.thr inp.offered mm c then some v else none

/-- `model.a[mm][c]` as a sum element. -/
def aTerm (inp : Input α) (mm : Module α) (c : Nat) : T α :=
  match constA inp mm c with
  | some v => .num v
  | none => .var (.a mm.name c)

/-- `k * model.a[mm][c]` (Python folds the product when the ratio is a float). -/
def kaTerm (inp : Input α) (k : α) (mm : Module α) (c : Nat) : T α :=
  match constA inp mm c with
  | some v => .num (k * v)
  | none => .lin k (.a mm.name c)

def cellIdx (inp : Input α) : List Nat := List.range inp.offered.length
def cellArea (inp : Input α) (c : Nat) : α := match inp.offered[c]? with | some ra => ra.rect.area | none => Glb.zero
def cellCx (inp : Input α) (c : Nat) : α := match inp.offered[c]? with | some ra => ra.rect.cx | none => Glb.zero
def cellCy (inp : Input α) (c : Nat) : α := match inp.offered[c]? with | some ra => ra.rect.cy | none => Glb.zero

/-- the fake modules of a movable hard module. -/
def fakes (m : Module α) : List (Module α) := m.rects.zipIdx.map fun (rect, r) => fakeModule m r rect

/-! ### declarations -/

def xyVars (inp : Input α) (n : String) : List (V × Option α × Option α) :=
  [(.x n, some inp.die.xmin, some inp.die.xmax), (.y n, some inp.die.ymin, some inp.die.ymax)]

def varsOf (inp : Input α) : List (V × Option α × Option α) :=
  let mm := modelModules inp.mods
  (mm.flatMap fun m => if m.fixed then [] else xyVars inp m.name ++ [(.d m.name, some Glb.zero, none)]) ++
  (mm.flatMap fun m => (cellIdx inp).filterMap fun c =>
    match constA inp m c with
    | some _ => none
    | none => some (.a m.name c, some Glb.zero, some Glb.one)) ++
  ((inp.mods.filter movable).flatMap fun m =>
    xyVars inp m.name ++ (cellIdx inp).map fun c => (.a m.name c, some Glb.zero, some Glb.one)) ++
  (inp.edges.zipIdx.flatMap fun (ed, e) =>
    match ed.2 with
    | [_, _] => []
    | _ => [(V.ex e, some Glb.zero, none), (V.ey e, some Glb.zero, none)])

def constsOf (inp : Input α) : List (V × α) :=
  let mm := modelModules inp.mods
  (mm.filter (·.fixed)).map (fun m => (V.x m.name, m.cx)) ++
  (mm.filter (·.fixed)).map (fun m => (V.y m.name, m.cy)) ++
  (mm.flatMap fun m => (cellIdx inp).filterMap fun c => (constA inp m c).map fun v => (V.a m.name c, v))

/-! ### equations -/

/-- `model.x[m]` / `model.y[m]` as the right-hand side of a centroid equation. -/
def xRhs (m : Module α) : E α := if m.fixed then .num m.cx else .var (.x m.name)
def yRhs (m : Module α) : E α := if m.fixed then .num m.cy else .var (.y m.name)

def capacityRows (inp : Input α) : List (Row α) :=
  (cellIdx inp).map fun c =>
    .eqn s!"cap_{c}" (.sum ((modelModules inp.mods).map fun m => aTerm inp m c)) .le (.num Glb.one)

/-! ### dispersion -/

/-- the default `dispersion_function`: `x**2 + y**2`. -/
def dispF (x y : X α) : X α := .add (.sq x) (.sq y)

/-- `cells[c].area * model.a[mm][c] * D` (the first product is a number when the ratio is a float). -/
def dispTerm (inp : Input α) (mm : Module α) (c : Nat) (D : X α) : T α :=
  match constA inp mm c with
  | some v => .gen (.mul (.num (cellArea inp c * v)) D)
  | none => .gen (.mul (.mul (.num (cellArea inp c)) (.var (.a mm.name c))) D)

/-- `model.x[m]` / `model.y[m]` of a model module inside an expression. -/
def xX (m : Module α) : X α := if m.fixed then .num m.cx else .var (.x m.name)
def yX (m : Module α) : X α := if m.fixed then .num m.cy else .var (.y m.name)

/-- `6 / module.area()**(3 / 2) * g.sum([cells[c].area * model.a[m][c] * dispersion_function(model.x[m] - cells[c].center.x,
    model.y[m] - cells[c].center.y) for c in range(n_cells)]) == model.d[m]` (soft modules). -/
def softDispRow (inp : Input α) (m : Module α) : Row α :=
  let k := ((6 : Nat) : α) / inp.powF (mmArea inp m) (((3 : Nat) : α) / ((2 : Nat) : α))
  .eqn s!"disp_{m.name}"
    (.scaled k ((cellIdx inp).map fun c =>
      dispTerm inp m c (dispF (.sub (xX m) (.num (cellCx inp c))) (.sub (yX m) (.num (cellCy inp c))))))
    .eq (.var (.d m.name))

/-- the dispersion equation of rectangle `i` (`rect`, shape `w × h`) of the movable hard module `m`:
    `12 / (w**3 + h**3) * g.sum([cells[c].area * model.a[mr][c] * (dispersion_function(h / w * (x - cx), y - cy) if w < h
    else dispersion_function(x - cx, w / h * (y - cy))) for c …]) == model.d[mr]`. -/
def hardDispRow (inp : Input α) (m : Module α) (i : Nat) (rect : Rect α) : Row α :=
  let w := rect.w
  let h := rect.h
  let three : α := ((3 : Nat) : α)
  let k := ((12 : Nat) : α) / (inp.powF w three + inp.powF h three)
  let f := fakeModule m i rect
  let xv : X α := .var (.x f.name)
  let yv : X α := .var (.y f.name)
  .eqn s!"disp_{f.name}"
    (.scaled k ((cellIdx inp).map fun c =>
      let dx : X α := .sub xv (.num (cellCx inp c))
      let dy : X α := .sub yv (.num (cellCy inp c))
      dispTerm inp f c (if w < h then dispF (.mul (.num (h / w)) dx) dy else dispF dx (.mul (.num (w / h)) dy))))
    .eq (.var (.d f.name))

def moduleRows (inp : Input α) (m : Module α) : List (Row α) :=
  let area := mmArea inp m
  let k := Glb.one / area
  [ .eqn s!"area_{m.name}" (.sum ((cellIdx inp).map fun c => kaTerm inp (cellArea inp c) m c)) .ge (.num area),
    .eqn s!"cx_{m.name}" (.scaled k ((cellIdx inp).map fun c => kaTerm inp (cellArea inp c * cellCx inp c) m c)) .eq (xRhs m),
    .eqn s!"cy_{m.name}" (.scaled k ((cellIdx inp).map fun c => kaTerm inp (cellArea inp c * cellCy inp c) m c)) .eq (yRhs m) ] ++
  (if m.hard then [] else [softDispRow inp m])

/-- offset equation between two variables: linear, or squared when the module may flip. -/
def offsetRow (name : String) (flip : Bool) (p q : V) (delta : α) : Row α :=
  if flip then .eqn name (.sqdiff p q) .eq (.num (delta * delta)) else .eqn name (.diff p q) .eq (.num delta)

def pairRows (inp : Input α) (m : Module α) : List (Row α) :=
  m.rects.zipIdx.flatMap fun (r, i) =>
    (m.rects.zipIdx.flatMap fun (r', j) =>
      if i < j then
        [ offsetRow s!"px_{m.name}_{i}_{j}" m.flip (.x (subName m.name i)) (.x (subName m.name j)) (r.cx - r'.cx),
          offsetRow s!"py_{m.name}_{i}_{j}" m.flip (.y (subName m.name i)) (.y (subName m.name j)) (r.cy - r'.cy) ]
      else []) ++ [hardDispRow inp m i r]

def hardRows (inp : Input α) (m : Module α) : List (Row α) :=
  let r0cx := match m.rects with | r :: _ => r.cx | [] => Glb.zero
  let r0cy := match m.rects with | r :: _ => r.cy | [] => Glb.zero
  [ offsetRow s!"ox_{m.name}" m.flip (.x m.name) (.x (subName m.name 0)) (m.cx - r0cx),
    offsetRow s!"oy_{m.name}" m.flip (.y m.name) (.y (subName m.name 0)) (m.cy - r0cy) ] ++
  ((cellIdx inp).map fun c =>
    .eqn s!"hsum_{m.name}_{c}" (.var (.a m.name c)) .eq (.sum ((fakes m).map fun f => aTerm inp f c))) ++
  pairRows inp m

/-- a net pin that is a fixed module: its centre (`model.x[name]`, `model.y[name]` are floats). -/
def pinFixed (inp : Input α) (n : String) : Option (α × α) :=
  match inp.mods.find? (fun m => m.name == n) with
  | some m => if m.fixed then some (m.cx, m.cy) else none
  | none => none

/-- the pin `model.x[name]` / `model.y[name]` of a net: the float of a fixed module, otherwise the variable
    (names of nets are names of netlist modules: guaranteed by `Netlist`). -/
def pinX (inp : Input α) (n : String) : X α :=
  match pinFixed inp n with
  | some c => .num c.1
  | none => .var (.x n)
def pinY (inp : Input α) (n : String) : X α :=
  match pinFixed inp n with
  | some c => .num c.2
  | none => .var (.y n)

def asT : X α → T α
  | .num v => .num v
  | .var v => .var v
  | e => .gen e

/-- `alpha * e.weight * ((x0 - x1)**2 + (y0 - y1)**2) / 2`; a plain number when both pins are fixed modules. -/
def twoPinTerm (inp : Input α) (w : α) (p q : String) : E α :=
  let k := inp.alpha * w
  match pinFixed inp p, pinFixed inp q with
  | some c0, some c1 =>
    .num (k * ((c0.1 - c1.1) * (c0.1 - c1.1) + (c0.2 - c1.2) * (c0.2 - c1.2)) / ((2 : Nat) : α))
  | _, _ =>
    .gen (.div (.mul (.num k) (.add (.sq (.sub (pinX inp p) (pinX inp q))) (.sq (.sub (pinY inp p) (pinY inp q)))))
      (.num ((2 : Nat) : α)))

/-- the rows of net number `e` (`weight`, `pins`): one objective term for a two-pin net; otherwise the two centre
    equations and one objective term per pin. -/
def edgeRows (inp : Input α) (e : Nat) (w : α) (pins : List String) : List (Row α) :=
  match pins with
  | [p, q] => [.obj s!"net_{e}" (twoPinTerm inp w p q)]
  | _ =>
    let n : α := ((pins.length : Nat) : α)
    [ .eqn s!"hx_{e}" (.sumDiv (pins.map fun p => asT (pinX inp p)) n) .eq (.var (.ex e)),
      .eqn s!"hy_{e}" (.sumDiv (pins.map fun p => asT (pinY inp p)) n) .eq (.var (.ey e)) ] ++
    pins.map fun p =>
      .obj s!"net_{e}_{p}" (.gen (.mul (.num (inp.alpha * w))
        (.add (.sq (.sub (.var (.ex e)) (pinX inp p))) (.sq (.sub (.var (.ey e)) (pinY inp p))))))

/-- `model.d.values()`: the dispersion variables, in creation order. -/
def dVars (inp : Input α) : List V :=
  ((modelModules inp.mods).filter fun m => !m.fixed).map fun m => V.d m.name

def rowsOf (inp : Input α) : List (Row α) :=
  capacityRows inp ++
  ((modelModules inp.mods).flatMap fun m => moduleRows inp m) ++
  ((inp.mods.filter movable).flatMap fun m => hardRows inp m) ++
  (inp.edges.zipIdx.flatMap fun (ed, e) => edgeRows inp e ed.1 ed.2) ++
  [.obj "dispersion" (.scaled (Glb.one - inp.alpha) ((dVars inp).map fun v => .var v))]

/-- everything `optimize_allocation` posts. -/
def post (inp : Input α) : Posted α := ⟨varsOf inp, constsOf inp, rowsOf inp⟩

/-! ### meaning -/

def lsum : List α → α
  | [] => Glb.zero
  | x :: xs => x + lsum xs

def evalX (σ : V → α) : X α → α
  | .num v => v
  | .var v => σ v
  | .add a b => evalX σ a + evalX σ b
  | .sub a b => evalX σ a - evalX σ b
  | .mul a b => evalX σ a * evalX σ b
  | .div a b => evalX σ a / evalX σ b
  | .sq a => evalX σ a * evalX σ a

def evalT (σ : V → α) : T α → α
  | .num v => v
  | .var v => σ v
  | .lin k v => k * σ v
  | .gen e => evalX σ e

def evalE (σ : V → α) : E α → α
  | .num v => v
  | .var v => σ v
  | .sum l => lsum (l.map (evalT σ))
  | .scaled k l => k * lsum (l.map (evalT σ))
  | .diff p q => σ p - σ q
  | .sqdiff p q => (σ p - σ q) * (σ p - σ q)
  | .sumDiv l n => lsum (l.map (evalT σ)) / n
  | .gen e => evalX σ e

/-- residual of a row under an assignment: how far it is from being satisfied (0 = satisfied). -/
def residual (σ : V → α) : Row α → α
  | .obj _ _ => Glb.zero
  | .eqn _ l cmp r =>
    let a := evalE σ l
    let b := evalE σ r
    match cmp with
    | .le => if b < a then a - b else Glb.zero
    | .ge => if a < b then b - a else Glb.zero
    | .eq => if a < b then b - a else a - b

/-- the objective GEKKO minimises: the sum of the `g.Minimize` terms. -/
def objective (σ : V → α) (p : Posted α) : α :=
  lsum (p.rows.filterMap fun r => match r with | .obj _ e => some (evalE σ e) | .eqn .. => none)

end FV.GlbOpt

import FV.Drv.Die
/-
  Line-protocol driver for the die model (C01): `<mode> <op> <args…>` per line on stdin, one reply line on
  stdout.  Mode `F` runs the model at `Float` (`math.sqrt` = `Float.sqrt`, both correctly rounded), mode `Q`
  at `Rat` (the square root is supplied by the caller; the document ops use the 30-digit `ratSqrt`).
  The `while` loops of `split_rectangles` get a fixed fuel at `Float` and the provably sufficient `fuelQ` at `Rat`.
-/
open FV FV.Drv

def handle (line : String) : String :=
  match splitReq line with
  | some ("F", op, args) =>
      ((dieOp (α := Float) (some Float.sqrt) op args).orElse fun _ =>
        docOp (α := Float) Float.sqrt 1e-12 (fun _ _ _ => 4000000) op args).getD "bad-op"
  | some ("Q", op, args) =>
      ((dieOp (α := Rat) none op args).orElse fun _ =>
        docOp (α := Rat) ratSqrt (mkRat 1 (10 ^ 12)) FV.DieObj.fuelQ op args).getD "bad-op"
  | _ => "bad-op"

def main : IO Unit := mainLoop handle

import FV.Drv.Strop
/-
  Line-protocol driver for the STrOP model (C15): `<mode> <op> <args…>` per line on stdin, one reply line on
  stdout.  Mode `G` = grid ops (integers / Booleans), `F` = coordinates at `Float`, `Q` = at `Rat`.
-/
open FV FV.Drv

def handle (line : String) : String :=
  match splitReq line with
  | some ("G", op, args) => (stropGridOp op args).getD "bad-op"
  | some ("F", op, args) => (stropCoordOp (α := Float) op args).getD "bad-op"
  | some ("Q", op, args) => (stropCoordOp (α := Rat) op args).getD "bad-op"
  | _ => "bad-op"

def main : IO Unit := mainLoop handle

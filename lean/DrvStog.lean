import FV.Drv.Stog
/-
  Line-protocol driver for the STOG recogniser (C06) and die refinement (C11) models.
  Mode `F` runs the model at `Float`, mode `Q` at `Rat`.
-/
open FV FV.Drv

def handle (line : String) : String :=
  match splitReq line with
  | some ("F", op, args) => (stogOp (α := Float) op args).getD "bad-op"
  | some ("Q", op, args) => (stogOp (α := Rat) op args).getD "bad-op"
  | _ => "bad-op"

def main : IO Unit := mainLoop handle

import FV.Drv.Geom
/-
  Line-protocol driver: `<mode> <op> <args…>` per line on stdin, one reply line on stdout.
  Mode `F` runs the model at `Float`, mode `Q` at `Rat`; integer/Boolean models ignore the mode.
-/
open FV FV.Drv

def tables (mode : String) (op : String) (args : List String) : Option String :=
  let fs : List (Option String) :=
    if mode == "F" then [geomOp (α := Float) op args]
    else if mode == "Q" then [geomOp (α := Rat) op args]
    else []
  fs.findSome? id

def handle (line : String) : String :=
  match (line.splitOn " ").filter (· ≠ "") with
  | mode :: op :: args => (tables mode op args).getD "bad-op"
  | _ => "bad-op"

partial def loop (hin : IO.FS.Stream) (hout : IO.FS.Stream) : IO Unit := do
  let line ← hin.getLine
  if line.isEmpty then return ()
  let l := (line.replace "\n" "").replace "\r" ""
  hout.putStrLn (handle l)
  loop hin hout

def main : IO Unit := do
  let hin ← IO.getStdin
  let hout ← IO.getStdout
  loop hin hout

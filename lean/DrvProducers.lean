import FV.Drv.Producers
/-
  Line-protocol driver for the producer models (property C19): `<mode> <op> <args…>` per line on stdin, one reply line
  on stdout.  Mode `F` runs the model at `Float`, mode `Q` at `Rat`.
-/
open FV FV.Drv FV.Drv.Prod

def handle (line : String) : String :=
  match splitReq line with
  | some ("F", op, args) => (prodOp (α := Float) Float.sqrt op args).getD "bad-op"
  | some ("Q", op, args) => (prodOp (α := Rat) (fun x => x) op args).getD "bad-op"     -- no op that takes roots is run at `Rat`
  | _ => "bad-op"

def main : IO Unit := mainLoop handle

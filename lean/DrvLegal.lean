import FV.Drv.Legal
/-
  Line-protocol driver for the disc-overlap model (C17) and the legaliser constraint system (C09):
  `F <op> <args…>` per line on stdin, one reply line on stdout (models executed at `Float`, with the C
  library's pow / sqrt / acos / sin, the ones CPython calls).
-/
open FV FV.Drv

def handle (line : String) : String :=
  match splitReq line with
  | some ("F", op, args) => ((discOp op args).orElse fun _ => legalOp op args).getD "bad-op"
  | _ => "bad-op"

def main : IO Unit := mainLoop handle

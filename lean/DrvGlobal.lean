import FV.Drv.Global
open FV FV.Drv
def handle (line : String) : String :=
  match splitReq line with
  | some ("F", "regs", args) => (regsOp args).getD "bad-op"
  | some ("F", "satproc", args) => (satprocOp args).getD "bad-op"
  | some ("F", op, args) => (globalOp op args).getD "bad-op"
  | _ => "bad-op"
def main : IO Unit := mainLoop handle

import FV.Drv.Alloc
/-
  Line-protocol driver for the allocation model: `<mode> <op> <args…>` per line on stdin, one reply line
  on stdout.  Mode `F` runs the model at `Float` (literals `1e-12`, `0.01`, `Float.sqrt` = C `sqrt`),
  mode `Q` at `Rat` (the literals are the exact values of the doubles; `math.sqrt` is answered by the
  token `<sqrt-answer>` of the request, i.e. it is a parameter of the model).
-/
open FV FV.Alloc FV.Drv

def envF (_ : Float) : Env Float := ⟨1e-12, 0.01, Float.sqrt⟩
def envQ (s : Rat) : Env Rat :=
  ⟨mkRat 4951760157141521 4951760157141521099596496896, mkRat 5764607523034235 576460752303423488, fun _ => s⟩

def handle (line : String) : String :=
  match splitReq line with
  | some ("F", op, args) => (allocOp (α := Float) envF op args).getD "bad-op"
  | some ("Q", op, args) => (allocOp (α := Rat) envQ op args).getD "bad-op"
  | _ => "bad-op"

def main : IO Unit := mainLoop handle

import FV.Drv.PB
/-
  Line-protocol driver for the pseudo-Boolean / SAT-manager models (C16, C07): `P <op> <args…>` per line on stdin,
  one reply line on stdout.
-/
open FV FV.Drv

def handle (line : String) : String :=
  match splitReq line with
  | some ("P", op, args) => (pbOp op args).getD "bad-op"
  | _ => "bad-op"

def main : IO Unit := mainLoop handle

import FV.Drv.RectSearch
/- Line-protocol driver for the rectilinear shape search model (C08): `Q <op> <args…>` (all ops) / `F <op> <args…>` (`selbox`, `areas`: bit-exact doubles), one reply line. -/
open FV FV.Drv

def handle (line : String) : String :=
  match splitReq line with
  | some ("Q", op, args) => ((rectOp op args).orElse fun _ => ioOp (α := Rat) op args).getD "bad-op"
  | some ("F", op, args) => (ioOp (α := Float) op args).getD "bad-op"
  | _ => "bad-op"

def main : IO Unit := mainLoop handle

import FV.Drv.Place
/-
  Line-protocol driver for the placement models (C13 force-directed relocation, C14 spectral placement):
  `<mode> <op> <args…>` per line on stdin, one reply line on stdout.  Mode `F` = `Float` (all ops),
  mode `Q` = `Rat` (ops without square roots).
-/
open FV FV.Drv

def handle (line : String) : String :=
  match splitReq line with
  | some ("F", op, args) =>
      match placeOpGen (α := Float) op args with
      | some r => r
      | none => (placeOpNum opsF discF op args).getD "bad-op"
  | some ("Q", op, args) => (placeOpGen (α := Rat) op args).getD "bad-op"
  | _ => "bad-op"

def main : IO Unit := mainLoop handle

#!/venv/bin/python
"""C09 witness (open finding C09-min-side): the variable bounds of the legaliser exclude legal floorplans.

`ModelModule._define_vars` declares the width and height of every rectangle with the ABSOLUTE lower bound lb = 0.1.
A netlist written in a unit in which a module is narrower than 0.1 (die 1 x 1, two soft 0.05-wide modules) is a legal
floorplan — every equation of the system is met by its input configuration — but the input lies outside the declared
bounds, so the system "equations AND bounds" handed to the solver does not admit it (nor any legal floorplan with such a
side).  Lean: FV.C09.declared_excludes_small_legal, system_complete_declared_partial (hypothesis MinSide (1/10)).
Exit 1 while a legal input configuration violates a declared bound, 0 otherwise.  Honours FRAME_REPO.  GEKKO never solves.
"""
import contextlib
import io
import os
import shutil
import sys

sys.path.insert(0, os.environ.get("FRAME_REPO", "/repo"))
from frame.netlist.netlist import Netlist  # noqa: E402
from frame.geometry.geometry import Rectangle  # noqa: E402
from tools.legalfloor import legalfloor as lf, expression_tree as et, model as lm  # noqa: E402
import gekko as _gk  # noqa: E402

_made = []


class _RecGEKKO(_gk.GEKKO):  # remember the scratch directories GEKKO creates, to remove them at the end
    def __init__(self, *a, **k):
        super().__init__(*a, **k)
        _made.append(self._path)


lf.GEKKO = lm.GEKKO = _RecGEKKO


def build(yaml, dw, dh, ratio):
    Rectangle.undefine_epsilon()
    net = Netlist(yaml)
    ml, al, xl, yl, wl, hl, hyper, names = lf.netlist_to_utils(net)
    with contextlib.redirect_stdout(io.StringIO()):
        return lf.Model(ml, al, xl, yl, wl, hl, dw, dh, hyper, ratio, names, 0.9, 0.3, 1)


def num(v):
    for _ in range(4):
        if isinstance(v, (int, float)):
            return float(v)
        if hasattr(v, "value"):
            v = v.value
        elif isinstance(v, (list, tuple)):
            v = v[0]
    return float(v)


def finish(code):
    for p in _made:
        shutil.rmtree(p, ignore_errors=True)
    sys.exit(code)


YAML = """
Modules: {
  A: { area: 0.0025, rectangles: [[0.25, 0.5, 0.05, 0.05]] },
  B: { area: 0.01, rectangles: [[0.75, 0.5, 0.05, 0.2]] }
}
Nets: [[A, B]]
"""
m = build(YAML, 1.0, 1.0, 5.0)
et.set_epsilon(et.ExpressionTree(m.gekko.gekko, 0.0))
unmet = []
for mac in m.gekko.macros:
    unmet += [e.name for _, e in mac.get_constraints(m.gekko) if not e.is_equation_met()]
for g in ("Area", "Inter", "Fix"):
    unmet += [e.name for e in m.gekko.constraints.get(g, []) if not e.is_equation_met()]
bad = []
for i in range(len(m.M)):
    for j in range(len(m.x[i])):
        for k, arr in (("x", m.x), ("y", m.y), ("w", m.w), ("h", m.h)):
            t = arr[i][j]
            v, lo, up = num(t.evaluate()), num(t.value.LOWER), num(t.value.UPPER)
            if not (lo <= v <= up):
                bad.append("%s%di%d = %g outside [%g, %g]" % (k, i, j, v, lo, up))
print("equations unmet by the (legal) input configuration:", unmet)
print("declared bounds violated by the (legal) input configuration:", bad)
finish(1 if (not unmet and bad) else 0)

#!/venv/bin/python
"""C13 witness: with `visualize` the force-directed layout does not return the layout it computed.

fruchterman_reingold_layout writes the centres back after every iteration when `visualize is not None` and then calls
get_floorplan_plot; the plot (tools/draw/draw.py: calculate_centers -> Module.calculate_center_from_rectangles) ASSIGNS
the centre of every module that has rectangles and sits on a net.  The code as found does not write the centres once
more after the loop in that case, so a movable hard module comes back at the centroid of its (unmoved) rectangles
instead of the position of the layout: force_algorithm(die, visualize=...) returns a layout that is none of the layouts
it scored, and differs from force_algorithm(die).
Exit 1 (and say what differs) on defective code, exit 0 once repaired.  Honours FRAME_REPO.
"""
import os
import sys
from copy import deepcopy

sys.path.insert(0, os.environ.get("FRAME_REPO", "/repo"))
from frame.netlist.netlist import Netlist  # noqa: E402
from frame.die.die import Die  # noqa: E402
from frame.geometry.geometry import Rectangle  # noqa: E402
from tools.force import fruchterman_reingold as FR  # noqa: E402

TEXT = """
Modules: {
  A: {area: 6.0, center: [2.0, 2.0]},
  B: {area: 4.0, center: [6.0, 5.0]},
  H: {hard: true, rectangles: [[3.0, 4.0, 2.0, 2.0]]},
  T: {terminal: true, fixed: true, center: [0.0, 3.0]}
}
Nets: [[A, H], [B, H, T], [A, B]]
"""
bad = 0
for what, iters in (("layout", 3), ("force", 2), ("layout", 0)):
    Rectangle.undefine_epsilon()
    die = Die("8x6", Netlist(TEXT))
    plain, vis = deepcopy(die), deepcopy(die)
    if what == "layout":
        FR.fruchterman_reingold_layout(plain, 0.7, max_iter=iters)
        FR.fruchterman_reingold_layout(vis, 0.7, visualize="x.gif", max_iter=iters)
    else:
        FR.force_algorithm(plain, max_iter=iters)
        FR.force_algorithm(vis, visualize="x.gif", max_iter=iters)
    for a, b in zip(plain.netlist.modules, vis.netlist.modules):
        ca, cb = (a.center.x, a.center.y), (b.center.x, b.center.y)
        if ca != cb:
            print(f"FAIL {what}(max_iter={iters}): module {a.name}: centre {ca} without visualize, {cb} with visualize")
            bad += 1
sys.exit(1 if bad else 0)

#!/venv/bin/python
"""C19 witness: `tools/rect/rect_io.py::get_netlist` divides 0/0 on a valid allocation.

The running centroid of a module is merged with `a1 / (a1 + a2)`.  When the first two cells that list the module both
give it ratio 0 (allocations written with `include_area_zero`), `a1 + a2` is 0 although the module has area elsewhere.
Exits 1 on the defective code, 0 once repaired (fixes/C19_rectio_zero_ratio.diff).
"""
import os
import sys
import tempfile

sys.path.insert(0, os.environ.get("FRAME_REPO", "/repo"))
from frame.allocation.allocation import Allocation  # noqa: E402
from tools.rect.rect_io import get_netlist  # noqa: E402

a = Allocation([[[1, 1, 2, 2], {"A": 0.0}], [[3, 1, 2, 2], {"A": 0.0}], [[1, 3, 2, 2], {"A": 0.5}]])
with tempfile.TemporaryDirectory() as td:
    fn = os.path.join(td, "alloc.yaml")
    a.write_yaml(fn)
    try:
        n = get_netlist(None, fn)
    except ZeroDivisionError as e:
        print("FAIL: get_netlist raises on an allocation the reader accepts:", e)
        sys.exit(1)
m = n.get_module("A")
if abs(m.area() - 2.0) > 1e-12 or (m.center.x, m.center.y) != (1.0, 3.0):
    print("FAIL: module A should have area 2 centred at (1, 3); got", m.area(), m.center)
    sys.exit(1)
print("ok")
sys.exit(0)

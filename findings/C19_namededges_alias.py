#!/venv/bin/python
"""C19 witness: dumping the nets of a FloorSet instance alters them.

`dump_yaml_namededges` takes `edge = e.modules` (the edge's own list) and appends the weight to it.  The first
`write_yaml_FPEF()` is fine; the instance's net now reads `['M0', 'M1', 2.0]`, so the second document says
`[M0, M1, 2.0, 2.0]`, which the netlist reader rejects.  Exits 1 on the defective code, 0 once repaired
(fixes/C19_namededges_alias.diff).
"""
import os
import sys

sys.path.insert(0, os.environ.get("FRAME_REPO", "/repo"))
from frame.netlist.netlist_types import NamedHyperEdge  # noqa: E402
from frame.netlist.yaml_write_netlist import dump_yaml_namededges  # noqa: E402
from frame.netlist.netlist import Netlist  # noqa: E402
from frame.utils.utils import write_yaml  # noqa: E402

nets = [NamedHyperEdge(["M0", "M1"], 2.0), NamedHyperEdge(["M1", "M2"], 1)]
mods = {m: {"area": 1.0} for m in ("M0", "M1", "M2")}
doc1 = write_yaml({"Modules": mods, "Nets": dump_yaml_namededges(nets)})
after1 = [list(e.modules) for e in nets]
doc2 = write_yaml({"Modules": mods, "Nets": dump_yaml_namededges(nets)})
bad = False
if after1 != [["M0", "M1"], ["M1", "M2"]]:
    print("FAIL: the edges were altered by dumping them:", after1)
    bad = True
if doc1 != doc2:
    print("FAIL: two dumps of the same nets differ; second Nets section:\n" + doc2[doc2.index("Nets"):])
    bad = True
for k, d in enumerate((doc1, doc2)):
    try:
        Netlist(d)
    except AssertionError as e:
        print(f"FAIL: document {k + 1} is rejected by the reader: {e}")
        bad = True
if bad:
    sys.exit(1)
print("ok")
sys.exit(0)

#!/venv/bin/python
"""C09 witness: the legaliser pins the branches of hard / fixed modules at the wrong place.

`netlist_to_utils` hands `Model.fix` the *absolute* centre of every branch of a hard module, and `fix`
adds the trunk's centre to it when the number is a float (`fix_x: x1i1 == 15.5 + x1i0`), so the input
configuration of an already legal floorplan violates the system; when the number is an int the branch is
pinned at its absolute place although the module is only hard (movable), so a translated — legal —
placement is rejected.  Exit 1 on defective code, 0 once repaired.  Honours FRAME_REPO.  GEKKO never solves.
"""
import contextlib
import io
import os
import shutil
import sys

sys.path.insert(0, os.environ.get("FRAME_REPO", "/repo"))
from frame.netlist.netlist import Netlist  # noqa: E402
from tools.legalfloor import legalfloor as lf, expression_tree as et, model as lm  # noqa: E402
import gekko as _gk  # noqa: E402

_made = []


class _RecGEKKO(_gk.GEKKO):  # remember the scratch directories GEKKO creates, to remove them at the end
    def __init__(self, *a, **k):
        super().__init__(*a, **k)
        _made.append(self._path)


lf.GEKKO = lm.GEKKO = _RecGEKKO

YAML = """
Modules: {
  A: { rectangles: [[5, 5, 6, 4], [7, 8, 2, 2], [9, 5, 2, 2]], hard: true },
  B: { rectangles: [[15.5, 5.0, 5.0, 4.0], [15.5, 8.5, 3.0, 3.0]], fixed: true },
  C: { area: 12, rectangles: [[3.0, 12.0, 4.0, 3.0]] }
}
Nets: [[A, B, C]]
"""
net = Netlist(YAML)
ml, al, xl, yl, wl, hl, hyper, names = lf.netlist_to_utils(net)
with contextlib.redirect_stdout(io.StringIO()):
    m = lf.Model(ml, al, xl, yl, wl, hl, 20.0, 20.0, hyper, 3.0, names, 0.9, 0.3, 1)
et.set_epsilon(et.ExpressionTree(m.gekko.gekko, 0.0))


def unmet():
    out = []
    for group, eqs in m.gekko.constraints.items():
        if group in ("Area", "Inter", "Fix"):
            out += [(group, e.name, str(e.lhs), e.cmp.name, str(e.rhs), e.lhs.evaluate(), e.rhs.evaluate())
                    for e in eqs if not e.is_equation_met()]
    for mac in m.gekko.macros:
        out += [(g, e.name, str(e.lhs), e.cmp.name, str(e.rhs), e.lhs.evaluate(), e.rhs.evaluate())
                for g, e in mac.get_constraints(m.gekko) if not e.is_equation_met()]
    return out


bad = 0
for u in unmet():
    print("FAIL legal input floorplan violates", u)
    bad += 1
# move the hard (not fixed) module A by (+1, +0.5): still inside the die, no overlap, same shape -> legal
for i in range(3):
    m.x[0][i].assign(m.x[0][i].evaluate() + 1.0)
    m.y[0][i].assign(m.y[0][i].evaluate() + 0.5)
for u in unmet():
    print("FAIL translated hard module A (legal) violates", u)
    bad += 1
for d in _made:
    shutil.rmtree(d, ignore_errors=True)
sys.exit(1 if bad else 0)

#!/venv/bin/python
"""C19 witness: `tools/legalfloor/legalfloor.py::Model.get_netlist` drops the net weights.

The model keeps `hyper = [(weight, members)]`, but the emitted text lists only the members, so a net of weight 2.5
comes back with weight 1.  Exits 1 on the defective code, 0 once repaired (fixes/C19_legalfloor_weights.diff).
"""
import contextlib
import io
import os
import sys

sys.path.insert(0, os.environ.get("FRAME_REPO", "/repo"))
from frame.netlist.netlist import Netlist  # noqa: E402
from tools.legalfloor import legalfloor as lf  # noqa: E402

src = Netlist("""
Modules: {
  A: {area: 4, rectangles: [[2, 2, 2, 2]]},
  B: {rectangles: [[6, 3, 2, 2]], fixed: true},
}
Nets: [[A, B, 2.5]]
""")
with contextlib.redirect_stdout(io.StringIO()):
    ml, al, xl, yl, wl, hl, hyper, og = lf.netlist_to_utils(src)
    m = lf.Model(ml, al, xl, yl, wl, hl, 8.0, 8.0, hyper, 3.0, og, 0.9, 0.3, 1.0, 1)
    out = m.get_netlist()
w = [e.weight for e in out.edges]
print("weights in the model:", [h[0] for h in m.hyper], " in the emitted netlist:", w)
if w != [2.5]:
    print("FAIL: the weight of net [A, B] is lost")
    sys.exit(1)
print("ok")
sys.exit(0)

#!/venv/bin/python
"""C02/C12 witness: the y loop of `griddify` iterates `range(1, len(x_cuts) - 1)` instead of the y cuts.

(a) more x boundaries than y boundaries: three columns of full height -> `y_cuts[i]` raises IndexError;
(b) more y boundaries than x boundaries: a column next to three stacked cells -> the upper y cut is skipped and the
    column stays crossed by the line y = 2 of its neighbours.
Exits 1 on the defective code, 0 once repaired (fixes/C02_griddify_yloop.diff).
"""
import os
import sys

sys.path.insert(0, os.environ.get("FRAME_REPO", "/repo"))
from frame.allocation.allocation import Allocation  # noqa: E402
from frame.geometry.geometry import Rectangle  # noqa: E402

bad = 0
Rectangle.undefine_epsilon()
a = Allocation("[[[0.5,1,1,2], {M1: 0.5}], [[1.5,1,1,2], {M1: 0.5}], [[2.5,1,1,2], {M2: 0.5}], [[3.5,1,1,2], {M2: 1}]]\n# k: v\n")
try:
    g = a.griddify()
    print("(a) 5 x-boundaries, 2 y-boundaries:", g.num_rectangles, "cells")
except IndexError as e:
    print("(a) FAIL: griddify raised IndexError:", e)
    bad = 1
Rectangle.undefine_epsilon()
b = Allocation("[[[1,1.5,2,3], {M1: 0.5}], [[3,0.5,2,1], {M1: 0.5}], [[3,1.5,2,1], {M2: 0.5}], [[3,2.5,2,1], {M2: 1}]]\n# k: v\n")
g = b.griddify()
crossed = [r.rect.vector_spec[:4] for r in g.allocations
           if r.rect.bounding_box.ll.y < 2 < r.rect.bounding_box.ur.y]
print("(b) 3 x-boundaries, 4 y-boundaries:", g.num_rectangles, "cells; cells crossed by the line y = 2:", crossed)
if crossed or g.num_rectangles != 6:
    print("(b) FAIL: the cut at y = 2 was skipped")
    bad = 1
print("ok" if not bad else "defective")
sys.exit(bad)

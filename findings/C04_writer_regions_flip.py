#!/venv/bin/python
"""C04 witness: `Netlist.write_yaml` loses per-region areas and the `flip` attribute.

  * a soft module with `area: {_: 3, dsp: 2}` is written as `area: 5.0` (the total), so it is read back as
    5.0 of ground area; `area: {dsp: 2}` comes back as ground area 2.0;
  * a hard module with `flip: true` is written without `flip`, so it is read back as not flippable.

Exit 1 (and say what differs) on the defective writer, exit 0 once frame/netlist/yaml_write_netlist.py is repaired
(fixes/C04_writer_regions_flip.diff).  Run:  FRAME_REPO=/path/to/FRAME /venv/bin/python findings/C04_writer_regions_flip.py
"""
import os
import sys

sys.path.insert(0, os.environ.get("FRAME_REPO", "/repo"))
from frame.netlist.netlist import Netlist  # noqa: E402
from frame.geometry.geometry import Rectangle  # noqa: E402

DOC = {
    "Modules": {
        "A": {"area": {"_": 3, "dsp": 2}},
        "B": {"area": {"dsp": 2}},
        "H": {"hard": True, "flip": True, "rectangles": [[2, 2, 4, 2], [1, 4, 2, 2]]},
    },
    "Nets": [["A", "B", "H"]],
}

Rectangle.undefine_epsilon()
n = Netlist(DOC)
text = n.write_yaml()
Rectangle.undefine_epsilon()
n2 = Netlist(text)
bad = []
for m, m2 in zip(n.modules, n2.modules):
    if dict(m.area_regions) != dict(m2.area_regions):
        bad.append(f"module {m.name}: area by region {dict(m.area_regions)} read back as {dict(m2.area_regions)}")
    if m.flip != m2.flip:
        bad.append(f"module {m.name}: flip={m.flip} read back as flip={m2.flip}")
if bad:
    print("write -> read round trip does not preserve the design:")
    for b in bad:
        print("  " + b)
    print("document written:\n" + text)
    sys.exit(1)
print("round trip preserves per-region areas and flip")
sys.exit(0)

#!/venv/bin/python
"""C17 witness: circle_circle_intersection_area divides by zero for tiny discs.

For lengths below ~1e-154 the divisor `2 * r1 * d` of the arccosine argument underflows to 0.0 and Python
raises ZeroDivisionError, although the two discs are perfectly ordinary (a small disc crossing the rim of a
larger one).  Exit 1 (and say what fails) on defective code, exit 0 once repaired.  Honours FRAME_REPO.
"""
import math
import os
import sys

sys.path.insert(0, os.environ.get("FRAME_REPO", "/repo"))
from tools.force.fruchterman_reingold import circle_circle_intersection_area as area  # noqa: E402
from frame.geometry.geometry import Point  # noqa: E402

CASES = [  # (r1, r2, centre distance)
    (9.01165710384412e-171, 1.3105308960428737e-155, 1.3105308960428743e-155),
    (3e-160, 2e-160, 4e-160),       # a plain lens, everything scaled by 1e-160
    (1.5e-170, 1.5e-170, 2e-170),
]
bad = 0
for r1, r2, d in CASES:
    cap = math.pi * min(r1, r2) ** 2
    try:
        a = area(Point(0.0, 0.0), r1, Point(d, 0.0), r2)
        b = area(Point(d, 0.0), r2, Point(0.0, 0.0), r1)
    except ZeroDivisionError as e:
        print(f"FAIL r1={r1!r} r2={r2!r} d={d!r}: raises ZeroDivisionError({e})")
        bad += 1
        continue
    if not (0 <= a <= cap and 0 <= b <= cap):
        print(f"FAIL r1={r1!r} r2={r2!r} d={d!r}: area {a!r}/{b!r} outside [0, {cap!r}]")
        bad += 1
sys.exit(1 if bad else 0)

#!/venv/bin/python
"""C05 witness: a one-pin net is loaded instead of rejected when it carries a weight.

`Nets: [[A, 3.0]]` passes the reader's `len(e) >= 2` test because the weight is counted as an element; the result is a
hyperedge with the single member A and weight 3.  (`[[A]]` is rejected.)

Exit 1 on the defective reader, exit 0 once frame/netlist/yaml_read_netlist.py is repaired
(fixes/C05_one_pin_net.diff).  Run:  FRAME_REPO=/path/to/FRAME /venv/bin/python findings/C05_one_pin_net.py
"""
import os
import sys

sys.path.insert(0, os.environ.get("FRAME_REPO", "/repo"))
from frame.netlist.netlist import Netlist  # noqa: E402
from frame.geometry.geometry import Rectangle  # noqa: E402

bad = []
for nets in ([["A", 3.0]], [["A", "B"], ["B", 1]], [["A", True]]):
    doc = {"Modules": {"A": {"area": 1}, "B": {"area": 2}}, "Nets": nets}
    Rectangle.undefine_epsilon()
    try:
        n = Netlist(doc)
    except AssertionError:
        continue
    finally:
        Rectangle.undefine_epsilon()
    bad.append(f"Nets: {nets} loaded as " + str([([b.name for b in e.modules], e.weight) for e in n.edges]))
if bad:
    print("one-pin nets are accepted:")
    for b in bad:
        print("  " + b)
    sys.exit(1)
print("one-pin nets are rejected")
sys.exit(0)

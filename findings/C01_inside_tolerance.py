#!/venv/bin/python
"""C01 witness: a valid die is rejected because `Die._check_rectangles` tests "inside the die" with
`point_inside` of both corners and NO tolerance.

`width: 0.3`, blockage `[0.2, 0.5, 0.2, 1]` occupies x in [0.1, 0.3] in decimal arithmetic (exactly up to the die
border), but 0.2 + 0.2/2 = 0.30000000000000004 in binary floating point, which the unrepaired check calls
"outside the die".  Second document: the *ground* rectangle computed by the die itself is rejected the same way.
Exit 1 on the defective code, 0 once repaired (fixes/C01_inside_tolerance.diff)."""
import os
import sys

sys.path.insert(0, os.environ.get("FRAME_REPO", "/repo"))
from frame.die.die import Die  # noqa: E402
from frame.geometry.geometry import Rectangle  # noqa: E402

DOCS = [
    "width: 0.3\nheight: 1\nregions: [0.2, 0.5, 0.2, 1, '#']\n",
    "width: 5.2\nheight: 3.9\nregions: [[0.4, 2.45, 0.8, 2.5, A], [1.15, 2.8, 0.7, 0.4, A], [1.8, 1.65, 0.6, 1.7, A]]\n",
]
bad = 0
for doc in DOCS:
    Rectangle.undefine_epsilon()
    try:
        d = Die(doc)
        print("accepted:", doc.replace("\n", "; "), "->", len(d.ground_regions), "ground regions")
    except AssertionError as e:
        bad += 1
        print("REJECTED valid die:", doc.replace("\n", "; "), "->", str(e)[:160])
    finally:
        Rectangle.undefine_epsilon()
sys.exit(1 if bad else 0)

#!/venv/bin/python
"""C17 witness: circle_circle_intersection_area next to tangency.

On the unrepaired code the quotient handed to math.acos rounds just outside [-1, 1] (ValueError: math
domain error), and the difference of nearly equal terms rounds below 0 / above the area of the smaller
disc.  Exit 1 (and say what fails) on defective code, exit 0 once repaired.  Honours FRAME_REPO.
"""
import math
import os
import sys

sys.path.insert(0, os.environ.get("FRAME_REPO", "/repo"))
from tools.force.fruchterman_reingold import circle_circle_intersection_area as area  # noqa: E402
from frame.geometry.geometry import Point  # noqa: E402

CASES = [  # (r1, r2, centre distance): 1-4 ulp away from r1+r2 or |r1-r2|
    (2.1, 3.7, float.fromhex("0x1.7333333333334p+2")),
    (4.0, 1.6, float.fromhex("0x1.6666666666664p+2")),
    (3.3, 3.8, float.fromhex("0x1.0000000000003p-1")),
]
bad = 0
for r1, r2, d in CASES:
    cap = math.pi * min(r1, r2) ** 2
    try:
        a = area(Point(0.0, 0.0), r1, Point(d, 0.0), r2)
    except ValueError as e:
        print(f"FAIL r1={r1} r2={r2} d={d!r}: raises ValueError({e})")
        bad += 1
        continue
    if not (0 <= a <= cap):
        print(f"FAIL r1={r1} r2={r2} d={d!r}: area {a!r} outside [0, {cap!r}]")
        bad += 1
sys.exit(1 if bad else 0)

#!/venv/bin/python
"""C08 witness — tools/rect/rect.py:solve computes the (purely informative) quality as
`objective / ((ratio - 1) * theoretical_best_area)` before returning.  When `ratio == 1` (`--sf 1.0`, which takes
the minimum-error branch) or when the module occupies no area at all (all occupancies 0), the divisor is 0 and
`solve` raises ZeroDivisionError although the formula is satisfiable and a shape meeting the requested cost bound
exists — the property says it returns one.

Exit 1 if `rect.solve` raises on one of these satisfiable instances (or returns no shape), exit 0 otherwise.
Honours FRAME_REPO.
"""
import contextlib
import io
import os
import sys
import types

sys.path.insert(0, os.environ.get("FRAME_REPO", "/repo"))
import tools.rect.rect as rect                      # noqa: E402


def run(ip, ratio, dif0, k):
    c = types.SimpleNamespace(input_problem=list(ip), factor=10000, theoreticalBestArea=0, selbox="M", inibox=(0, 0, 0, 0, 0))
    rect.definecoords(c)
    for b in c.blocks:
        c.theoreticalBestArea += rect.area(c, b, True)
    try:
        with contextlib.redirect_stdout(io.StringIO()):
            last, rects, quality = rect.solve(c, {"Width": 3.5, "Height": 5.5}, ratio, (dif0, 1), k)
        return ("returned", last, rects)
    except Exception as e:  # noqa
        return ("raised", type(e).__name__, str(e))


grid = [(1.0, -3.0, 2.0, 2.5, 0.9), (2.0, -3.0, 4.5, 2.5, 0.75)]      # 2×1, non-uniform, shifted origin, fractional
zero = [(a, b, c, d, 0.0) for (a, b, c, d, p) in grid]
bad = 0
for name, ip, ratio in [("ratio 2.0 (reference)", grid, 2.0), ("ratio 1.0 (--sf 1.0, min-error branch)", grid, 1.0),
                        ("all occupancies 0, ratio 2.0", zero, 2.0), ("all occupancies 0, ratio 1.0", zero, 1.0)]:
    r = run(ip, ratio, -10 ** 9, 2)
    ok = r[0] == "returned" and len(r[2]) == 2
    print(f"{name}: {r}  {'ok' if ok else 'WRONG (a 2-box shape meeting the bound exists)'}")
    bad += not ok
sys.exit(1 if bad else 0)

#!/venv/bin/python
"""C01 witness: a valid die is rejected by the area-sum test of `Die._check_rectangles` because the test compares
an *area* error with the *distance* tolerance `min(w, h) * 1e-11`.

For a die of a few million units with non-integer coordinates the rounding error of the summed areas
(~1e-16 * w * h ~ 1e-3) exceeds that tolerance (~3e-5): "Incorrect total area of rectangles" for a document whose
single region lies strictly inside the die.  (The region below does not touch the die border, so the missing
tolerance of the inside test — the other C01 defect — plays no role.)
Exit 1 on the defective code, 0 once repaired (fixes/C01_area_tolerance.diff: tolerance = epsilon * max(w, h))."""
import os
import sys

sys.path.insert(0, os.environ.get("FRAME_REPO", "/repo"))
from frame.die.die import Die  # noqa: E402
from frame.geometry.geometry import Rectangle  # noqa: E402

DOCS = [
    "width: 3400000.34\nheight: 8000000.8\nregions: [[2100000.21, 6900000.69, 2600000.26, 600000.06, A]]\n",
]
bad = 0
for doc in DOCS:
    Rectangle.undefine_epsilon()
    try:
        d = Die(doc)
        print("accepted:", doc.replace("\n", "; "), "->", len(d.ground_regions), "ground regions")
    except AssertionError as e:
        bad += 1
        print("REJECTED valid die:", doc.replace("\n", "; "), "->", str(e)[:160])
    finally:
        Rectangle.undefine_epsilon()
sys.exit(1 if bad else 0)

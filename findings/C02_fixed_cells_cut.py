#!/venv/bin/python
"""C02 witness: cells of fixed modules are cut by `uniform_refinement_depth` and by `refine(1.0)`.

A 4x2 layout: a refinable cell [0,2]x[0,2] at depth 1 next to the cell [2,4]x[0,2] fully occupied by a fixed module
(flagged `rect.fixed = True`, ratio 1.0, depth 0 — exactly what `initial_allocation` creates for a fixed module).
`griddify` respects the flag, `uniform_refinement_depth` and `refine(1.0)` halve the fixed cell.
Exits 1 on the defective code, 0 once repaired (fixes/C02_fixed_cells_cut.diff).
"""
import os
import sys

sys.path.insert(0, os.environ.get("FRAME_REPO", "/repo"))
from frame.allocation.allocation import Allocation  # noqa: E402
from frame.geometry.geometry import Rectangle  # noqa: E402

Rectangle.undefine_epsilon()
a = Allocation("[[[1,1,2,2], {M1: 0.5}, 1], [[3,1,2,2], {FIX: 1.0}]]\n# k: v\n")
a.allocations[1].rect.fixed = True
bad = 0
for name, res in (("uniform_refinement_depth()", a.uniform_refinement_depth()), ("refine(1.0)", a.refine(1.0))):
    pieces = [r for r in res.allocations if r.rect.fixed]
    print(f"{name}: the fixed cell became {len(pieces)} piece(s):",
          [(r.rect.center.x, r.rect.center.y, r.rect.shape.w, r.rect.shape.h) for r in pieces])
    if len(pieces) != 1 or pieces[0].rect.vector_spec[:4] != (3, 1, 2, 2):
        print("FAIL: a cell of a fixed module was cut by", name)
        bad = 1
if a.must_be_refined(1.0) != (len(a.refine(1.0).allocations) != len(a.allocations)):
    print("FAIL: must_be_refined(1.0) disagrees with refine(1.0)")
    bad = 1
print("ok" if not bad else "defective")
sys.exit(bad)

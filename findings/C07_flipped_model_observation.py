#!/venv/bin/python
"""Observation next to C07 (NOT inside the property's quantifier; the deprecated `prioritize` / `setflipped` API):
`SATManager.solve()` negates flipped variables when it builds the CNF but reads the solver's model back without
undoing the flip, so after `prioritize([-y])` the exposed model violates the posted clauses.

The C07 model and harness assume `flipped` is empty (assumption recorded in the evidence).  A one-line repair would be
`self.model[v] = 1 - arr[self.ttable[v]] if self.isflipped(v) else arr[self.ttable[v]]` in `solve()`.
Exit 1 while the behaviour is present, 0 otherwise.  Honours FRAME_REPO.
"""
import os
import sys

sys.path.insert(0, os.environ.get("FRAME_REPO", "/repo"))
from tools.rect.satmanager import SATManager  # noqa: E402

m = SATManager()
x, y = m.newvar("x"), m.newvar("y")
m.add_clause([x])
m.add_clause([-y])
m.prioritize([-y])
sat = m.solve()
if sat and (m.value(x), m.value(y)) != (1, 0):
    print(f"clauses demand x=1, y=0; after prioritize([-y]) solve() exposes x={m.value(x)}, y={m.value(y)}")
    sys.exit(1)
print("ok")

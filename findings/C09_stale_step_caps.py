#!/venv/bin/python
"""C09 witness (open finding C09-stale-step-caps): hard step caps made at construction stay in every later system.

`Model.first_build_model` ends with `build_model(small_steps=True)`; `ModelWrapper.force_step` files 6 hard caps per
rectangle under the group `radius` (|x - x_input| <= 0.06 max(W, H), same for y, w <= w_input + 0.06 max(W, H), h
likewise).  `ModelWrapper.build_model` posts EVERY group of `self.constraints`; with the default options of the tool
(`small_steps` off) `force_step` is never called again, so the caps around the INPUT placement are part of every
system the solver is given: a legal floorplan further than 6 % of the die from the input is excluded.
Lean: FV.C09.step_caps_met_iff, stale_caps_exclude_legal.  Exit 1 while a default-mode build still posts the caps of
construction time, 0 otherwise.  Honours FRAME_REPO.  GEKKO never solves.
"""
import contextlib
import io
import os
import shutil
import sys

sys.path.insert(0, os.environ.get("FRAME_REPO", "/repo"))
from frame.netlist.netlist import Netlist  # noqa: E402
from frame.geometry.geometry import Rectangle  # noqa: E402
from tools.legalfloor import legalfloor as lf, expression_tree as et, model as lm  # noqa: E402
import gekko as _gk  # noqa: E402

_made = []


class _RecGEKKO(_gk.GEKKO):  # remember the scratch directories GEKKO creates, to remove them at the end
    def __init__(self, *a, **k):
        super().__init__(*a, **k)
        _made.append(self._path)


lf.GEKKO = lm.GEKKO = _RecGEKKO


def build(yaml, dw, dh, ratio):
    Rectangle.undefine_epsilon()
    net = Netlist(yaml)
    ml, al, xl, yl, wl, hl, hyper, names = lf.netlist_to_utils(net)
    with contextlib.redirect_stdout(io.StringIO()):
        return lf.Model(ml, al, xl, yl, wl, hl, dw, dh, hyper, ratio, names, 0.9, 0.3, 1)


def num(v):
    for _ in range(4):
        if isinstance(v, (int, float)):
            return float(v)
        if hasattr(v, "value"):
            v = v.value
        elif isinstance(v, (list, tuple)):
            v = v[0]
    return float(v)


def finish(code):
    for p in _made:
        shutil.rmtree(p, ignore_errors=True)
    sys.exit(code)


YAML = """
Modules: {
  A: { area: 4, rectangles: [[5, 5, 2, 2]] },
  B: { area: 4, rectangles: [[12, 5, 2, 2]] }
}
Nets: [[A, B]]
"""
m = build(YAML, 20.0, 20.0, 3.0)
with contextlib.redirect_stdout(io.StringIO()):
    m.build_model(False, 1)          # what main() does in every iteration with the default options
caps = [e for e in m.gekko.constraints.get("radius", []) if e.enforce]
posted = [str(e.value) for e in m.gekko.gekko._equations]
cap_posted = [p for p in posted if p.replace(" ", "").startswith(("x0i0<=", "x0i0>="))]
# a legal floorplan: A moved to (15, 15)
m.x[0][0].assign(15.0)
m.y[0][0].assign(15.0)
unmet = [e.name for e in caps if not e.is_equation_met()]
print("caps kept from construction:", len(caps), " posted to GEKKO in a default-mode build:", cap_posted)
print("caps unmet by the legal floorplan with A at (15, 15):", unmet)
finish(1 if (caps and cap_posted and unmet) else 0)

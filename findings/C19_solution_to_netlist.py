#!/venv/bin/python
"""C19 witness: the netlist emitted by `tools/rect/rect_io.py::solution_to_netlist` does not say what the source says.

* net weights are dropped (`[A, B, 2.5]` comes back with weight 1),
* a terminal is written `hard: true` + `center`, which the reader rejects ("hard module cannot specify center"),
* per-region areas `{_: 3, dsp: 1}` are collapsed into one number.
Exits 1 on the defective code, 0 once repaired (fixes/C19_solution_to_netlist.diff).
"""
import os
import sys

sys.path.insert(0, os.environ.get("FRAME_REPO", "/repo"))
from frame.netlist.netlist import Netlist  # noqa: E402
from tools.rect.rect_io import solution_to_netlist  # noqa: E402

SRC = """
Modules: {
  A: {area: 4, center: [2, 2]},
  B: {rectangles: [[6, 3, 2, 2]], fixed: true},
  D: {area: {_: 3, dsp: 1}, center: [3, 3]},
  %s
}
Nets: [[A, B, 2.5], [A, D]%s]
"""
bad = False
src = Netlist(SRC % ("", ""))
doc = solution_to_netlist(src, {"A": [(2.0, 2.0, 2.0, 2.0)], "D": [(3.0, 5.0, 2.0, 2.0)]})
back = Netlist(doc)
w = [e.weight for e in back.edges]
if w != [2.5, 1.0]:
    print("FAIL: weights written 2.5, 1 read back as", w)
    bad = True
if dict(back.get_module("D").area_regions) != {"_": 3.0, "dsp": 1.0}:
    print("FAIL: areas of D written {_: 3, dsp: 1} read back as", dict(back.get_module("D").area_regions))
    bad = True
src_t = Netlist(SRC % ("T: {terminal: true, center: [0, 3]},", ", [T, A]"))
doc_t = solution_to_netlist(src_t, {"A": [(2.0, 2.0, 2.0, 2.0)]})
try:
    t = Netlist(doc_t).get_module("T")
    if not t.is_terminal:
        print("FAIL: terminal T read back as a non-terminal")
        bad = True
except AssertionError as e:
    print("FAIL: a netlist with a terminal is emitted as a document the reader rejects:", e)
    bad = True
if bad:
    sys.exit(1)
print("ok")
sys.exit(0)

#!/venv/bin/python
"""C11 witness: phase 2 of `split_rectangles` breaks the aspect-ratio bound when the bound is below 2.

A 4x4 die refined with aspect ratio <= 1.5 and at least 2 regions comes back as two 2x4 regions (aspect 2.0): the
largest-first loop halves a compliant rectangle and pushes the halves without looking at their aspect ratio.
Exits 1 on the defective code, 0 once repaired (fixes/C11_phase2_aspect.diff).
"""
import os
import sys

sys.path.insert(0, os.environ.get("FRAME_REPO", "/repo"))
from frame.die.die import Die  # noqa: E402

d = Die("4x4")
d.split_refinable_regions(1.5, 2)
regions, _ = d.floorplanning_rectangles()
worst = max(r.aspect_ratio for r in regions)
area = sum(r.area for r in regions)
print(f"{len(regions)} regions, worst aspect ratio {worst}, total area {area}")
if worst > 1.5:
    print("FAIL: a region exceeds the requested aspect ratio 1.5")
    sys.exit(1)
if len(regions) < 2 or area != 16.0:
    print("FAIL: count or area")
    sys.exit(1)
print("ok")
sys.exit(0)

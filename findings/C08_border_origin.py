#!/venv/bin/python
"""C08 witness — die-border exclusions of tools/rect/rect.py:enforce_bb compare cell coordinates with the constants
`0`, `int(ifile['Width'])`, `int(ifile['Height'])`.  For a grid whose origin is not (0, 0) or whose size is
fractional the exclusions never fire, so a branch lying on the die border may pick that border as its attachment
side and is then not attached to the trunk at all: the search admits shapes that are not single-trunk orthogons
(e.g. two diagonal cells).

A 2×2 grid has exactly 20 two-box single-trunk orthogons (ordered pairs trunk/branch).  Exit 1 if the formula
built by the real enforce_bb (+ the per-cell at-most-one of solve) has a different number of models projected on
the b<i>_<cell> variables, exit 0 otherwise.  Honours FRAME_REPO.
"""
import contextlib
import io
import os
import sys
import types

sys.path.insert(0, os.environ.get("FRAME_REPO", "/repo"))
import tools.rect.rect as rect                      # noqa: E402
import tools.rect.satmanager as satmanager          # noqa: E402
from pysat.solvers import Solver                    # noqa: E402


def models(xs, ys, k=2):
    ip = [(xs[i], ys[j], xs[i + 1], ys[j + 1], 0.5) for j in range(len(ys) - 1) for i in range(len(xs) - 1)]
    c = types.SimpleNamespace(input_problem=ip, factor=10000)
    rect.definecoords(c)
    ifile = {"Width": xs[-1] - xs[0], "Height": ys[-1] - ys[0]}
    sm = satmanager.SATManager()
    with contextlib.redirect_stdout(io.StringIO()):
        for i in range(k):
            rect.enforce_bb(c, ifile, sm, f"b{i}_", "b0_")
        for b in c.blocks:
            sm.heuleencoding([sm.newvar(f"b{t}_{b}", "") for t in range(k)])
    cnf = [[sm.ttable[l.v] if l.s else -sm.ttable[l.v] for l in cl] for cl in sm.clauses]
    proj = [(t, b, sm.ttable[f"b{t}_{b}"]) for t in range(k) for b in c.blocks]
    out = []
    with Solver(bootstrap_with=cnf) as s:
        while s.solve():
            m = set(s.get_model())
            out.append(tuple(tuple(b for (t, b, v) in proj if t == i and v in m) for i in range(k)))
            s.add_clause([-v if v in m else v for (_, _, v) in proj])
    return out


bad = 0
for name, xs, ys in [("origin (0,0), size 2", [0, 1, 2], [0, 1, 2]),
                     ("origin (1,1), size 2", [1, 2, 3], [1, 2, 3]),
                     ("origin (0,0), size 2.5", [0, 1, 2.5], [0, 1, 2.5]),
                     ("origin (-1,-1), size 2", [-1, 0, 1], [-1, 0, 1])]:
    ms = models(xs, ys)
    # cells: 0 = (col 0,row 0), 1 = (col 1,row 0), 2 = (col 0,row 1), 3 = (col 1,row 1); diagonal pairs {0,3}, {1,2}
    diag = [m for m in ms if (set(m[0]), set(m[1])) in (({0}, {3}), ({3}, {0}), ({1}, {2}), ({2}, {1}))]
    ok = len(ms) == 20 and not diag
    print(f"{name}: {len(ms)} shapes (expected 20), diagonal two-cell 'shapes' admitted: {len(diag)}  {'ok' if ok else 'WRONG'}")
    bad += not ok
sys.exit(1 if bad else 0)

#!/venv/bin/python
"""C04 witness: writing the reloaded design does NOT give the identical document (floating point, 1 ulp).

`Module.calculate_center_from_rectangles` adds area·x, area·y and area in LIST ORDER.  `create_stog` then moves the trunk
to the front of the list, and the writer emits the rectangles in that new order.  When the document is read back the same
three sums are taken in a different order, so the centre of a module with >= 3 rectangles whose trunk is not first can
differ in the last bit: `n.write_yaml()` and `Netlist(n.write_yaml()).write_yaml()` are different texts, and the reloaded
module does not have the "same centre".

Exit 1 (and show the two centres) on the defective code, exit 0 once module.py sums with math.fsum
(fixes/C04_centroid_fsum.diff).   Run:  FRAME_REPO=/path/to/FRAME /venv/bin/python findings/C04_centroid_order.py
"""
import os
import sys

sys.path.insert(0, os.environ.get("FRAME_REPO", "/repo"))
from frame.netlist.netlist import Netlist  # noqa: E402
from frame.geometry.geometry import Rectangle  # noqa: E402

DOCS = [
    # two branches first, the trunk (1.0 x 1.2) last: after loading the trunk is in front
    {"Modules": {"S": {"area": 3.0, "rectangles": [[0.7, 1.35, 0.2, 0.3], [0.3, 1.35, 0.2, 0.3], [0.5, 0.6, 1.0, 1.2]]},
                 "T": {"area": 1.0}}, "Nets": [["S", "T"]]},
    # the same shape as a hard module (centre not written, but "same centre" after the reload is still the claim)
    {"Modules": {"H": {"hard": True, "rectangles": [[0.7, 1.35, 0.2, 0.3], [0.3, 1.35, 0.2, 0.3], [0.5, 0.6, 1.0, 1.2]]},
                 "T": {"area": 1.0}}, "Nets": [["H", "T"]]},
]

bad = []
for doc in DOCS:
    Rectangle.undefine_epsilon()
    n = Netlist(doc)
    s1 = n.write_yaml()
    Rectangle.undefine_epsilon()
    n2 = Netlist(s1)
    s2 = n2.write_yaml()
    m, m2 = n.modules[0], n2.modules[0]
    if (m.center.x, m.center.y) != (m2.center.x, m2.center.y):
        bad.append(f"module {m.name}: centre {m.center} is read back as {m2.center} "
                   f"(rectangle order after loading: {[r.location.name for r in m.rectangles]})")
    if s1 != s2:
        bad.append(f"module {m.name}: the second document differs from the first")
Rectangle.undefine_epsilon()
if bad:
    print("write -> read -> write is not repeatable:")
    for b in bad:
        print("  " + b)
    sys.exit(1)
print("centres and the second document are identical")
sys.exit(0)

#!/venv/bin/python
"""C01 witness: a valid die description is rejected when the attached netlist consists of terminals only.

`Netlist._create_rectangles` derives the class-wide tolerance from the smallest rectangle side / module area; a netlist without
any rectangle and without positive area (pins only) leaves `smallest_distance = math.inf` and installs the tolerance `inf`.
`Die("4x4", netlist)` then merges all boundary coordinates into one (`gather_boundaries`), finds no ground region and fails its
own area check: `AssertionError: Incorrect total area of rectangles` — although the die is valid and the netlist has no fixed
rectangle at all.  Exit 1 on the defective code, 0 once repaired (fixes/C01_netlist_infinite_tolerance.diff: only a FINITE
tolerance is installed)."""
import math
import os
import sys

sys.path.insert(0, os.environ.get("FRAME_REPO", "/repo"))
from frame.die.die import Die  # noqa: E402
from frame.geometry.geometry import Rectangle  # noqa: E402
from frame.netlist.netlist import Netlist  # noqa: E402

NETS = ["Modules: {T: {terminal: true, center: [1, 1]}}\nNets: []\n",
        "Modules: {P0: {terminal: true}, P1: {terminal: true, fixed: true, center: [0, 2]}}\nNets: [[P0, P1]]\n"]
DIES = ["4x4", "width: 4\nheight: 4\nregions: [[1, 1, 2, 2, dsp]]\n"]
bad = 0
for nt in NETS:
    for dt in DIES:
        Rectangle.undefine_epsilon()
        try:
            n = Netlist(nt)
            if Rectangle.epsilon_defined() and not math.isfinite(Rectangle.distance_epsilon()):
                print("netlist installed the tolerance", Rectangle.distance_epsilon())
            d = Die(dt, n)
            tot = sum(r.area for r in d.ground_regions + d.specialized_regions + d.blockages + d.fixed_regions)
            print("accepted:", dt.replace("\n", "; "), "->", len(d.ground_regions), "ground region(s), area", tot)
            if tot != 16:
                bad += 1
        except AssertionError as e:
            bad += 1
            print("REJECTED valid die:", dt.replace("\n", "; "), "with", nt.split("\n")[0], "->", str(e)[:100])
        finally:
            Rectangle.undefine_epsilon()
sys.exit(1 if bad else 0)

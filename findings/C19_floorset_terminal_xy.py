#!/venv/bin/python
"""C19 witness: FloorSet `--store-terminals` places pins with stale or unbound coordinates.

In `_parse_modules` the variables `x` / `y` are only assigned for a pin on the low border (`< EPSILON`); the branch
for the high border tests `>= shape + EPSILON`, which never holds because `shape` is the maximum.  A pin at (10, 10)
listed first raises UnboundLocalError; listed after a pin at (0, 0) it silently inherits that pin's rectangle.
Exits 1 on the defective code, 0 once repaired (fixes/C19_floorset_terminal_xy.diff).
"""
import os
import sys

sys.path.insert(0, os.environ.get("FRAME_REPO", "/repo"))
import numpy as np  # noqa: E402
from tools.floorset_parser.floor_set_manager.manager import FloorSetInstance  # noqa: E402


def instance(pins):
    vb = np.full((1, 6, 2), -1.0)
    vb[0, :4, :] = [(1, 1), (5, 1), (5, 4), (1, 4)]
    return {"area_blocks": np.array([12.0]), "b2b_connectivity": np.zeros((0, 3)),
            "p2b_connectivity": np.array([[0.0, 0.0, 1.0]]), "pins_pos": np.array(pins, dtype=float),
            "placement_constraints": np.zeros((1, 5)), "vertex_blocks": vb, "metrics": np.array([1.0, len(pins), 1, 1, 1, 1, 1, 1])}


bad = False
try:
    FloorSetInstance(instance([(10, 10), (0, 0)]), None, True)
except UnboundLocalError as e:
    print("FAIL: pin (10,10) listed first:", e)
    bad = True
fp = FloorSetInstance(instance([(0, 0), (10, 10), (4, 10), (10, 3)]), None, True)
for name, pin in (("T0", (0, 0)), ("T1", (10, 10)), ("T2", (4, 10)), ("T3", (10, 3))):
    x, y, w, h = fp.modules[name]["rectangles"]
    inside = x - w / 2 >= 0 and y - h / 2 >= 0 and x + w / 2 <= 10 and y + h / 2 <= 10
    if abs(x - pin[0]) > 1.0000001e-3 or abs(y - pin[1]) > 1.0000001e-3 or not inside:
        print(f"FAIL: terminal {name} of pin {pin} is written at ({x}, {y})")
        bad = True
if bad:
    sys.exit(1)
print("ok")
sys.exit(0)

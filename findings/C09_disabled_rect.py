#!/venv/bin/python
"""C09 witness (open finding C09-disabled-rect): a branch with at most 10 % of its module's area is "turned off" and
the system then contradicts the variable declarations.

`ModelWrapper.solve` starts with `turn_off_rects(0.1)`: a branch whose area is <= 10 % of the module's is disabled for
good; `ModelModule.get_constraints` then replaces its Bounds / Shapes / Attach equations by the group `Rid`
(x = x0, y = y0, w = 0, h = 0) — for soft, hard AND fixed modules — while the variables keep their declaration
lb = 0.1 (and, for hard modules, the Fix equations w = original width).  As soon as the slack is below 0.1 no point
satisfies the system; the solver reports failure and the legaliser still writes the floorplan (exit 0) with the
branch detached (0.1 x 0.1, on the trunk's centre).  The input here is a LEGAL floorplan.
Lean: FV.C09.rid_contradicts_lower_bound.  Exit 1 while the contradiction is present, 0 otherwise.  Honours FRAME_REPO.
GEKKO never solves.
"""
import contextlib
import io
import os
import shutil
import sys

sys.path.insert(0, os.environ.get("FRAME_REPO", "/repo"))
from frame.netlist.netlist import Netlist  # noqa: E402
from frame.geometry.geometry import Rectangle  # noqa: E402
from tools.legalfloor import legalfloor as lf, expression_tree as et, model as lm  # noqa: E402
import gekko as _gk  # noqa: E402

_made = []


class _RecGEKKO(_gk.GEKKO):  # remember the scratch directories GEKKO creates, to remove them at the end
    def __init__(self, *a, **k):
        super().__init__(*a, **k)
        _made.append(self._path)


lf.GEKKO = lm.GEKKO = _RecGEKKO


def build(yaml, dw, dh, ratio):
    Rectangle.undefine_epsilon()
    net = Netlist(yaml)
    ml, al, xl, yl, wl, hl, hyper, names = lf.netlist_to_utils(net)
    with contextlib.redirect_stdout(io.StringIO()):
        return lf.Model(ml, al, xl, yl, wl, hl, dw, dh, hyper, ratio, names, 0.9, 0.3, 1)


def num(v):
    for _ in range(4):
        if isinstance(v, (int, float)):
            return float(v)
        if hasattr(v, "value"):
            v = v.value
        elif isinstance(v, (list, tuple)):
            v = v[0]
    return float(v)


def finish(code):
    for p in _made:
        shutil.rmtree(p, ignore_errors=True)
    sys.exit(code)


YAML = """
Modules: {
  A: { area: 17, rectangles: [[4, 4, 4, 4], [4, 6.5, 1, 1]] },
  B: { area: 12, rectangles: [[10, 4, 4, 3]] }
}
Nets: [[A, B]]
"""
m = build(YAML, 16.0, 12.0, 2.0)
m.gekko.turn_off_rects(0.1)          # first statement of ModelWrapper.solve
rid = []
for mac in m.gekko.macros:
    for g, e in mac.get_constraints(m.gekko):
        if g == "Rid" and e.name.startswith(("rid_w", "rid_h")):
            rid.append((e.name, num(e.rhs.evaluate())))
conflict = []
for name, target in rid:
    i, j = [int(t) for t in name[name.index("[") + 1:-1].split(",")]
    t = (m.w if name.startswith("rid_w") else m.h)[i][j]
    lo = num(t.value.LOWER)
    if lo > target + 1e-6:
        conflict.append("%s asks for %g, the variable is declared with lb = %g" % (name, target, lo))
print("enable flags after turn_off_rects(0.1):", [list(mac.enable) for mac in m.gekko.macros])
print("contradictions:", conflict)
finish(1 if conflict else 0)

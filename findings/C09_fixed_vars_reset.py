#!/venv/bin/python
"""C09 witness: the legaliser tears movable hard modules apart after every solve.

`ModelWrapper.fix_variable(var, val, name)` remembers `(var, val.evaluate())` in `fixed_vars`, and `ModelWrapper.solve` ends with
`for (x, v) in self.fixed_vars: x.value.value = [v]`.  For the width / height of a hard module and for the trunk of a FIXED
module `val` is a constant and the reset is harmless.  For a branch of a hard module `Model.fix` passes
`val = offset + trunk_variable` (the branch keeps its place relative to the trunk): `val.evaluate()` at construction is the
branch's ORIGINAL ABSOLUTE centre, so after every solve the branches of a hard module that has moved are put back where they
were in the input while the trunk stays where the solver put it.  The floorplan the tool returns has the module torn apart
(branch not attached, offsets changed) although the solver's answer satisfied every equation.
Found by the end-to-end stream of ./check C09 (replay kind spec-failure, clause live.Attach+Fix).
The solver is replaced by a no-op here: the hard module is moved by hand to a legal translate, then `solve` runs.
Exit 1 while the translate is destroyed, 0 once repaired.  Honours FRAME_REPO.
"""
import contextlib
import io
import os
import shutil
import sys

sys.path.insert(0, os.environ.get("FRAME_REPO", "/repo"))
from frame.netlist.netlist import Netlist  # noqa: E402
from frame.geometry.geometry import Rectangle  # noqa: E402
from tools.legalfloor import legalfloor as lf, expression_tree as et, model as lm  # noqa: E402
import gekko as _gk  # noqa: E402

_made = []


class _NoSolveGEKKO(_gk.GEKKO):  # scratch directories remembered; the solver call does nothing
    def __init__(self, *a, **k):
        super().__init__(*a, **k)
        _made.append(self._path)

    def solve(self, *a, **k):
        return None


lf.GEKKO = lm.GEKKO = _NoSolveGEKKO

YAML = """
Modules: {
  M0: { rectangles: [[11, 10, 10, 8]], hard: true },
  M2: { rectangles: [[15, 29, 10, 6], [17, 34, 6, 4]], hard: true }
}
Nets: [[M0, M2]]
"""
Rectangle.undefine_epsilon()
net = Netlist(YAML)
ml, al, xl, yl, wl, hl, hyper, names = lf.netlist_to_utils(net)
with contextlib.redirect_stdout(io.StringIO()):
    m = lf.Model(ml, al, xl, yl, wl, hl, 40.0, 40.0, hyper, 2.0, names, 0.9, 0.3, 1)
    # a legal translate of the hard module M2: trunk and branch moved by (+2, -2)
    for i in range(2):
        m.x[1][i].assign(m.x[1][i].evaluate() + 2.0)
        m.y[1][i].assign(m.y[1][i].evaluate() - 2.0)
    before = [(m.x[1][i].evaluate(), m.y[1][i].evaluate()) for i in range(2)]
    m.build_model(False, 1)
    m.solve(False, False, 1)          # the solver does nothing: the configuration should survive
after = [(m.x[1][i].evaluate(), m.y[1][i].evaluate()) for i in range(2)]
et.set_epsilon(et.ExpressionTree(m.gekko.gekko, 0.0))
unmet = [e.name for mac in m.gekko.macros for g, e in mac.get_constraints(m.gekko) if g == "Attach" and not e.is_equation_met()]
unmet += [e.name for e in m.gekko.constraints.get("Fix", []) if not e.is_equation_met()]
print("hard module M2 before solve():", before)
print("hard module M2 after  solve():", after)
print("Attach / Fix equations unmet afterwards:", unmet)
for p in _made:
    shutil.rmtree(p, ignore_errors=True)
sys.exit(1 if (after != before or unmet) else 0)

#!/venv/bin/python
"""C19 witness: an allocation written and read back is not the same design — the `fixed` mark of its cells is lost.

`create_initial_allocation` (and `Allocation.initial_allocation`) mark the cells that hold fixed modules
(`rect.fixed = True`); `refine`, `must_be_refined`, `uniform_refinement_depth` and `griddify` skip such cells.
`Allocation.write_yaml()` writes `[[x, y, w, h, region], {module: ratio}, depth]` — the mark is not in the document —
and `Allocation(text)` builds every rectangle unmarked.  So `Allocation(a.write_yaml())` answers the same public calls
differently from `a`: on an 8 x 6 die with the fixed module F0 = [1, 1, 2, 2], `refine(1.0, 1)` returns 5 cells on the
original object and 6 on the one read back (the cell of the fixed module is cut in two), and the documents written
after the same operation differ.
Exits 1 on the defective code, 0 once repaired (fixes/C19_alloc_fixed_mark.diff: the writer records the mark as a
fourth entry `fixed` of the cell, the reader restores it).
"""
import os
import sys

sys.path.insert(0, os.environ.get("FRAME_REPO", "/repo"))
from frame.geometry.geometry import Rectangle  # noqa: E402
from frame.netlist.netlist import Netlist  # noqa: E402
from frame.die.die import Die  # noqa: E402
from frame.allocation.allocation import Allocation, create_initial_allocation  # noqa: E402


def snap(al):
    return [(list(c.rect.vector_spec), bool(c.rect.fixed), dict(c.alloc), c.depth) for c in al.allocations]


Rectangle.undefine_epsilon()
net = Netlist("Modules: {F0: {rectangles: [[1,1,2,2]], fixed: true}, S0: {area: 4, center: [5,3]}}\nNets: []\n")
die = Die({"width": 8, "height": 6}, net)
a = create_initial_allocation(die, True)
doc = a.write_yaml()
b = Allocation(doc)
bad = []
if snap(a) != snap(b):
    bad.append(f"cells differ after write -> read:\n  written {snap(a)}\n  read    {snap(b)}")
for name, op in (("refine(1.0, 1)", lambda x: x.refine(1.0, 1)), ("must_be_refined(1.0)", lambda x: x.must_be_refined(1.0))):
    ra, rb = op(a), op(b)
    if isinstance(ra, Allocation):
        if ra.write_yaml() != rb.write_yaml():
            bad.append(f"{name}: {len(ra.allocations)} cells on the original, {len(rb.allocations)} on the object read back")
    elif ra != rb:
        bad.append(f"{name}: {ra} on the original, {rb} on the object read back")
# a refined allocation with a fixed cell: uniform_refinement_depth must leave the fixed cell alone on both
a2 = a.refine(0.5, 1)
b2 = Allocation(a2.write_yaml())
if a2.uniform_refinement_depth().write_yaml() != b2.uniform_refinement_depth().write_yaml():
    bad.append("uniform_refinement_depth(): different documents on the original and on the object read back")
if b.write_yaml() != doc:
    bad.append("the document is not stable under read -> write")
# documents without fixed cells are unchanged by the repair (old documents stay readable, byte-identical output)
Rectangle.undefine_epsilon()
plain = Allocation([[[2, 3, 4, 6], {"A": 0.5}], [[6, 3, 4, 6, "dsp"], {"A": 0.25}, 1]])
if plain.write_yaml() != "- - - 2\n    - 3\n    - 4\n    - 6\n    - _\n  - A: 0.5\n- - - 6\n    - 3\n    - 4\n    - 6\n    - dsp\n  - A: 0.25\n  - 1\n":
    bad.append("a document without fixed cells changed:\n" + plain.write_yaml())
if bad:
    print("FAIL:\n" + "\n".join(bad))
    sys.exit(1)
print("ok")
sys.exit(0)

#!/venv/bin/python
"""C06 witness: a module made of the same rectangle twice is reported as a single-trunk orthogon.

`create_stog` skips the candidate trunk with `r == trunk` (value equality), so an equal-valued second rectangle is
skipped as well although it overlaps the trunk completely; the call returns True and the duplicate is left with the
role NO_POLYGON.  Exits 1 on the defective code, 0 once repaired (fixes/C06_trunk_identity.diff).
"""
import os
import sys

sys.path.insert(0, os.environ.get("FRAME_REPO", "/repo"))
from frame.geometry.geometry import Rectangle, Point, Shape, create_stog  # noqa: E402

Rectangle.set_epsilon(1e-9)
rs = [Rectangle(center=Point(2, 2), shape=Shape(2, 2)), Rectangle(center=Point(2, 2), shape=Shape(2, 2))]
ok = create_stog(rs)
roles = [r.location.name for r in rs]
print("create_stog([R, R]) ->", ok, roles)
if ok:
    print("FAIL: reported as STOG although the second rectangle overlaps the trunk; it carries", roles[1])
    sys.exit(1)
if any(x != "NO_POLYGON" for x in roles):
    print("FAIL: roles assigned although no STOG was recognised")
    sys.exit(1)
print("ok")
sys.exit(0)

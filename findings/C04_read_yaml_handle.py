#!/venv/bin/python
"""C04 witness: a netlist written to a file cannot be read back through an open file handle.

`frame/utils/utils.py::read_yaml` documents three kinds of input: "a file handler, a file name or a YAML contents".  The
handle branch is guarded by `assert isinstance(stream, TextIO)` with `typing.TextIO`; no real text stream (the object
`open(path)` returns, `io.StringIO`) is an instance of that typing class, so `Netlist(open(path))` ALWAYS raises
AssertionError — one of the three documented ways of reading the exchange format back does not work at all, although
`Netlist(path)` and `Netlist(text)` of the very same file do.

Exit 1 on the defective reader, exit 0 once read_yaml accepts text streams (fixes/C04_read_yaml_handle.diff).
Run:  FRAME_REPO=/path/to/FRAME /venv/bin/python findings/C04_read_yaml_handle.py
"""
import io
import os
import sys
import tempfile

sys.path.insert(0, os.environ.get("FRAME_REPO", "/repo"))
from frame.netlist.netlist import Netlist  # noqa: E402
from frame.geometry.geometry import Rectangle  # noqa: E402

doc = {"Modules": {"A": {"area": 3.0, "center": [1.0, 2.0]},
                   "H": {"hard": True, "rectangles": [[2, 2, 4, 2], [1, 4, 2, 2]]}},
       "Nets": [["A", "H", 2.5]]}
Rectangle.undefine_epsilon()
n = Netlist(doc)
text = n.write_yaml()
bad = []
with tempfile.TemporaryDirectory() as d:
    path = os.path.join(d, "n.yaml")
    n.write_yaml(path)
    by_name = Netlist(path).write_yaml()
    if by_name != text:
        bad.append("Netlist(path) differs from the netlist written")
    for label, make in (("open(path)", lambda: open(path)), ("io.StringIO(text)", lambda: io.StringIO(text))):
        try:
            with make() as f:
                n2 = Netlist(f)
        except AssertionError as e:
            bad.append(f"Netlist({label}) raises AssertionError {e!s}".rstrip())
            continue
        if n2.write_yaml() != text:
            bad.append(f"Netlist({label}) is a different design")
Rectangle.undefine_epsilon()
if bad:
    print("reading the exchange format back through a file handle fails:")
    for b in bad:
        print("  " + b)
    sys.exit(1)
print("a netlist file can be read back by name, as text and through a handle")
sys.exit(0)

"""C14 — spectral placement raises on an admissible netlist in which the disc of one movable module (nearly) fills the die.

Four soft modules on a cycle, 10 x 10 die; module A has area pi * 5^2 * (1 - k): its disc fits the die (radius <= 5).
  k = 0      (disc exactly inscribed, span 0): ZeroDivisionError
  k = 1e-6   (span 2.5e-6):                   AssertionError (orthogonality check `assert dotprod < 10e-12`)
for every seed 0..5.  With a comfortable margin (k >= 3e-3) the placement returns and every disc is inside the die.
Cause: normalize() scales ALL movable coordinates by min(span_i / |x_i|); a span of ~1e-6 shrinks every coordinate to
~1e-6, and the orthogonality check |<v1, 1>| / <v1, v1> is not scale-free (with span 0 the scaled vector is 0 and the
normalisation divides by zero).

Exit 1 while Spectral.spectral_layout raises on these inputs, 0 once it returns on all of them with all discs inside.
Run: /venv/bin/python findings/C14_near_filling_disc.py   (honours FRAME_REPO)
"""
import math
import os
import random
import sys

sys.path.insert(0, os.environ.get("FRAME_REPO", "/repo"))
from frame.geometry.geometry import Shape, Rectangle  # noqa: E402
from tools.spectral.spectral import Spectral  # noqa: E402

W = H = 10.0
FULL = math.pi * (W / 2) ** 2
bad = []
for k in (0.0, 1e-6):
    for seed in range(6):
        Rectangle.undefine_epsilon()
        net = Spectral(f"Modules: {{A: {{area: {FULL * (1 - k)!r}}}, B: {{area: 4.0}}, C: {{area: 3.0}}, D: {{area: 2.0}}}}\n"
                       "Nets: [[A, B], [B, C], [C, D], [D, A]]\n")
        random.seed(seed)
        try:
            net.spectral_layout(Shape(W, H), 1, False)
        except Exception as ex:  # noqa: BLE001
            bad.append((k, seed, type(ex).__name__))
            continue
        for m in net.modules:
            r = math.sqrt(m.area() / math.pi)
            if not (r - 1e-8 <= m.center.x <= W - r + 1e-8 and r - 1e-8 <= m.center.y <= H - r + 1e-8):
                bad.append((k, seed, f"disc of {m.name} outside"))
if bad:
    print("spectral_layout fails on an admissible netlist with a (nearly) die-filling disc (k, seed, what):", bad)
    sys.exit(1)
print("spectral_layout returns with all discs inside for k = 0 and k = 1e-6, seeds 0..5")
sys.exit(0)

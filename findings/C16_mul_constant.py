#!/venv/bin/python
"""C16 witness: `Expr.__mul__` scales the terms but not the constant, so (a + 3) * 2 evaluates like 2a + 3.

Exit 1 (and print the failing assignment) on the defective code, exit 0 once repaired
(fixes/C16_mul_constant.diff).  Honours FRAME_REPO.
"""
import os
import sys

sys.path.insert(0, os.environ.get("FRAME_REPO", "/repo"))
from tools.rect.pseudobool import Literal, Expr  # noqa: E402


def value(e: Expr, sig) -> int:
    return e.c + sum(t.c * (sig[t.L.v] if t.L.s else 1 - sig[t.L.v]) for t in e.t.values())


bad = []
a = Literal("a")
for k in (2, -2, 0, 3):
    for build, name in ((lambda: (a + 3) * k, f"(a + 3) * {k}"), (lambda: k * (Expr() - a + 1), f"{k} * (-a + 1)")):
        e = build()
        for x in (0, 1):
            direct = ((x + 3) if name.startswith("(a") else (-x + 1)) * k
            if value(e, {"a": x}) != direct:
                bad.append(f"{name}: built '{e.tostr()}' evaluates to {value(e, {'a': x})} at a={x}, direct value {direct}")
if bad:
    print("\n".join(bad))
    sys.exit(1)
print("ok: integer multiples scale the constant")

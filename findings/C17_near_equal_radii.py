#!/venv/bin/python
"""C17 witness: circle_circle_intersection_area is inaccurate for nearly equal discs next to internal tangency.

For radii that differ by about 1e-8 ... 1e-6 of their size and a centre distance just above |r1 - r2| (the smaller
disc is about to leave the larger one) the numerator `a**2 + e**2 - b**2` of the arccosine argument is a difference
of numbers next to 1 whose value is ~2e-8: its rounding error (~2e-16) is 1e-8 of the quotient, the quotient sits
next to -1 where acos has a square-root singularity, so the angle is wrong by ~1e-4 and so is the area: the error
reaches 9.9e-5 of the larger squared radius, ten times what the property allows (1e-5), at perfectly ordinary
scales.  (The exact answer there is the area of the smaller disc to within 1e-15.)
Exit 1 (and say what fails) on defective code, exit 0 once repaired.  Honours FRAME_REPO.
"""
import os
import sys

from mpmath import mp, mpf

sys.path.insert(0, os.environ.get("FRAME_REPO", "/repo"))
from tools.force.fruchterman_reingold import circle_circle_intersection_area as area  # noqa: E402
from frame.geometry.geometry import Point  # noqa: E402

mp.dps = 80
ALLOWED = mpf("1e-5")   # of the larger squared radius (property C17)


def exact(r1: float, r2: float, d: float):
    """lens area of two discs with the given (binary) radii and centre distance, 80 digits, Heron form of the kite."""
    r1, r2, d = mpf(r1), mpf(r2), mpf(d)
    if d >= r1 + r2:
        return mpf(0)
    if d <= abs(r1 - r2):
        return mp.pi * min(r1, r2) ** 2
    a1 = mp.acos((d * d + r1 * r1 - r2 * r2) / (2 * d * r1))
    a2 = mp.acos((d * d + r2 * r2 - r1 * r1) / (2 * d * r2))
    return r1 * r1 * a1 + r2 * r2 * a2 - mp.sqrt((-d + r1 + r2) * (d + r1 - r2) * (d - r1 + r2) * (d + r1 + r2)) / 2


CASES = [  # (r1, r2, centre distance)
    (4.476107856162686, 4.476107808596214, 4.756647260599044e-08),          # audit 3: error 9.95e-5 r^2
    (2.7399764922771456e+26, 2.7399764630784478e+26, 2.9198697788709453e+18),   # same, lengths ~1e26
    (1.0, 0.9999999892856017, 1.0714398308125872e-08),                      # unit disc
    (2.999999968365859e-07, 3e-07, 3.1634141139969578e-15),                 # small scale, the first disc is the smaller one
    (1000000.0, 999999.9893603349, 0.010639665093102709),
]
bad = 0
for r1, r2, d in CASES:
    R2 = mpf(max(r1, r2)) ** 2
    ex = exact(r1, r2, d)
    for (p, rp, q, rq) in ((Point(0.0, 0.0), r1, Point(d, 0.0), r2), (Point(0.0, d), r2, Point(0.0, 0.0), r1)):
        try:
            got = area(p, rp, q, rq)
        except Exception as e:  # noqa: BLE001
            print(f"FAIL r1={r1!r} r2={r2!r} d={d!r}: raises {type(e).__name__}({e})")
            bad += 1
            continue
        err = abs(mpf(got) - ex) / R2
        if err > ALLOWED:
            print(f"FAIL r1={rp!r} r2={rq!r} d={d!r}: area {float(got)!r}, exact {float(ex)!r}, "
                  f"error {float(err):.3g} of the larger squared radius (allowed 1e-5)")
            bad += 1
sys.exit(1 if bad else 0)

#!/venv/bin/python
"""C07 witness: `Ineq.isclause` answers "tautology" for every constraint whose normalised bound is <= 0, including the
strict `lhs > 0`, so `pseudoboolencoding(x + y > 0)` posts nothing and the solver accepts x = y = 0.

Exit 1 on the defective code, exit 0 once repaired (fixes/C07_isclause_strict_zero.diff).  Honours FRAME_REPO.
"""
import itertools
import os
import sys

sys.path.insert(0, os.environ.get("FRAME_REPO", "/repo"))
from pysat.solvers import Solver  # noqa: E402
from tools.rect.satmanager import SATManager  # noqa: E402

bad = []
for name, build, holds in (
        ("x + y > 0", lambda x, y: x + y > 0, lambda a, b: a + b > 0),
        ("x + y < 2 (i.e. -x + -y > 0)", lambda x, y: x + y < 2, lambda a, b: a + b < 2),
        ("x > y + -x (0 bound after moving terms)", lambda x, y: x + x > y + 0, lambda a, b: 2 * a > b)):
    m = SATManager()
    x, y = m.newvar("x"), m.newvar("y")
    before = len(m.clauses)
    try:
        m.pseudoboolencoding(build(x, y))
    except Exception:
        continue   # refused loudly: acceptable
    s = Solver()
    for c in m.clauses:
        s.add_clause([m.ttable[l.v] if l.s else -m.ttable[l.v] for l in c])
    for a, b in itertools.product((0, 1), repeat=2):
        got = s.solve(assumptions=[m.ttable[x.v] if a else -m.ttable[x.v], m.ttable[y.v] if b else -m.ttable[y.v]])
        if got != holds(a, b):
            bad.append(f"{name}: {len(m.clauses) - before} clause(s) posted; x={a} y={b} "
                       f"{'accepted' if got else 'rejected'} by the CNF but the constraint is {holds(a, b)}")
    s.delete()
if bad:
    print("\n".join(bad))
    sys.exit(1)
print("ok: strict inequalities with bound 0 are encoded")

#!/venv/bin/python
"""C08 observation — rect_io.select_box recomputes the corners of every cell as centre ± size/2 in floating point.
For an allocation whose centres/sizes are not dyadic (e.g. a 1×1 die cut into 0.1-wide columns) the right side of
one cell and the left side of its neighbour differ in the last bit, so `definecoords` sees extra grid lines, cells
no longer span consecutive coordinates / abut exactly, and the shape search silently loses shapes (a box cannot end at
such a seam, a branch cannot hang across it).

Witness: 3×1 row of 0.1-wide cells written as (centre, size): the search for k = 1 must admit the 6 rectangles of a
3×1 grid; exit 1 if it admits a different number, exit 0 otherwise.  Honours FRAME_REPO.
"""
import contextlib
import io
import os
import sys
import types

sys.path.insert(0, os.environ.get("FRAME_REPO", "/repo"))
import tools.rect.rect as rect                      # noqa: E402
import tools.rect.satmanager as satmanager          # noqa: E402
from tools.rect.rect_io import select_box           # noqa: E402
from pysat.solvers import Solver                    # noqa: E402

rects = [{f"b{i}": [{"dim": [round(0.05 + 0.1 * i, 10), 0.05, 0.1, 0.1]}, {"mod": [{"M": 0.5}]}]} for i in range(3)]
ip, _ = select_box("M", {"Width": 0.3, "Height": 0.1, "Rectangles": rects})
c = types.SimpleNamespace(input_problem=ip, factor=10000)
rect.definecoords(c)
print("cells:", [b[:4] for b in ip])
print("xcoords:", c.xcoords, "(a 3×1 grid has 4)")
sm = satmanager.SATManager()
n = 0
try:
    with contextlib.redirect_stdout(io.StringIO()):
        rect.enforce_bb(c, {"Width": 0.3, "Height": 0.1}, sm, "b0_", "b0_")
    cnf = [[sm.ttable[l.v] if l.s else -sm.ttable[l.v] for l in cl] for cl in sm.clauses]
    proj = [sm.ttable[f"b0_{b}"] for b in c.blocks]
    with Solver(bootstrap_with=cnf) as s:
        while s.solve():
            m = set(s.get_model())
            print("  box:", [b for b, v in zip(c.blocks, proj) if v in m])
            s.add_clause([-v if v in m else v for v in proj])
            n += 1
except KeyError as e:
    print("KeyError", e)
    n = -1
print(f"{n} one-box shapes admitted (6 expected)")
sys.exit(0 if n == 6 and len(c.xcoords) == 4 else 1)

#!/venv/bin/python
"""C03 witness: a module that covers a whole die cell gets the ratio `sum(overlap / area)`, which on decimal
coordinates rounds to 1.0000000000000002; `Allocation.__init__` then rejects its own result
(`assert 0 <= occup <= 1` — "Invalid allocation for S in rectangle …"), so `create_initial_allocation` raises an
AssertionError on a valid die + netlist.

Exit 1 (and print what fails) on the defective code, exit 0 once repaired (fixes/C03_ratio_above_one.diff).
Honours FRAME_REPO.
"""
import os
import sys

sys.path.insert(0, os.environ.get("FRAME_REPO", "/repo"))
from frame.allocation.allocation import create_initial_allocation  # noqa: E402
from frame.die.die import Die  # noqa: E402
from frame.geometry.geometry import Rectangle  # noqa: E402
from frame.netlist.netlist import Netlist  # noqa: E402

# (die, netlist): a soft module S whose rectangle covers (at least) one whole ground cell
CASES = [
    # a 1x1 die cut in three columns by a specialised region in the middle; S is the whole die
    ("width: 1.0\nheight: 1.0\nregions: [[0.5, 0.5, 0.4, 1.0, 'dsp']]\n",
     "Modules:\n  S:\n    area: 1.0\n    rectangles: [[0.5, 0.5, 1.0, 1.0]]\n"),
    # decimal lattice, one blockage; S covers the left part of the die
    ("width: 0.8\nheight: 0.5\nregions: [[0.7, 0.25, 0.2, 0.5, '#']]\n",
     "Modules:\n  S:\n    area: 0.3\n    rectangles: [[0.3, 0.25, 0.6, 0.5]]\n"),
    ("width: 2.1\nheight: 0.9\nregions: [[0.45, 0.45, 0.3, 0.3, '#'], [1.65, 0.45, 0.3, 0.9, 'dsp']]\n",
     "Modules:\n  S:\n    area: 1.0\n    rectangles: [[1.05, 0.45, 2.1, 0.9]]\n"),
    ("width: 0.7\nheight: 0.35\nregions: [[0.315, 0.105, 0.07, 0.07, '#']]\n",
     "Modules:\n  S:\n    area: 0.1\n    rectangles: [[0.35, 0.175, 0.7, 0.35]]\n"),
]

bad = []
tried = 0
for k, (die_text, net_text) in enumerate(CASES):
    for split in (None, (2.0, 4), (1.5, 7)):
        Rectangle.undefine_epsilon()
        try:
            die = Die(die_text, Netlist(net_text))
            if split:
                die.split_refinable_regions(*split)
        except Exception as ex:   # the die itself is another property's subject
            print(f"case {k} split={split}: die/netlist not constructed ({type(ex).__name__}: {ex}) — skipped")
            continue
        tried += 1
        try:
            alloc = create_initial_allocation(die)
        except AssertionError as ex:
            bad.append(f"case {k} split={split}: AssertionError: {str(ex)[:170]}")
            continue
        for a in alloc.allocations:
            v = a.alloc.get("S")
            if v is None or not (0 < v <= 1):
                bad.append(f"case {k} split={split}: cell {a.rect.vector_spec} lists S with {v}")
Rectangle.undefine_epsilon()
if not tried:
    print("no case could be constructed")
    sys.exit(2)
if bad:
    print("\n".join(bad))
    sys.exit(1)
print(f"ok: {tried} dies whose cells are fully covered by a module are allocated (ratio 1)")

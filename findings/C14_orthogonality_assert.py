"""C14 — spectral placement does not return on a connected, admissible netlist whose movable modules all hang on
one fixed pin: the orthogonality sanity check `assert dotprod < 10e-12` of spectral_algorithm.orthogonalize fails.

Four soft modules, each connected by a 2-pin net to the same fixed terminal (an I/O pin on the border); two more fixed
nodes so that the netlist is an ordinary one.  Every module is on a net, the netlist is connected, every disc fits the
8 x 8 die.  In exact arithmetic the check passes (the dot product is exactly 0); in floating point the movable
coordinates collapse towards the pin, the weighted deviations become small against the common part and the
*unnormalised* ratio |<v1, 1>| / <v1, v1> exceeds 1e-11 after a few iterations — for every seed.

Exit 1 while Spectral.spectral_layout raises on this input (any seed 0..5), 0 once it returns for all of them.
Run: /venv/bin/python findings/C14_orthogonality_assert.py   (honours FRAME_REPO)
"""
import os
import random
import sys

sys.path.insert(0, os.environ.get("FRAME_REPO", "/repo"))
from frame.geometry.geometry import Shape, Rectangle  # noqa: E402
from tools.spectral.spectral import Spectral  # noqa: E402

NETLIST = """
Modules: {
  M0: {area: 1.0}, M1: {area: 2.0}, M2: {area: 1.5}, M3: {area: 0.5},
  P0: {terminal: true, fixed: true, center: [0.0, 3.0]},
  P1: {terminal: true, fixed: true, center: [8.0, 6.0]},
  F0: {fixed: true, rectangles: [[4.0, 1.0, 2.0, 2.0]]}
}
Nets: [[P0, M0], [P0, M1], [P0, M2], [P0, M3], [P0, P1], [P0, F0]]
"""

failed = []
for seed in range(6):
    Rectangle.undefine_epsilon()
    net = Spectral(NETLIST)
    random.seed(seed)
    try:
        net.spectral_layout(Shape(8.0, 8.0), 1, False)
    except Exception as ex:  # noqa: BLE001
        failed.append((seed, type(ex).__name__))
if failed:
    print("Spectral.spectral_layout raised on an admissible netlist (seed, exception):", failed)
    sys.exit(1)
print("spectral_layout returned for every seed")
sys.exit(0)

#!/venv/bin/python
"""C12 witness (open finding): `griddify` decides the x cuts with the height a cell has BEFORE the y cuts.

A tall cell [0,2]x[0,8] has a neighbour boundary at x = 0.05: min(0.05, 1.95) = 0.05 <= 1% of 8, so the cut is
refused as a sliver.  The y cuts (lines y = 1..7 of the stacked neighbours) then shorten the cell to height 1, for
which 0.05 > 1% of 1: the result contains refinable cells crossed by the line x = 0.05 although the cut would not be
a sliver for them.  (Runs after fixes/C02_griddify_yloop.diff; on the unrepaired tree the y loop is wrong as well.)
Exits 1 while the behaviour is present.
"""
import os
import sys

sys.path.insert(0, os.environ.get("FRAME_REPO", "/repo"))
from frame.allocation.allocation import Allocation  # noqa: E402
from frame.geometry.geometry import Rectangle  # noqa: E402

Rectangle.undefine_epsilon()
rows = ["[[1,4,2,8], {M1: 0.5}]", "[[0.025,8.5,0.05,1], {M2: 0.5}]", "[[1.025,8.5,1.95,1], {M2: 0.5}]"]
rows += [f"[[3,{k + 0.5},2,1], {{M2: 0.5}}]" for k in range(8)]
a = Allocation("[" + ", ".join(rows) + "]\n# k: v\n")
g = a.griddify()
bad = []
for r in g.allocations:
    bb = r.rect.bounding_box
    if not r.rect.fixed and r.rect.x_cuttable(0.05, 0.01):
        bad.append((bb.ll.x, bb.ur.x, bb.ll.y, bb.ur.y))
print(g.num_rectangles, "cells after griddify;", len(bad), "refinable cells still cuttable at the boundary x = 0.05:", bad[:3])
if bad:
    print("FAIL: not aligned (x cut refused for the tall cell, never reconsidered after the y cuts)")
    sys.exit(1)
print("ok")
sys.exit(0)

#!/venv/bin/python
"""C12 witness: `griddify` decides the x cuts with the height a cell has BEFORE the y cuts (one round of sweeps only).

Scenario 1.  A tall cell [0,2]x[0,8] has a neighbour boundary at x = 0.05: min(0.05, 1.95) = 0.05 <= 1% of 8, so the cut is
refused as a sliver.  The y cuts (lines y = 1..7 of the stacked neighbours) then shorten the cell to height 1, for
which 0.05 > 1% of 1: the result contains refinable cells crossed by the line x = 0.05 although the cut would not be
a sliver for them.

Scenario 2 (a cascade: running the x sweep ONCE more after the y sweep is not enough).  Cell [0,128]^2, neighbour side
lines at x = 1, y = 64, y = 0.5.  Round 1: x = 1 refused (1 <= 1.28), y = 64 accepted, y = 0.5 refused (0.5 <= 1.28).
Round 2: x = 1 accepted for the pieces of height 64 (1 > 0.64); the piece [0,1]x[0,64] then accepts y = 0.5
(0.5 > 1% of 1).  Only a fixpoint of both sweeps leaves no refinable cell crossed by a side line of another cell.

(Runs after fixes/C02_griddify_yloop.diff.)  Repaired by fixes/C12_griddify_x_before_y.diff (the two sweeps are repeated
until a round cuts nothing).  Exits 1 while the behaviour is present, 0 once repaired.
"""
import os
import sys

sys.path.insert(0, os.environ.get("FRAME_REPO", "/repo"))
from frame.allocation.allocation import Allocation  # noqa: E402
from frame.geometry.geometry import Rectangle  # noqa: E402


def crossed(g):
    """refinable result cells that are still cuttable (1% rule) at a side line of some result cell."""
    xs = sorted({v for r in g.allocations for v in (r.rect.bounding_box.ll.x, r.rect.bounding_box.ur.x)})
    ys = sorted({v for r in g.allocations for v in (r.rect.bounding_box.ll.y, r.rect.bounding_box.ur.y)})
    bad = []
    for r in g.allocations:
        if r.rect.fixed:
            continue
        bb = r.rect.bounding_box
        for x in xs:
            if r.rect.x_cuttable(x, 0.01):
                bad.append(("x", x, (bb.ll.x, bb.ur.x, bb.ll.y, bb.ur.y)))
        for y in ys:
            if r.rect.y_cuttable(y, 0.01):
                bad.append(("y", y, (bb.ll.x, bb.ur.x, bb.ll.y, bb.ur.y)))
    return bad


def cell(x0, y0, x1, y1, m):
    return f"[[{(x0 + x1) / 2},{(y0 + y1) / 2},{x1 - x0},{y1 - y0}], {{{m}: 0.5}}]"


fail = False
Rectangle.undefine_epsilon()
rows = ["[[1,4,2,8], {M1: 0.5}]", "[[0.025,8.5,0.05,1], {M2: 0.5}]", "[[1.025,8.5,1.95,1], {M2: 0.5}]"]
rows += [f"[[3,{k + 0.5},2,1], {{M2: 0.5}}]" for k in range(8)]
g = Allocation("[" + ", ".join(rows) + "]\n# k: v\n").griddify()
bad = crossed(g)
print("scenario 1:", g.num_rectangles, "cells after griddify;", len(bad), "crossings of refinable cells:", bad[:3])
fail |= bool(bad)

Rectangle.undefine_epsilon()
rows = [cell(0, 0, 128, 128, "M1"), cell(0, 128, 1, 136, "M2"), cell(1, 128, 128, 136, "M2"),
        cell(128, 0, 136, 0.5, "M3"), cell(128, 0.5, 136, 64, "M3"), cell(128, 64, 136, 128, "M3")]
g = Allocation("[" + ", ".join(rows) + "]\n# k: v\n").griddify()
bad = crossed(g)
print("scenario 2:", g.num_rectangles, "cells after griddify;", len(bad), "crossings of refinable cells:", bad[:3])
fail |= bool(bad)

# Scenario 3 (audit 4): a chain x=1, y=0.5, x=0.25, y=0.005, x=0.004 next to a 100x100 cell needs FOUR rounds of the two sweeps
Rectangle.undefine_epsilon()
S, T = 100.0, 8.0
xl, yl = [0.0, 0.004, 0.25, 1.0, S], [0.0, 0.005, 0.5, 50.0, S]
rows = [cell(0, 0, S, S, "M1")] + [cell(u, S, v, S + T, "M2") for u, v in zip(xl, xl[1:])] + \
    [cell(S, u, S + T, v, "M3") for u, v in zip(yl, yl[1:])]
g = Allocation("[" + ", ".join(rows) + "]\n# k: v\n").griddify()
bad = crossed(g)
print("scenario 3:", g.num_rectangles, "cells after griddify;", len(bad), "crossings of refinable cells:", bad[:3])
fail |= bool(bad)
Rectangle.undefine_epsilon()

if fail:
    print("FAIL: not aligned (a cut refused as a sliver for the taller / wider cell is never reconsidered after the other sweep)")
    sys.exit(1)
print("ok")
sys.exit(0)

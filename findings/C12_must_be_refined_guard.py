#!/venv/bin/python
"""C12 witness: `must_be_refined` lacks the `len(alloc) > 0` guard of `refine`.

An allocation with an unoccupied cell (empty occupancy map — what `create_initial_allocation` produces for every die
region no module overlaps): `all(...)` over an empty dict is True, so `must_be_refined(t)` is True for every
threshold, while `refine(t)` never splits that cell.  The guarded loop of glbfloor
(`if allocation.must_be_refined(threshold): allocation = allocation.refine(threshold)`) is entered although
`refine` is the identity.
Exits 1 on the defective code, 0 once repaired (fixes/C12_must_be_refined_guard.diff, on top of C02_fixed_cells_cut.diff).
"""
import os
import sys

sys.path.insert(0, os.environ.get("FRAME_REPO", "/repo"))
from frame.allocation.allocation import Allocation  # noqa: E402
from frame.geometry.geometry import Rectangle  # noqa: E402

Rectangle.undefine_epsilon()
a = Allocation("[[[1,1,2,2], {M1: 0.9}], [[3,1,2,2], {}]]\n# k: v\n")
t = 0.5
pred = a.must_be_refined(t)
after = a.refine(t)
changed = after.num_rectangles != a.num_rectangles
print(f"must_be_refined({t}) = {pred}; refine({t}) changes the allocation: {changed} "
      f"({a.num_rectangles} -> {after.num_rectangles} cells)")
if pred != changed:
    print("FAIL: the predicate is true on a fixpoint of refine (cell with an empty occupancy map)")
    sys.exit(1)
print("ok")
sys.exit(0)

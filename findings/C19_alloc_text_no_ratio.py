#!/venv/bin/python
"""C19 witness: an allocation document FRAME itself produced is not accepted back as text.

`Allocation.write_yaml()` of an allocation in which no cell lists a module (e.g. the cells of `create_initial_allocation`
that no module reaches, or the descriptor list `[(rect, {}, 0), …]` the tools build first) is a YAML text made only of
sequences and `{}`: it contains no ': '.  `read_yaml` tells text from a file name by looking for ': ', so
`Allocation(a.write_yaml())` tries to open a file called like the document and raises FileNotFoundError / OSError.
Exits 1 on the defective code, 0 once repaired (fixes/C19_alloc_text_no_ratio.diff).
"""
import os
import sys

sys.path.insert(0, os.environ.get("FRAME_REPO", "/repo"))
from frame.allocation.allocation import Allocation  # noqa: E402
from frame.geometry.geometry import Rectangle  # noqa: E402

Rectangle.undefine_epsilon()
a = Allocation([[[2, 3, 4, 6], {}], [[6, 3, 4, 6, "dsp"], {}, 1]])
doc = a.write_yaml()
try:
    b = Allocation(doc)
except OSError as e:
    print("FAIL: the document\n" + doc + "is taken for a file name:", type(e).__name__)
    sys.exit(1)
same = [(list(c.rect.vector_spec), dict(c.alloc), c.depth) for c in a.allocations] == \
       [(list(c.rect.vector_spec), dict(c.alloc), c.depth) for c in b.allocations]
if not same or b.write_yaml() != doc:
    print("FAIL: the allocation read back differs from the one written")
    sys.exit(1)
print("ok")
sys.exit(0)

#!/venv/bin/python
"""C17 witness: circle_circle_intersection_area raises OverflowError for discs that are very far apart.

The centre distance is taken with Point.norm, `(x**2 + y**2)**(1/2)`: for centres more than ~1.34e154 apart the
square is not a double and Python's `**` raises OverflowError, although the answer (0: the discs are disjoint)
is perfectly representable and the radii are ordinary.
Exit 1 (and say what fails) on defective code, exit 0 once repaired.  Honours FRAME_REPO.
"""
import os
import sys

sys.path.insert(0, os.environ.get("FRAME_REPO", "/repo"))
from tools.force.fruchterman_reingold import circle_circle_intersection_area as area  # noqa: E402
from frame.geometry.geometry import Point  # noqa: E402

CASES = [  # (centre 1, r1, centre 2, r2, expected area)
    ((0.0, 0.0), 1.0, (2e154, 0.0), 1.0, 0.0),
    ((-1e200, 3.0), 2.5, (1e200, -4.0), 0.5, 0.0),
    ((0.0, -1.5e154), 1e100, (0.0, 1.5e154), 3e120, 0.0),
    ((1e160, 1e160), 1e150, (-1e160, 1e160), 1e150, 0.0),
    ((3e153, 0.0), 2e153, (-1.2e154, 4e153), 1e153, 0.0),    # large but admissible radii (the disc areas are doubles)
]
bad = 0
for c1, r1, c2, r2, want in CASES:
    for (p, rp, q, rq) in ((c1, r1, c2, r2), (c2, r2, c1, r1)):
        try:
            got = area(Point(*p), rp, Point(*q), rq)
        except Exception as e:  # noqa: BLE001
            print(f"FAIL c1={p} r1={rp!r} c2={q} r2={rq!r}: raises {type(e).__name__}({e})")
            bad += 1
            continue
        if got != want:
            print(f"FAIL c1={p} r1={rp!r} c2={q} r2={rq!r}: area {got!r}, expected {want!r}")
            bad += 1
sys.exit(1 if bad else 0)

#!/venv/bin/python
"""C07 witness: `SATManager.heuleencoding` is recursive (one Python frame per auxiliary).  On a group longer than about
990 literals (default recursion limit 1000, k = 3) it raises `RecursionError` AFTER it has already added thousands of
clauses and ~1000 auxiliaries: the at-most-one group is refused, yet a weaker constraint (at most one among the first
~990 literals, chained to dangling auxiliaries) stays posted in the manager — neither "encoded exactly" nor "refused".

Exit 1 while the behaviour is present, exit 0 once repaired (fixes/C07_heule_recursion.diff: the same loop written
iteratively — same clauses in the same order, same auxiliaries).  Honours FRAME_REPO.
"""
import os
import sys

sys.path.insert(0, os.environ.get("FRAME_REPO", "/repo"))
from pysat.solvers import Solver  # noqa: E402
from tools.rect.satmanager import SATManager  # noqa: E402

N = 1200
m = SATManager()
lits = [m.newvar(i) for i in range(N)]
try:
    m.heuleencoding(list(lits), 3)
    raised = None
except RecursionError as e:
    raised = e
bad = []
if raised is not None:
    bad.append(f"heuleencoding({N} literals, k=3) raised RecursionError but left {len(m.clauses)} clauses and "
               f"{m.auxcount} auxiliaries in the manager")
# whatever happened, the clause list must mean exactly "at most one of the N literals" (or nothing, if refused)
s = Solver()
for c in m.clauses:
    s.add_clause([m.ttable[l.v] if l.s else -m.ttable[l.v] for l in c])
def extends(true_idx):
    on = set(true_idx)
    return s.solve(assumptions=[m.ttable[l.v] if j in on else -m.ttable[l.v] for j, l in enumerate(lits)])
for idx, want in (([], True), ([0], True), ([N - 1], True), ([0, 1], False), ([0, N - 1], False), ([N - 2, N - 1], False), ([5, 600], False)):
    got = extends(idx)
    expect = want if raised is None else True     # a refused constraint must not restrict anything
    if got != expect:
        bad.append(f"literals {idx} true: CNF {'accepts' if got else 'rejects'}, expected {'accept' if expect else 'reject'} "
                   f"({'constraint was refused' if raised is not None else 'constraint was accepted'})")
s.delete()
if bad:
    print("\n".join(bad))
    sys.exit(1)
print(f"ok: at-most-one over {N} literals encoded exactly ({len(m.clauses)} clauses, {m.auxcount} auxiliaries)")

#!/venv/bin/python
"""C02 witness (open finding, proposed): on dies of size ~1e7 units and more, `refine` raises AssertionError on a valid
allocation with decimal coordinates.

One cell [1000000.3, 8000000.7] x [0, 9000000.2] (a valid allocation: the constructor accepts it) is refined three levels.
The two halves of a cut are rebuilt from centre and size (`split_horizontal / split_vertical`); their common side is
recomputed as `centre ± size/2` and differs by about ulp(1e7) ≈ 1.9e-9, so sibling cells overlap by ulp·side ≈ 4e-3.
The constructor of the result checks `Rectangle.overlap` against the class-wide AREA tolerance, which `Allocation.__init__`
derives as sqrt(1e-12 · min(width, height)) ≈ 2.6e-3: the tolerance grows with sqrt(L) while the rounding overlap grows with
L², so above L ≈ 5e6 "the operation succeeds on every valid allocation" fails (same root as C20-sticky-tolerance: the area
tolerance is the square root of a length).  Exits 1 while the behaviour is present.
"""
import os
import sys

sys.path.insert(0, os.environ.get("FRAME_REPO", "/repo"))
from frame.allocation.allocation import Allocation  # noqa: E402
from frame.geometry.geometry import Rectangle  # noqa: E402

bad = []
for L in (1e7, 3e7):
    Rectangle.undefine_epsilon()
    x0, w, h = L * 0.1 + 0.3, L * 0.7 + 0.4, L * 0.9 + 0.2
    a = Allocation(f"[[[{x0 + w / 2!r},{h / 2!r},{w!r},{h!r}], {{M1: 0.5}}]]\n# a: b\n")
    for name, op in (("refine(1.0, 3)", lambda: a.refine(1.0, 3)), ("refine(1.0, 2)", lambda: a.refine(1.0, 2))):
        try:
            op()
        except AssertionError as e:
            bad.append((L, name, str(e)[:60]))
Rectangle.undefine_epsilon()
print("valid one-cell allocations on which a refinement raised:", bad)
if bad:
    print("FAIL: the operation does not succeed on every valid allocation (rounding overlap ~ 2^-52·L² exceeds the area "
          "tolerance sqrt(1e-12·L) for L above ~5e6)")
    sys.exit(1)
print("ok")
sys.exit(0)

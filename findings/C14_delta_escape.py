"""C14 — the |x_i| <= 1e-9 escape of spectral_algorithm.normalize (function level).

normalize() promises coordinates that "fit inside the die": |x'_i| <= max_span_i for every movable node.  It only
looks at coordinates with |x_i| > 10e-10 when choosing the scale, but scales all of them.  Exit 1 while a coordinate
at/below the threshold can leave its span, 0 once normalize bounds those coordinates as well.
Run: /venv/bin/python findings/C14_delta_escape.py   (honours FRAME_REPO)
"""
import os
import sys

sys.path.insert(0, os.environ.get("FRAME_REPO", "/repo"))
from tools.spectral.spectral_algorithm import normalize  # noqa: E402

x = [2e-9, 1e-9]
span = [5.0, 1.0]
normalize(x, span, [False, False])
bad = [(i, v, s) for i, (v, s) in enumerate(zip(x, span)) if abs(v) > s * (1 + 1e-12)]
if bad:
    print("normalize([2e-9, 1e-9], max_span=[5, 1]) ->", x, ": coordinate(s) beyond their span:", bad)
    sys.exit(1)
print("normalize keeps every movable coordinate within its span:", x)
sys.exit(0)

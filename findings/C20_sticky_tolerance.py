#!/venv/bin/python
"""Witness for known finding C20-sticky-tolerance-nonrobust-design (exit 1 = defect present).

A hard module with two clearly overlapping rectangles (scale 1e-4) is rejected when its netlist is the first thing a
process loads, and accepted when a netlist of scale 1e-1 (factor 1000) was loaded before it: the class-wide area
tolerance sqrt(1e-12 * 0.1) = 3.2e-7 left behind by the first design exceeds the overlap area 2e-8.
"""
import multiprocessing as mp
import os
import sys

sys.path.insert(0, os.environ.get("FRAME_REPO", "/repo"))


def nl(s):
    return (f"Modules: {{\n  A: {{hard: true, rectangles: [[{2*s},{2*s},{2*s},{2*s}],[{3*s},{2*s},{2*s},{2*s}]]}},\n"
            f"  B: {{area: {4*s*s}, center: [{s},{s}]}}\n}}\nNets: [[A,B]]\n")


def run(history):
    from frame.netlist.netlist import Netlist
    if history:
        h = 1e-1
        Netlist(f"Modules: {{\n  A: {{area: {h*h}, center: [{h},{h}]}},\n  B: {{area: {4*h*h}, center: [{h},{h}]}}\n}}\nNets: [[A,B]]\n")
    try:
        Netlist(nl(1e-4))
        return "accepted"
    except AssertionError:
        return "rejected"


if __name__ == "__main__":
    with mp.get_context("fork").Pool(1, maxtasksperchild=1) as p:
        fresh = p.apply(run, (False,))
    with mp.get_context("fork").Pool(1, maxtasksperchild=1) as p:
        after = p.apply(run, (True,))
    print("fresh process:", fresh, "| after a design of scale 1e-1:", after)
    sys.exit(1 if fresh != after else 0)

#!/venv/bin/python
"""C15 witness: the rectangles `strop_decomposition` returns for a polygon with ordinary one-decimal coordinates,
loaded as a module through `Netlist` (which derives the tolerances itself), are NOT recognised as a single-trunk
orthogon.

Mechanism: `strop_decomposition` returns `[cx, cy, w, h]`; the sides `cx ± w/2`, `cy ± h/2` that `find_location`
recomputes reproduce the grid lines only up to rounding (≤ ~2 ulp of the coordinate, here 1.1e-13 at y = 801.8 /
629.9).  `Netlist` sets the distance tolerance to `1e-12 × smallest dimension` — here the 0.1-wide west branch gives
ε ≈ 1e-13 — which is *below* that rounding, so `almost_eq(trunk.ymax, branch.ymin, ε)` (strict `<`) fails for sides
that are equal in exact arithmetic; no rectangle qualifies as trunk and `has_stog` is False.  It needs
`smallest dimension / largest |coordinate| ≲ 4.4e-4`.

Exits 1 while the defect shows, 0 once repaired.
"""
import os
import sys

sys.path.insert(0, os.environ.get("FRAME_REPO", "/repo"))
from frame.geometry.geometry import Point, Rectangle  # noqa: E402
from frame.netlist.netlist import Netlist  # noqa: E402
from tools.floorset_parser.floor_set_manager.utils.utils import strop_decomposition  # noqa: E402

VERTS = [(541.1, 801.8), (73.5, 801.8), (73.5, 629.9), (21.7, 629.9), (21.7, 386.0), (21.6, 386.0), (21.6, 195.9),
         (602.0, 195.9), (602.0, 386.0), (541.1, 386.0)]

rects = strop_decomposition([Point(x, y) for x, y in VERTS])
print("rectangles [cx, cy, w, h] (trunk first):")
for r in rects:
    print("  ", r)
Rectangle.undefine_epsilon()
net = Netlist("Modules: {M: {area: %r, rectangles: %s}}\nNets: []\n"
              % (float(sum(r[2] * r[3] for r in rects)), [list(map(float, r)) for r in rects]))
m = net.get_module("M")
roles = [r.location.name for r in m.rectangles]
t, b = m.rectangles[0].bounding_box, m.rectangles[1].bounding_box
print("distance epsilon set by the netlist:", Rectangle.distance_epsilon())
print("trunk.ymax - north.ymin =", t.ur.y - b.ll.y, "(equal in exact arithmetic)")
print("has_stog:", m.has_stog, roles)
if not m.has_stog or roles[0] != "TRUNK" or any(x == "NO_POLYGON" for x in roles):
    print("FAIL: the decomposition of a single-trunk polygon is not recognised as a single-trunk orthogon")
    sys.exit(1)
print("ok")
sys.exit(0)

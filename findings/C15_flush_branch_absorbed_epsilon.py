#!/venv/bin/python
"""C15 witness (second mechanism behind the open finding C15-decimal-decomposition): rectangles whose sides coincide
BIT-EXACTLY are not recognised as a single-trunk orthogon once the netlist's distance tolerance is below half a unit in
the last place of the coordinates.

The polygon is an L on the dyadic grid lines 1048576, 1048576.5, 1048577 (all sums, halves and differences below are
exact in binary64, so `strop_decomposition` returns [cx, cy, w, h] whose recomputed sides cx ± w/2, cy ± h/2 are exactly
the grid lines).  `Netlist` derives ε = 1e-12 × smallest dimension = 5e-13, far below ulp(1048576)/2 = 1.2e-10.
`Rectangle.find_location` then finds the common side (|difference| = 0 < ε) but its interval test

        bb_r.ll.y > bb_self.ll.y - epsilon          (and the three similar ones)

is evaluated in floating point: `bb_self.ll.y - epsilon` rounds back to `bb_self.ll.y`, and a branch that is flush with
the end of the trunk (`bb_r.ll.y == bb_self.ll.y`, the ordinary case) fails the strict `>`.  No choice of [cx, cy, w, h]
on the decomposition side can avoid this: the sides are already exact.

Exits 1 while the defect shows, 0 once repaired.
"""
import math
import os
import sys

sys.path.insert(0, os.environ.get("FRAME_REPO", "/repo"))
from frame.geometry.geometry import Point, Rectangle  # noqa: E402
from frame.netlist.netlist import Netlist  # noqa: E402
from tools.floorset_parser.floor_set_manager.utils.utils import strop_decomposition  # noqa: E402

A, B, C = 1048576.0, 1048576.5, 1048577.0
VERTS = [(A, A), (C, A), (C, B), (B, B), (B, C), (A, C)]

rects = strop_decomposition([Point(x, y) for x, y in VERTS])
print("rectangles [cx, cy, w, h] (trunk first):")
for r in rects:
    print("  ", r, " sides:", r[0] - r[2] / 2, r[0] + r[2] / 2, r[1] - r[3] / 2, r[1] + r[3] / 2)
exact = all(s in (A, B, C) for r in rects for s in (r[0] - r[2] / 2, r[0] + r[2] / 2, r[1] - r[3] / 2, r[1] + r[3] / 2))
print("every recomputed side is exactly a grid line:", exact)
Rectangle.undefine_epsilon()
net = Netlist("Modules: {M: {area: %r, rectangles: %s}}\nNets: []\n"
              % (float(sum(r[2] * r[3] for r in rects)), [list(map(float, r)) for r in rects]))
m = net.get_module("M")
eps = Rectangle.distance_epsilon()
roles = [r.location.name for r in m.rectangles]
print("distance epsilon set by the netlist:", eps, " ulp(coordinate)/2 =", math.ulp(A) / 2)
print("A - epsilon == A :", A - eps == A)
print("has_stog:", m.has_stog, roles)
Rectangle.undefine_epsilon()
if not m.has_stog or roles[0] != "TRUNK" or any(x == "NO_POLYGON" for x in roles):
    print("FAIL: rectangles with exactly coinciding sides are not recognised as a single-trunk orthogon")
    sys.exit(1)
print("ok")
sys.exit(0)

#!/venv/bin/python
"""C01 witness: a valid die is rejected with `ZeroDivisionError` because the (otherwise unused) `ratio` field of
`GroundRegion` is computed as `ratio = height / width; if ratio < 1.0: ratio = 1 / ratio`.

For a die (or a free cell) whose height / width underflows to 0.0 — e.g. `1e200 x 1e-200`: both sides, the die area (1.0) and
every tolerance are ordinary doubles — `1 / ratio` divides by zero in `_find_all_ground_rectangles` / `_expand_rectangle`, although
the description is valid and the transposed die `1e-200 x 1e200` is accepted (there the quotient overflows to `inf`, which is
not below 1).  "A valid description is never rejected, whatever its coordinates."
Exit 1 on the defective code, 0 once repaired (fixes/C01_ground_ratio_zero_division.diff)."""
import os
import sys

sys.path.insert(0, os.environ.get("FRAME_REPO", "/repo"))
from frame.die.die import Die  # noqa: E402
from frame.geometry.geometry import Rectangle  # noqa: E402

DOCS = [
    "1e200x1e-200",
    "width: 1e200\nheight: 1e-200\n",
    "width: 3e180\nheight: 2.5e-170\n",
    "1e-200x1e200",
]
bad = 0
for doc in DOCS:
    Rectangle.undefine_epsilon()
    try:
        d = Die(doc)
        tot = sum(r.area for r in d.ground_regions + d.blockages + d.specialized_regions)
        print("accepted:", doc.replace("\n", "; "), "->", len(d.ground_regions), "ground region(s), area", tot)
    except Exception as e:       # ZeroDivisionError on the defective code
        bad += 1
        print("REJECTED valid die:", doc.replace("\n", "; "), "->", type(e).__name__, str(e)[:120])
    finally:
        Rectangle.undefine_epsilon()
sys.exit(1 if bad else 0)

#!/bin/sh
# MANIFEST.setup_cmd: build the Lean side of every registered check from files on disk (offline).
# Each property is built separately so that one broken module cannot take the others down; every check
# rebuilds (no-op when fresh) and audits its own targets again when it runs.
cd "$(dirname "$0")" || exit 2
# one parallel build of everything first (all cores); a failure here is not fatal: the per-property builds below
# isolate a broken module and report it.
./lk build >/dev/null 2>&1 || echo "setup: whole-project build reported errors; building per property"
/venv/bin/python - <<'PY'
import json, subprocess, sys, importlib, os
sys.path.insert(0, "harness")
man = json.load(open("MANIFEST.json"))
bad = 0
for c in man["checks"]:
    pid = c["property_id"]
    try:
        sys.path.insert(0, "/repo")
        import re
        src = open(f"harness/props/{pid.lower()}.py").read()
        m = re.search(r"^DRIVERS\s*=\s*(\[.*?\])", src, re.M)
        drivers = json.loads(m.group(1).replace("'", '"')) if m else ["drv_geom"]
    except Exception as e:
        print("setup:", pid, "cannot read drivers:", e); drivers = ["drv_geom"]
    r = subprocess.run(["./lk", "build", f"FV.Props.{pid}"] + drivers, capture_output=True, text=True)
    print(f"setup: {pid} build {'ok' if r.returncode == 0 else 'FAILED'}")
    if r.returncode != 0:
        bad += 1
        print((r.stdout + r.stderr)[-1500:])
print(f"setup: {len(man['checks']) - bad}/{len(man['checks'])} properties built")
PY
exit 0

#!/bin/sh
# sweep_thorough.sh pids…  — thorough tier of the given checks (evidence redirected to /tmp so evidence/ keeps the quick runs)
cd "$(dirname "$0")" || exit 2
for p in "$@"; do
  t0=$(date +%s)
  out=$(VERIF_EVIDENCE_DIR=/tmp/thorough_evidence timeout 5400 ./check $p --tier thorough 2>&1); rc=$?
  echo "$p exit=$rc $(( $(date +%s) - t0 ))s $(echo "$out" | tail -1 | cut -c1-170)"
  [ $rc -ne 0 ] && echo "$out" | grep -E "VIOLATION|Traceback|Error" | head -5
done

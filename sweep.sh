#!/bin/sh
# sweep.sh "<seeds>" [pids…]  — run the quick tier of the registered checks for several seeds on the unchanged tree; any exit != 0 is a problem
cd "$(dirname "$0")" || exit 2
seeds="$1"; shift
pids="$*"
[ -z "$pids" ] && pids=$(python3 -c "import json; print(' '.join(c['property_id'] for c in json.load(open('MANIFEST.json'))['checks']))")
for s in $seeds; do for p in $pids; do
  out=$(VERIF_SEED=$s ./check $p 2>&1); rc=$?
  echo "seed=$s $p exit=$rc $(echo "$out" | tail -1 | cut -c1-170)"
  [ $rc -ne 0 ] && echo "$out" | grep -E "VIOLATION|Traceback|Error" | head -5
done; done

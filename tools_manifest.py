#!/usr/bin/env python3
"""Regenerates MANIFEST.json from the table below (single source of truth for the registered checks)."""
import json, os
HERE = os.path.dirname(os.path.abspath(__file__))

CHECKS = {
    "C18": dict(
        text="Machine-checked proof (Lean 4 kernel) of every rectangle law of the property — overlap area = area of the common "
             "region, symmetry, intersection existence/containment/area, containment = set inclusion, touching = L∞ gap ≤ ε, "
             "cut / halve / grid tile exactly and inherit attributes, cuttability — for all rectangles over any linearly ordered "
             "field, about an executable model that is run against frame/geometry/geometry.py on every check (exact dyadic "
             "stream at Rat, float stream at IEEE doubles) together with the theorems' right-hand sides evaluated on the "
             "implementation's outputs.",
        note="Trusted: Lean kernel + Mathlib, axioms propext/Classical.choice/Quot.sound; the hand-written model's fidelity is "
             "sampled (correspondence), not proved; theorems are about exact arithmetic, rounding is only executed.",
        technique="Lean 4 theorems over ordered fields + model/implementation correspondence (differential) run",
        design="§7 C18"),
}

CHECKS["C20"] = dict(
    text="Two layers. (1) Machine-checked proof (Lean 4) about the explicit model of the library's process-wide tolerance state: "
         "the tolerances are fixed by the first design and never change afterwards, the tolerance any later operation sees is one "
         "proposed by the history or by itself, and a tolerance-reading operation (touch / overlap tests, abstract form for any body) "
         "on an input that is Robust for the interval of proposed tolerances answers exactly as in a fresh process, for every history "
         "(induction over the operation list). The ROBDD-store half is C07's store theorems (encoding_history_indep); the legaliser's "
         "module-level registers (slack, name registry, debug mask) are a second state machine (FV/Model/Registers.lean): no operation "
         "ever writes the name registry, and any sequence that installs its own slack before reading it — every model construction — "
         "gives the results of a fresh process after any history (legal_build_history_indep); region decomposition verdicts are "
         "history-independent for band-free dies (die_verdict_any_history). (2) The observation the property names, "
         "run on every check: digest of a probed operation in a fresh forked interpreter vs after a random history on unrelated "
         "designs within x1000 in scale (6 operation kinds), plus bit-exact correspondence of the observed tolerance state with the "
         "model, random register-operation sequences on the real expression_tree module vs the register model, and a footprint clause "
         "(name registry, debug mask, shared default-argument objects of Ineq/Strop unchanged after every operation). The unchanged code violates the property for non-Robust designs (known finding C20-sticky-tolerance-...); the "
         "theorems carry exactly that hypothesis, so the claim is partial.",
    note="Trusted: Lean kernel + Mathlib (standard axioms); the models cover the Rectangle tolerance state, the ROBDD store and the legaliser registers — absence of any other "
         "leaking state is established by the differential runs, not proved; sqrt enters as a monotone parameter; exact arithmetic.",
    technique="Lean 4 invariant over operation histories (sticky tolerance state) + fresh-fork vs after-history differential runs",
    design="§7 C20")

CHECKS["C10"] = dict(
    text="Partial by nature (the numbers come from a non-linear solver). Machine-checked (Lean 4) for EVERY solver answer: the "
         "extraction step returns a sub-list of the offered cells, so non-overlap and inside-the-die are inherited through the whole "
         "refine/optimise loop (loop invariant by induction); every listed ratio is in [0,1]; a movable hard module is exactly "
         "translated and/or mirrored (mirrored only if flippable) with the reported centre as its area-weighted centroid. Under the "
         "named, run-time-monitored solver post-condition SolverPost (ratios >= 0, cell rows <= 1+tol, centres in the die): cell "
         "totals <= 1+tol, centres in the die, fixed modules keep rectangles and own their cells exactly {m:1}; all of it composed into ONE "
         "theorem about the value glbfloor returns (glbfloor_correct: rigidity w.r.t. the INPUT netlist across passes, fixed ownership as a "
         "loop invariant) with the loop instantiated by the C02/C12 refinement model. The model is tied to "
         "tools/glbfloor/optimization.py by replaying every captured extract_solution call through the Lean model (Float and Rat), and "
         "all clauses are evaluated with exact arithmetic on real multiprocess glbfloor runs.",
    note="GEKKO/IPOPT answer is an input (hypothesis SolverPost + ConstRespect, monitored on every instance; a run that returns although a "
         "solve did not report success is a property failure); the start allocation (ValidAlloc, inside the die, FixedOwn) is a hypothesis "
         "(C03/C01); model fidelity sampled, not proved; IEEE rounding executed, not proved; "
         "runs where GEKKO raises are outside the property.",
    technique="Lean 4 proofs with the solver answer as a parameter + replay of captured solver answers through the model + clause evaluation on real runs",
    design="§7 C10, §11")

CHECKS["C16"] = dict(
    text="Machine-checked (Lean 4, core only) over a line-by-line model of tools/rect/pseudobool.py: for every Python expression tree "
         "over Literal/Term/Expr/Ineq (+, -, int/float *, unary minus, the five comparisons, reflected operators, direct Ineq calls) the "
         "value of the built object equals direct integer evaluation under every assignment, a built inequality holds iff the direct "
         "comparison holds, and every Expr / Ineq.lhs is in normal form (positive coefficients, distinct variables) — invariant by "
         "induction over the tree. Tied to the code on every run: thousands of random trees, structures (constant, ordered terms, "
         "lhs/rhs/op) compared exactly with the model and all assignments of <= 6 variables evaluated on the implementation's objects.",
    note="Model fidelity and Python operator dispatch checked by correspondence, not proved; nan/inf operands excluded; the code was "
         "repaired first (fix: Expr.__mul__ constant), the model follows the repaired code.",
    technique="Lean 4 proof over an executable model + differential run + exhaustive-assignment oracle", design="§7 C16")
CHECKS["C07"] = dict(
    text="Machine-checked (Lean 4) over models of satmanager.py, getrobdd/constructrobdd (both constructions, process-wide store "
         "threaded explicitly) and isclause: pairwise and Heule at-most-one (all k >= 3, all lists), imply, ROBDD semantics and the "
         "one-directional Tseitin encoding are exact; for ANY posting history of a manager (refusals and interleaving with other managers "
         "sharing the store included) an assignment of the user variables extends to a model of the CNF iff it satisfies every accepted "
         "constraint; refusal happens only for k < 3 and non-clause >,<,= inequalities (never silently dropped); the store invariant "
         "(well-formed, append-only, no duplicates, meaning preserved) holds over all histories; solve/value/evalexpr are sound given a "
         "correct solver. Tied to the code on every run: clause lists and store compared with the model after each posting, and every "
         "assignment of <= 12 user variables pushed to the real pysat solver on the real clauses.",
    note="SAT solver trusted (hypothesis SolverOK); user variable names must not start with robdd_/aux_/-; prioritize/setflipped "
         "(deprecated) excluded; model fidelity sampled, not proved; code repaired first (fix: isclause strict bound 0).",
    technique="Lean 4 invariant proofs over posting histories + clause/store correspondence + exhaustive assignment check with the real solver",
    design="§7 C07")
CHECKS["C08"] = dict(
    text="Machine-checked (Lean 4) for the clause-level model of the repaired definecoords / enforce_bb / solve: on any product grid "
         "of cells (any origin, spacing, size), for every k >= 1, every cost bound and EVERY model of the posted constraints, the search "
         "admits exactly the k-box single-trunk orthogons (full rectangles, pairwise disjoint, each branch abutting the trunk on one side "
         "within its extent: box_exact, attach_exact, shape_exact); solve returns a shape iff one meeting the bound exists and returns "
         "exactly its boxes (solve_found_iff / _sound / insat_iff, solver as hypothesis). Tied to the code on every run: captured "
         "constraint sets compared with the model, ALL models of the real CNF enumerated (pysat blocking clauses) against a brute-force "
         "orthogon enumerator written from the property text, and rect.solve's return value checked.",
    note="Composed in Lean with the C07 SAT-layer model (cnf_models_are_orthogons, solve_found_iff_cnf): the statements are about the "
         "actual generated CNF and the only solver-side hypothesis is SAT-solver correctness; str() injective on coordinates assumed for "
         "variable names; integer areas are inputs; select_box / "
         "get_alloc checked on outputs only; min-error mode with ratio > 1 and non-zero occupied area; two repairs committed first "
         "(grid limits, select_box snapping, guarded quality division).",
    technique="Lean 4 proof over linear orders + exhaustive model enumeration of the real CNF + constraint-set correspondence", design="§7 C08")

CHECKS["C17"] = dict(
    text="Partial with respect to floating point, by nature. Machine-checked (Lean 4, Mathlib real analysis): over the reals the "
         "repaired disc-overlap function never fails, is symmetric, lies in [0, pi*min(r)^2], equals the closed-form lens area between "
         "the tangencies (the factored numerators (a-b)(a+b)+e^2 of the repaired code are the textbook a^2+e^2-b^2: num_factored), 0 when "
         "far apart and the smaller disc when nested; the guard really puts both acos arguments in [-1,1] "
         "(stated explicitly because Mathlib's arccos is total by clamping). For EVERY rounding behaviour (any linearly ordered carrier "
         "with arbitrary arithmetic and an arbitrary total hypot) acos only ever receives a clamped argument, every divisor is positive or "
         "tested against zero, so the function returns a value for all centres and positive radii (total_structural has no hypothesis "
         "on the distance any more) and the result lies in [0, small]; both structural theorems are applied in examples. "
         "Binary64 totality, symmetry, bounds and the 1e-5*r^2 accuracy are decided by directed search "
         "(both tangencies within +-8 ulp, equal / concentric discs, nearly equal radii (relative gap 1e-12..1e-3) next to either "
         "tangency, centres up to 8e307 apart, scales 1e-160..1e150) against 60-digit mpmath; the Float model agrees "
         "with the Python bit for bit (float_drift 0 on 900 000 thorough cases).",
    note="libm (pow, acos, sin) executed, not proved; CPython 3.12's math.hypot (math_hypot + vector_norm) is transcribed by hand into the "
         "model as Disc.pyHypot and is part of the trusted model: its bit-equality with math.hypot is observed on every correspondence "
         "case, not proved. Centre coordinates are unrestricted (any finite doubles); 'never fails' needs the smaller radius <= ~1.34e154 "
         "(min(r1, r2)**2 raises OverflowError beyond; such a disc's area is not a double), generated radii <= 1e150; NaN/inf outside the "
         "property; float accuracy searched (judged for max r >= 1e-150), not proved. Four repairs committed first: 45af9c2 (acos "
         "arguments and result clamped), b024d67 (lengths rescaled by the larger radius against underflow of 2*r*d, found by the "
         "independent audit), 402b6dc (difference of squares factored in the acos arguments: the error was 1e-4*r^2 for nearly equal "
         "radii next to internal tangency, found by audit 3) and eb032db (centre distance by math.hypot: Point.norm raised "
         "OverflowError for centres more than 1.3e154 apart, audit 3).",
    technique="Lean 4 real-analysis proof + structural totality proof for all roundings + bit-exact model correspondence + directed float search",
    design="§7 C17")
CHECKS["C09"] = dict(
    text="Machine-checked (Lean 4, over the reals, slack 0, positive sizes, ratio limit >= 1): each equation group the legaliser "
         "generates is equivalent to its geometric clause (bounds, aspect ratio, attachment within the trunk's extent, original order "
         "along each side, area, hard congruence / fixed position) and the smooth-max no-overlap equation holds iff the rectangles are "
         "separated or overlap by at most the documented smoothing tolerance; assembled: AllEquationsHold -> Legal_tau, "
         "Legal_0 -> AllEquationsHold, and the input configuration of a legal floorplan satisfies the system. Tied to the code on every "
         "run without solving: every Equation of the real Model is compared with the Lean generator node for node (constants bit-equal), "
         "evaluate()/is_equation_met() compared at Float, and an independent exact Legal oracle classifies legal configurations and "
         "configurations violating exactly one clause by a clear margin against is_equation_met of the real Model.",
    note="The characterisation is the sandwich Legal_0 <= Sat <= Legal_tau (both strict) — that is what 'up to the documented smoothing "
         "tolerance' means; GEKKO never runs; variable bounds (lb=0.1) are outside the equations and reported separately; STOG roles taken from the "
         "repository (C06); the 1e-6 comparison tolerance and double evaluation executed, not proved; code repaired first "
         "(fix: branch offsets of hard modules).",
    technique="Lean 4 proof over the reals + node-for-node structural correspondence of the generated constraint system + oracle-classified configurations",
    design="§7 C09")
CHECKS["C15"] = dict(
    text="Machine-checked (Lean 4) for ALL well-formed 0/1 grids, soundness AND completeness: the is_strop verdict of the model is "
         "exactly 'a single-trunk decomposition exists'; every offered instance has an all-ones trunk rectangle, branches abutting it "
         "on their filed side within its extent, and trunk + branches cover each 1-cell exactly once and no 0-cell; the in-place pruning "
         "passes are characterised exactly; rectangles mapped through coordinate lists have the cells' total area. Tied to the code: "
         "quick tier all grids up to 4x4 + random grids up to 8x8 + vertex lists; thorough tier all 2.24M grids up to 4x5 and 5x4 "
         "through implementation, model and a brute-force oracle; vertex-list decompositions checked against the shoelace area and "
         "create_stog recognition with the trunk first.",
    note="Even-odd point-in-polygon correctness for arbitrary vertex lists is NOT proved (correspondence + shoelace only); create_stog "
         "exercised on the implementation (its model is C06); instance order / the instance picked by strop_decomposition come from a set "
         "iteration, the model is relational there.",
    technique="Lean 4 soundness and completeness proof + exhaustive small-grid differential run + brute-force oracle", design="§7 C15")

CHECKS["C01"] = dict(
    text="Machine-checked (Lean 4, any linearly ordered field): (die_sound) every die the constructor accepts is a tiling within the "
         "code's own tolerances — all reported regions inside the die, pairwise overlap <= eps_A, |sum of areas - W*H| below the area "
         "tolerance, input regions reported unchanged with their tags; (cands_complete) the candidate set is exactly the all-free index "
         "rectangles; (cover_*) for EVERY admissible pick order of the greedy cover (relational model: independent of set-iteration "
         "tie-breaks) picks are cell-disjoint, made of free cells, the loop terminates and no free cell is left; (die_complete) for a "
         "valid description (regions inside, interior-disjoint, positive, boundary coordinates separated by more than the tolerance) "
         "every accepted pick sequence makes the constructor return with an EXACT tiling — the full Hanan-grid argument; "
         "(die_rejects_*) regions leaving the die, overlapping by more than eps_A, or overlapping by at least the area-sum threshold "
         "(die_rejects_small_overlap) are rejected. Tied to Die(text, netlist) on every run: "
         "exact (dyadic) and float (decimal) streams, the implementation's ground-region order fed to the model as the pick trace, and "
         "an exact-decimal validity oracle on the DOCUMENT (valid but rejected / invalid but accepted = violation).",
    note="Exact-arithmetic theorems; IEEE rounding executed and searched, not proved ('whatever its coordinates' is decided by search on "
         "decimal documents); sqrt a parameter; YAML text->tree and netlist->fixed rectangles taken from the implementation; two repairs committed first (inside tolerance, area tolerance).",
    technique="Lean 4 proof (relational greedy cover, Finset telescoping on the Hanan grid) + Rat/Float model correspondence + exact-decimal document oracle",
    design="§7 C01")

CHECKS["C13"] = dict(
    text="Partial with respect to floating point, by nature. Machine-checked (Lean 4) over any ordered field, for every numeric "
         "library (sqrt/pow uninterpreted), every disc-overlap function, every spring constant kappa > 0, iteration count and netlist: "
         "fixed modules come back identical ((c-s)+s = c); after EVERY step each movable position is clamped into the die whatever the "
         "forces are (the clamp lemma is proved for any type with a decidable order, so it also covers IEEE doubles incl. NaN/inf), "
         "hence all centres end inside the die; only centres change (die, nets, areas, rectangles, flags untouched); the layout returned "
         "by force_algorithm is the first strict minimum of cost over the 12 kappa tried and is the layout that was scored. The Float "
         "model is bit-exact with the Python on single steps at arbitrary states, runs of <= 5 iterations, wire length, overlap, cost and "
         "argmin; long runs are checked clause by clause (finite, inside, fixed unmoved within 4 ulp, determinism, minimal recomputed cost).",
    note="Finiteness and the <= 1 ulp drift of c-s+s are float facts: searched, not proved; kappa > 0 (kappa = 0 divides by zero); "
         "circle_circle_intersection_area is an opaque parameter here (C17); deepcopy assumed faithful; model fidelity sampled.",
    technique="Lean 4 invariant proofs over ordered fields with uninterpreted libm + bit-level Float model correspondence + clause evaluation on long runs",
    design="§7 C13")
CHECKS["C14"] = dict(
    text="Partial with respect to floating point, by nature. Machine-checked (Lean 4) for EVERY list of random.uniform results, every "
         "trial count and iteration bound (this discharges the 'all seeds' quantifier): every row returned by spectral_layout_die is an "
         "output of normalize, so every movable module outside the documented |x| <= 1e-9 escape (explicit hypothesis, witnessed real by "
         "a kernel-checked example, watched at run time: 0 hits; headline theorems therefore named …_partial) has |c| <= size/2 - r and the disc "
         "at its OUTPUT position (ghost trace fields tie the witness to the actual output) lies in the die; fixed nodes return "
         "where they were; hard modules are translated rigidly with centroid = assigned centre; masses, flags, shapes, nets unchanged; the "
         "result is exactly one trial's output (best-of-n). The model (with CPython's Neumaier sum()) is bit-exact with the Python on unit "
         "operations, whole spectral_layout_die runs with captured draws (iteration counts equal) and whole spectral_layout runs.",
    note="Theorems are conditional on the run returning; the search found one admissible family on which it does NOT return (all "
         "movable modules hanging on one fixed node: AssertionError in orthogonalize) — open finding C14-orthogonality-assert, announced "
         "by the check and attributed only inside that region; "
         "float margin 1e-9*size; radius = sqrt(area/pi) with sqrt uninterpreted >= 0; movable terminals outside the quantifier; "
         "convergence not needed and not claimed.",
    technique="Lean 4 post-condition chain for all draw lists + bit-level Float model correspondence with captured RNG draws + clause evaluation over seeds x trials",
    design="§7 C14")

CHECKS["C03"] = dict(
    text="Machine-checked (Lean 4, any ordered field): in every non-fixed cell the listed ratio of a module equals the sum over its "
         "rectangles of areaOverlap / cell area (the clamp added by the repair never fires in exact arithmetic: a module's pairwise "
         "disjoint rectangles cover no cell more than once); a module is listed iff its overlap is positive (all modules with "
         "include-zero); ratios lie in [0,1]; a fixed module owns exactly its own cells as {m:1}, flagged, depth 0, and no other cell "
         "lists it; rectangle-less modules become a square of their area around their centre; the allocated area of a module equals the "
         "area of its shape on the non-fixed cells, is invariant under every C18 cut of the regions, and for ANY exact tiling of the die "
         "equals shape-intersect-die minus blockages and fixed cells. Tied to create_initial_allocation(Die(text, Netlist(text))) and to "
         "Allocation(...).initial_allocation(...) on generated die+netlist pairs (exact and float streams), with the exact overlap "
         "fractions recomputed from the DOCUMENT as the oracle.",
    note="The die decomposition and the readers are inputs here (C01/C04); FixedOK / tiling hypotheses are C01/C02's conclusions and are "
         "re-checked on every generated document; sqrt a parameter; CPython's Neumaier sum() modelled (pySum) and bit-checked; rounding "
         "executed, not proved; at least one refinable region; code repaired first (fix: ratio above 1 by rounding).",
    technique="Lean 4 proof over ordered fields (induction on cuts and tilings) + Rat/Float model correspondence on two entry points + exact-Fraction document oracle",
    design="§7 C03")

CHECKS["C19"] = dict(
    text="Machine-checked (Lean 4) on tree-level models of every producer and of the readers: die and allocation writers round-trip "
         "exactly (width, height, blockages, tagged regions; cells, ratio maps, depths with depth 0 written by omission); every netgen "
         "topology (chain, ring, star, ring-star, one-net, grid, h-tree) at every size at which it is defined is accepted by the netlist "
         "reader model and IS the intended graph (valid pairwise-distinct names, >= 2 distinct declared pins per net, positive weights; "
         "h-tree index bookkeeping by induction on levels); the FloorSet converter's FPEF/DIEF documents and the three string-built "
         "netlists (rect_io.get_netlist, solution_to_netlist, legalfloor get_netlist) are accepted and denote the source design; every "
         "writer leaves its object unchanged, so two writes are identical (the original aliasing defect of dump_yaml_namededges is kept as "
         "a theorem about the code as found). On every run the real producers and readers are executed on generated objects (before and "
         "after refinement; every netgen size up to 12, thorough 40; synthetic FloorSet instances with polygons and pins on all borders), "
         "each written twice with deep before/after snapshots, re-read, field-compared and compared with the Lean models.",
    note="Text layer (ruamel dump/load, str(float)) and the readers' geometric self-checks are tested, not proved; FloorSet polygon "
         "decomposition (C15) and the density factor are model inputs; the netlist reader model is C04/C05's; FloorSet-Lite inputs and "
         "legalfloor on rectangle-less modules are outside the property's quantifier; five repairs committed first (C19_*).",
    technique="Lean 4 round-trip / purity / topology proofs on tree-level models + execution of the real producers and readers with field-wise comparison",
    design="§7 C19")

CHECKS["C02"] = dict(
    text="Machine-checked (Lean 4, any ordered field) about the model of allocation.py (constructor checks, refine, "
         "uniform_refinement_depth, griddify, area/center caches) with the three repairs: for every allocation the constructor accepts "
         "and EVERY composition of the three refinement operations (induction over the operation list with a transitive Refines "
         "relation) the operation succeeds, the result is a valid allocation, every new cell lies inside exactly one old cell whose "
         "children are pairwise disjoint, cover it and sum to its area, per-module allocated area and first moment (hence centre of mass) "
         "are conserved and the cached area(m)/center(m) are literally unchanged, children inherit the parent's ratios, and cells of "
         "fixed modules are never cut. Tied to the code on every run by operation histories of 1-6 ops from Allocation(text): exact "
         "dyadic stream, bit-identical float stream (CPython's Neumaier sum() modelled), and every clause re-evaluated in exact "
         "arithmetic on what the implementation returned.",
    note="Exact-arithmetic theorems; IEEE rounding executed, not proved; model fidelity sampled; YAML parsing outside the model; the "
         "class-wide tolerance state is threaded explicitly; three repairs committed first (fixed cells, griddify y-loop, must_be_refined guard).",
    technique="Lean 4 conservation proofs by induction over operation histories + Rat/Float model correspondence + exact clause re-evaluation",
    design="§7 C02")
CHECKS["C12"] = dict(
    text="Machine-checked (Lean 4): must_be_refined(t) is true exactly when refine(t, 1) changes the allocation, and then the cell count "
         "strictly grows (so a loop guarded by the predicate never spins on a fixpoint); refine splits precisely the non-fixed, non-empty "
         "cells in which no module exceeds t, each into 2^levels congruent cells obtained by repeatedly halving the longer side, depth "
         "raised by levels, all other cells untouched; uniform refinement ends with every non-fixed cell at the former maximum depth; "
         "after griddify no refinable cell is y-cuttable at any side line of any result cell (full), and none is x-cuttable relative to "
         "the height its parent had when the x cuts were decided. The full x statement is FALSE on the code (open finding "
         "C12-griddify-x-before-y, reproduced by a witness): it is proved as griddify_aligned_x_partial under the hypothesis that the "
         "cell was not shortened by y cuts, and the harness attributes a failing input to the finding only inside exactly that region.",
    note="No-crossing theorems assume tolerance-separated side coordinates (gather_boundaries merges within the tolerance); termination "
         "is formalised as iff + progress (children inherit ratios, so the loop terminates only because the optimiser rewrites ratios "
         "between refinements); shares model and correspondence with C02.",
    technique="Lean 4 exactness / iff proofs + _partial theorem delimiting an open finding + Rat/Float model correspondence",
    design="§7 C12")

CHECKS["C04"] = dict(
    text="Machine-checked (Lean 4, any ordered field) on the tree-level model of the netlist reader (parse_yaml_netlist -> Module kwargs in "
         "document order -> setup -> Netlist.__init__) and writer (dump_yaml_module / rectangles / edges): for EVERY document the reader "
         "accepts, the tree the writer produces is accepted again and yields the same netlist — same modules in order with the same kind "
         "(soft, hard, fixed, terminal, flip), per-region areas, centre, aspect bounds, rectangles with regions and roles, nets with "
         "members and weights (roundtrip, roundtrip_eq; same_iff_eq shows the comparison leaves no field out) — and writing the reloaded "
         "netlist gives the identical tree (dump_stable). Numbers keep their Python type tag so 'identical document' is meaningful. Tied "
         "to the code on every run: loaded object, writer's tree and re-read object compared with the model on generated documents "
         "covering every attribute combination (thorough: all 8732 one-module attribute subsets); Netlist(n.write_yaml()) compared "
         "field-wise with n and a second write compared with the first on the implementation itself.",
    note="create_stog is the C06 model (stogC06): StogPerm and StogStable (idempotence on its own output) are PROVED, the headline "
         "corollaries roundtrip_createStog / dump_stable_createStog carry no assumption about it and the driver executes the same function; ruamel text layer pinned by load(dump(tree)) == tree on every sample, "
         "not proved; rounding tolerance 1e-9; two repairs committed first (per-region areas + flip; order-independent centroid via math.fsum so that the second document is "
         "bit-identical — compared as strings by the harness).",
    technique="Lean 4 round-trip proof on the parsed-tree model + differential execution + field-wise re-read on the implementation",
    design="§7 C04")
CHECKS["C05"] = dict(
    text="Machine-checked (Lean 4): every derived quantity of a loaded netlist equals its definition on the source document — module "
         "areas (sum of region areas; of rectangle areas for hard modules; 0 for rectangle-less terminals), centres (the running-sum code "
         "= the area-weighted centroid), the flat and the fixed rectangle lists, the wire length (weight x sum of distances to the mean, "
         "sqrt a parameter); and one rejection theorem per listed defect class, each of the form 'a document with this defect, defined on "
         "the document alone, fails to load': unknown module in a net, non-positive weight, non-positive area, soft without area, hard with "
         "area, hard without rectangles, hard with overlapping rectangles, unknown attribute, invalid name, one-pin net, non-positive "
         "rectangle size (+ unknown root key, invalid region name). Tied to the code on every run: valid stream (derived quantities vs an "
         "independent Fraction/mpmath oracle and vs the model) and a malformed stream with ONE defect injected anywhere (verdict and "
         "exception class vs the model).",
    note="sqrt, create_stog and the area tolerance are parameters of the model; duplicate YAML keys excluded (a dict cannot hold them); "
         "'area: {}' counts as no area; the zero-area statement holds for terminals without rectangles (the code sums rectangles "
         "otherwise); repair committed first (one-pin nets).",
    technique="Lean 4 definitional-equality and rejection proofs on the parsed-tree model + valid/malformed differential streams + exact oracle",
    design="§7 C05")

CHECKS["C06"] = dict(
    text="Machine-checked (Lean 4, any ordered field) about the model of find_location / create_stog (repaired): find_location answers "
         "side s exactly when the rectangle abuts side s of the trunk within that side's extent (tolerance eps) and does not overlap it "
         "by more than eps_A — an earlier elif never pre-empts a valid later side, at most one side qualifies, TRUNK is never answered; "
         "create_stog returns True exactly when SOME rectangle can serve as trunk with every other rectangle located with respect to it "
         "(sound and complete); on True the trunk is first with role TRUNK and every other rectangle carries exactly its side, on False "
         "no rectangle carries a role; the output list is a permutation of the input up to roles (nothing altered, dropped, duplicated). "
         "Tied to create_stog, Module.create_stog and Netlist loading on every run: verdict, order and roles for lists built by "
         "construction and by destruction (gap / overhang / overlap near misses, equal-area twin trunks, stale roles, repeated "
         "rectangles), every permutation for length <= 4 (thorough 5), and the geometric clauses evaluated exactly on the outputs.",
    note="Hypotheses: trunk sides > 0, other sides > 2*eps; list elements are distinct objects (aliased lists outside the model); exact "
         "arithmetic, rounding executed only (near-ties on the float stream excluded by an exact-margin test); repair committed first "
         "(trunk skipped by identity).",
    technique="Lean 4 soundness/completeness/permutation proofs + differential run over permutations + exact geometric oracle", design="§7 C06")
CHECKS["C11"] = dict(
    text="Machine-checked (Lean 4) about the model of split_rectangles (phase 1 worklist = deque, phase 2 = heapq mirrored statement by "
         "statement, repaired), Die.split_refinable_regions and Die.initial_grid: the result has at least n (rows x columns) regions "
         "forming one exact tiling per former refinable region — every piece inside its region with the same tag and flags, total area "
         "and covered point set unchanged, disjointness preserved — and every region has aspect ratio <= r; the tiling invariant is "
         "preserved by ANY split, hence independent of heap order and tie-breaks; blockages, fixed regions and the outline are untouched; "
         "termination with an explicit fuel bound (automatic in Archimedean fields) and the result does not depend on the fuel; n = 0 or "
         "r <= 1.415 is rejected. Tied to the code on every run incl. exact output ORDER on dyadic dies and heapq push/pop scripts with "
         "equal keys; clauses evaluated exactly on the implementation's outputs (r in [1.42, 3], n up to 64).",
    note="Loops modelled with fuel; at least one refinable region required (empty heap otherwise); die construction not modelled here "
         "(state read from the implementation before the call; C01); exact arithmetic; repair committed first (phase 2 re-split for r < 2).",
    technique="Lean 4 tiling-invariant / count / aspect / termination proofs + statement-level deque/heapq correspondence + exact clause evaluation",
    design="§7 C11")


# ---------------------------------------------------------------------------------------------------------------------
# Session 3 addenda (appended to the texts above; DESIGN.md §11.10).  TEXT_ADD extends level_claimed.text, NOTE_ADD the
# level_note, TECH_ADD the technique.
TIE_TECH = " + translator tie (Lean definitions regenerated from the current Python source text and proved equal to the model)"
TIE_TEXT = (" Translator tie (every run): the straight-line kernels this property rests on ({fns}) are re-translated from the CURRENT "
            "source text of frame/geometry/geometry.py{extra} into Lean and kernel-checked equal to the hand-written model functions for all "
            "inputs over every linearly ordered field, so for these functions the theorems are about what the source says now, not about "
            "a sampled model; the translator itself is checked by executing the generated definitions at Float against the real Python.")
TEXT_ADD = {
    "C18": TIE_TEXT.format(fns="all 18: bounding_box, area, duplicate, point_inside, is_inside, touches, area_overlap, overlap, almost_eq, "
                               "find_location, split_horizontal, split_vertical, split, x_cuttable, y_cuttable, aspect_ratio, __mul__, __eq__", extra=""),
    "C17": TIE_TEXT.format(fns="circle_circle_intersection_area", extra=" / tools/force/fruchterman_reingold.py")
           + " The caller total_intersection_area is proved non-negative and equal to twice the sum over unordered pairs of the real lens "
             "area; the search covers the whole double range with two independent 60-digit oracles (acos and atan2 forms).",
    "C06": TIE_TEXT.format(fns="bounding_box, area, area_overlap, almost_eq, find_location", extra="")
           + " Module.create_stog, has_stog and the netlist-load call site are in the model: loading only reorders the rectangles of each "
             "module (netlist_load_only_reorders) and has_stog holds exactly when some rectangle can serve as trunk (netlist_hasStog_iff).",
    "C02": TIE_TEXT.format(fns="bounding_box, x_cuttable, y_cuttable, split_horizontal, split_vertical, duplicate", extra="")
           + " Also proved for histories that flag cells fixed in place on the same object (history_conserve, flagged_then_uncut); the read "
             "accessors (num_rectangles, num_modules, allocation_rectangle, allocation_module, check_compatible, max_refinement_depth) are "
             "modelled, compared on every run and proved consistent with the cell list.",
    "C12": TIE_TEXT.format(fns="bounding_box, x_cuttable, y_cuttable", extra="")
           + " griddify (repaired in /repo 42542ef: the x and y sweeps are repeated until a round cuts nothing; termination and fuel-irrelevance "
             "proved, griddify_loop_terminates) leaves no refinable cell x- or y-cuttable at any side line of any result cell "
             "(griddify_no_crossing, no side hypothesis any more), a second griddify is the identity (griddify_idempotent), and one round of "
             "the old code is proved to fail exactly in the region griddifyOnce_failure_region; the former open finding "
             "C12-griddify-x-before-y is closed.",
    "C11": TIE_TEXT.format(fns="bounding_box, area, aspect_ratio, split_horizontal, split_vertical, split, duplicate", extra=""),
    "C03": TIE_TEXT.format(fns="bounding_box, area, area_overlap, __mul__", extra="")
           + " Object histories (modules moved in place / via recenter_rectangles between two allocations) are part of the correspondence run.",
    "C01": TIE_TEXT.format(fns="bounding_box, area, area_overlap, is_inside, overlap", extra=""),
    "C04": " The emitted YAML TEXT itself is modelled for the writer's subset (emitText compared byte for byte with ruamel's output of "
           "Netlist.write_yaml, parseText with read_yaml, on every run) and Netlist(n.write_yaml()) = n is proved down to the characters "
           "(text_parse_emit, text_roundtrip_createStog, text_dump_stable_createStog, text_emit_injective): the ruamel text layer is no longer "
           "in the trusted base for the writer's subset; what remains trusted there is float<->decimal conversion (float(repr(x)) = x) and "
           "the sampled fidelity of the text model.",
    "C05": " Wire length, fixed rectangles and centres are also stated on the source DOCUMENT (wireLength_of_document, "
           "fixedRectangles_of_document, center_of_document) and applied to a concrete document; invalid rectangle region names and regions on "
           "hard rectangles are proved rejected; duplicate keys are covered at the text level (malformed-text stream).",
    "C07": " The property's last sentence is stated on the values value()/evalexpr() return (solve_exposed_model_satisfies, "
           "exposed_reading_exact); managers created one after another on a store that is NEVER reset each encode exactly their own constraints "
           "(session_exact; stream with stores of thousands of nodes and rect-like weights up to 1e3); variable names and model variables "
           "correspond one to one (names_faithful).",
    "C08": " The statement is also made on the VALUE rect.solve returns (solve_return_sound: unsat answer = no orthogon meets the bound, sat "
           "answer = the returned rectangles are the boxes of an orthogon meeting the bound, trunk first); get_alloc / select_box / area are "
           "modelled, compared bit for bit and composed (pipeline_found_iff: allocation -> select_box -> definecoords -> area -> solve returns "
           "a shape iff an orthogon meets the bound); snapped grids have no sliver below the tolerance (snap_no_sliver).",
    "C10": " The COMPLETE system optimize_allocation posts to GEKKO — declarations, constants, capacity / area / centroid / rigid-offset / "
           "dispersion / net-centre equations and every objective term with its alpha weighting — is generated by the Lean model and compared "
           "node-for-node with the captured GEKKO model on every run; machine-checked: the posted system puts every centre in the die "
           "(posted_centres_in_die), centroid rows are area-weighted means (posted_area_centroid, posted_centroid_in_cell_hull), the objective "
           "equals alpha*wire-length + (1-alpha)*dispersion; the solver hypothesis is reduced to 'variable bounds and posted rows hold at the "
           "returned point' (constants discharged) and under it extract_solution cannot raise; glbfloor_correct_posted_from_die composes "
           "C01 -> C03 -> C10 with no start-state hypothesis. Live runs now include mirrored flippable hard modules, multi-rectangle fixed "
           "modules, specialised regions and max_iter=None at the quick tier.",
    "C13": " force_algorithm is proved to return for every well-formed input (force_returns); visualize and the payload the algorithm never "
           "reads (names, rectangles) cannot change the centres (visualize_same_layout, force_payload_irrelevant, deterministic); "
           "total_intersection_area counts every unordered pair once per order (composed with the real lens area in C17); zero-iteration "
           "and fixed out-of-die modules are left where they are, as the code does. The visualize write-back defect of the unchanged code "
           "was repaired (/repo 9b1b061).",
    "C14": " Best-of-n keeps the first strictly smallest finite wirelength (best_of_n; non-finite wirelengths => AssertionError, modelled); "
           "hard non-terminal centres are dropped after the layout (centres_after_layout); several layouts per process on different dies are judged.",
    "C15": " For polygons given by vertices: is_point_inside_polygon is proved to be the parity of the vertical edges strictly to the right "
           "(pip_closed_form), independent of start vertex and orientation; for every vertex list satisfying the executable boundary condition "
           "tracesGrid (evaluated by the driver on every generated polygon; proved for all rectangles and all histogram/staircase polygons) the "
           "matrix handed to Strop is exactly the cell set (matrix_of_traced_polygon), a decomposition is returned iff a single-trunk "
           "decomposition exists (traced_polygon_decomposes_iff), and the rectangles' total area equals the shoelace area (traced_polygon_area).",
    "C16": " Including ~x, +x, builtin sum(), Ineq(expr, any operand, op) for all five operators and both operand orders "
           "(ineq_normalisation, cmp_dispatch), and the exception class of every operator the classes do not define (unsupported_operators).",
}
TEXT_ADD["C01"] += (" The constructor is verified FROM ITS DOCUMENTS (FV/Model/DieNet.lean): source kinds (text, tree, open stream), the <w>x<h> "
                   "shorthand and parse_yaml_die are modelled, the attached netlist is read by the C05 reader model, and the reported fixed regions "
                   "are proved to be exactly the rectangles of its fixed modules in document order (construct_fixed_of_netlist); construct_sound / "
                   "construct_complete / construct_rejects_* restate the headline theorems on documents; object histories (netlist objects modified "
                   "in place or via assign_rectangles before the die is built) are part of the correspondence run.")
TEXT_ADD["C11"] += (" Die refinement is proved for whole SESSIONS of method calls on the constructed object (FV/Model/DieObj.lean: session_invariant — "
                   "exact tiling kept, blockages / fixed regions / outline untouched, pieces inside their former region with its tag; IndexError exactly on "
                   "dies without refinable region), with no fuel hypothesis at Q (splitQ_never_out_of_fuel), composed with C01 (constructed_session).")
TEXT_ADD["C09"] = (" The system judged is now equations AND the declared variable bounds (FV/Model/LegalDecl.lean, compared with the real GKVariables — "
                   "LOWER / UPPER / VALUE — on every run): sound with no positivity hypothesis (system_sound_declared), complete for floorplans with sides "
                   ">= 0.1 (GEKKO's lb; declared_excludes_small_legal shows the restriction is needed); netlist_to_utils is proved a faithful re-encoding "
                   "(utils_rects_exactly_once, utils_tables_original); step caps, enforce flags and disabled-rectangle equations are modelled and tied; a few "
                   "REAL solver runs per check (offline APOPT, forked children) are judged by the exact Legal oracle.")
TEXT_ADD["C19"] = (" Including the `fixed` mark of allocation cells (format repaired, /repo df9eb88); documents are accepted back in ANY tolerance state "
                   "(alloc_roundtrip_any_state, die_roundtrip_any_state) and in a fresh forked interpreter on every run; the re-read object answers refine / "
                   "must_be_refined like the written one (reread_answers_alike); netgen's command line and below-guard sizes (netgen_main_*), and the FloorSet "
                   "converter from the raw arrays (asserts, block kinds, alpha: floorset_raw_accepted, floorset_terminals_in_die) are modelled and tied.")
TEXT_ADD["C20"] = (" Every interleaved history of ANY NUMBER of SAT managers on the one shared store leaves each manager's encoding equal to that of its own "
                   "constraints alone (FV/Model/SatProc.lean: sat_process_exact, encoding_multi_manager_history_indep) with the accept/refuse verdict a function "
                   "of the constraint (sat_verdict_history_indep); the die verdict and decomposition are proved for every state a history of designs can leave "
                   "(die_verdict_after_history, die_decomposition_after_histories). 16 operation kinds run fresh vs after-history (netgen, spectral, force, "
                   "one-pass glbfloor, FloorSet manager, rect.solve, legaliser rebuild, interleaved SAT managers added), and a STATIC INVENTORY of process-wide "
                   "state in the source (ast scan of 36 files: module-level mutables, global rebinding, class-level mutables, mutable defaults, caches, writes "
                   "into inventoried containers) is compared with a committed list on every run — a new entry is a broken correspondence with file:line as replay.")
NOTE_ADD = {
    "C09": " Observed and modelled but outside the property's named equation groups (never an alarm; counted in evidence): lb = 0.1 excludes legal "
           "floorplans with a side < 0.1, the `radius` step caps exclude floorplans far from the input, disabled rectangles contradict the lower bound. "
           "One end-to-end defect repaired first (/repo 195a540: branches of movable hard modules reset after each solve).",
    "C19": " C15 decomposition, sqrt and numpy summation are inputs; text layer tested (proved for the netlist writer's subset in C04).",
    "C20": " The inventory is syntactic (no aliases, no third-party internals).",
    "C01": " Two more repairs committed first (ground-region ratio underflow 400bc92, netlist installs only a finite tolerance 750ac5a).",
    "C02": " Open finding C02-huge-die-rounding-overlap (dies >= ~5e6 units with non-dyadic coordinates: refinement raises on valid allocations; "
           "same root as the C20 sqrt area tolerance).",
    "C10": " Solver hypothesis now SolverMeetsPostedVars (+ KeysDistinct). A module entirely on blockages makes glbfloor raise KeyError before "
           "optimising: not a return, outside the quantifier.",
    "C08": " The cost bound comes from the greedy helper (Windows DLL), which is not modelled.",
    "C15": " tracer -> tracesGrid is not proved (run-time monitor); the open finding C15-decimal-decomposition has a second mechanism (epsilon "
           "absorbed in `x - eps` once eps < ulp(x)/2).",
    "C04": " read_yaml's file-handle route repaired first (/repo 7eb1f6f).",
}
TECH_ADD = {p: TIE_TECH for p in ("C18", "C17", "C06", "C02", "C12", "C11", "C03", "C01")}
TECH_ADD["C04"] = " + byte-level model of the emitted YAML text (emit/parse round trip proved)"
TECH_ADD["C10"] = " + node-for-node correspondence of the complete posted GEKKO system"
TECH_ADD["C20"] = " + static inventory of process-wide state in the source"
TECH_ADD["C09"] = " + declared-variable correspondence + live solver runs judged by an exact oracle"
for _p, _t in TEXT_ADD.items():
    CHECKS[_p]["text"] += _t
for _p, _t in NOTE_ADD.items():
    CHECKS[_p]["note"] += _t
for _p, _t in TECH_ADD.items():
    CHECKS[_p]["technique"] += _t
for _p in CHECKS:
    CHECKS[_p]["note"] += (" Every run also reports which anchored statement lines the harness executed (coverage.anchored_line_coverage) and "
                           "multiplies its case budget when an anchored function differs from the committed AST fingerprint baseline.")

NOT_APPLICABLE = {}

def main():
    props = [json.loads(l)["id"] for l in open(os.path.join(HERE, "properties.jsonl"))]
    checks = []
    for pid in props:
        if pid not in CHECKS:
            continue
        c = CHECKS[pid]
        checks.append({
            "property_id": pid,
            "quick_cmd": f"./check {pid} --tier quick",
            "thorough_cmd": f"./check {pid} --tier thorough",
            "evidence_file": f"evidence/{pid}.json",
            "replay_cmd_template": f"./check {pid} --replay {{path}}",
            "engine": "lean4-proof+correspondence",
            "level_claimed": {"category": c.get("category", "proof"), "text": c["text"], "design_ref": c["design"]},
            "level_note": c["note"],
            "technique": c["technique"],
        })
    na = [{"property_id": p, "reason": NOT_APPLICABLE.get(p, "check not built yet in this round (planned: DESIGN.md §7); nothing is claimed for it")}
          for p in props if p not in CHECKS]
    man = {
        "version": 1,
        "setup_cmd": "./setup.sh",
        "hooks": {
            "guard": "FRAME_VERIF",
            "enable": "no source hooks are needed: the harness imports /repo's working tree in-process and observes through public attributes",
            "baseline_off_cmd": "cd /repo && /venv/bin/python -m pytest -ra -q -p no:cacheprovider --timeout=900 --continue-on-collection-errors",
            "source_commits": [],
            "add_only": True,
        },
        "engines": [{"name": "lean4-proof+correspondence", "path": "lean/ + harness/",
                     "serves_properties": [c["property_id"] for c in checks],
                     "kind_free_text": "Lean 4 models + theorems (lake project lean/), compiled model driver, Python differential harness"}],
        "checks": checks,
        "not_applicable": na,
        "notes": "All checks: ./check <id> [--tier quick|thorough] [--replay file]; see DESIGN.md.",
    }
    json.dump(man, open(os.path.join(HERE, "MANIFEST.json"), "w"), indent=1)

if __name__ == "__main__":
    main()

#!/usr/bin/env python3
"""Regenerates MANIFEST.json from the table below (single source of truth for the registered checks)."""
import json, os
HERE = os.path.dirname(os.path.abspath(__file__))

CHECKS = {
    "C18": dict(
        text="Machine-checked proof (Lean 4 kernel) of every rectangle law of the property — overlap area = area of the common "
             "region, symmetry, intersection existence/containment/area, containment = set inclusion, touching = L∞ gap ≤ ε, "
             "cut / halve / grid tile exactly and inherit attributes, cuttability — for all rectangles over any linearly ordered "
             "field, about an executable model that is run against frame/geometry/geometry.py on every check (exact dyadic "
             "stream at Rat, float stream at IEEE doubles) together with the theorems' right-hand sides evaluated on the "
             "implementation's outputs.",
        note="Trusted: Lean kernel + Mathlib, axioms propext/Classical.choice/Quot.sound; the hand-written model's fidelity is "
             "sampled (correspondence), not proved; theorems are about exact arithmetic, rounding is only executed.",
        technique="Lean 4 theorems over ordered fields + model/implementation correspondence (differential) run",
        design="§7 C18"),
}

CHECKS["C20"] = dict(
    text="Two layers. (1) Machine-checked proof (Lean 4) about the explicit model of the library's process-wide tolerance state: "
         "the tolerances are fixed by the first design and never change afterwards, the tolerance any later operation sees is one "
         "proposed by the history or by itself, and a tolerance-reading operation (touch / overlap tests, abstract form for any body) "
         "on an input that is Robust for the interval of proposed tolerances answers exactly as in a fresh process, for every history "
         "(induction over the operation list). The ROBDD-store half is C07's store theorems. (2) The observation the property names, "
         "run on every check: digest of a probed operation in a fresh forked interpreter vs after a random history on unrelated "
         "designs within x1000 in scale (6 operation kinds), plus bit-exact correspondence of the observed tolerance state with the "
         "model. The unchanged code violates the property for non-Robust designs (known finding C20-sticky-tolerance-...); the "
         "theorems carry exactly that hypothesis, so the claim is partial.",
    note="Trusted: Lean kernel + Mathlib (standard axioms); the model covers only the Rectangle tolerance state — absence of any other "
         "leaking state is established by the differential runs, not proved; sqrt enters as a monotone parameter; exact arithmetic.",
    technique="Lean 4 invariant over operation histories (sticky tolerance state) + fresh-fork vs after-history differential runs",
    design="§7 C20")

CHECKS["C10"] = dict(
    text="Partial by nature (the numbers come from a non-linear solver). Machine-checked (Lean 4) for EVERY solver answer: the "
         "extraction step returns a sub-list of the offered cells, so non-overlap and inside-the-die are inherited through the whole "
         "refine/optimise loop (loop invariant by induction); every listed ratio is in [0,1]; a movable hard module is exactly "
         "translated and/or mirrored (mirrored only if flippable) with the reported centre as its area-weighted centroid. Under the "
         "named, run-time-monitored solver post-condition SolverPost (ratios >= 0, cell rows <= 1+tol, centres in the die): cell "
         "totals <= 1+tol, centres in the die, fixed modules keep rectangles and own their cells exactly {m:1}. The model is tied to "
         "tools/glbfloor/optimization.py by replaying every captured extract_solution call through the Lean model (Float and Rat), and "
         "all clauses are evaluated with exact arithmetic on real multiprocess glbfloor runs.",
    note="GEKKO/IPOPT answer is an input (hypothesis SolverPost, monitored on every instance); refine / must_be_refined / "
         "create_initial_allocation are parameters (C02/C12/C03); model fidelity sampled, not proved; IEEE rounding executed, not proved; "
         "runs where GEKKO raises are outside the property.",
    technique="Lean 4 proofs with the solver answer as a parameter + replay of captured solver answers through the model + clause evaluation on real runs",
    design="§7 C10, §11")

NOT_APPLICABLE = {}

def main():
    props = [json.loads(l)["id"] for l in open(os.path.join(HERE, "properties.jsonl"))]
    checks = []
    for pid in props:
        if pid not in CHECKS:
            continue
        c = CHECKS[pid]
        checks.append({
            "property_id": pid,
            "quick_cmd": f"./check {pid} --tier quick",
            "thorough_cmd": f"./check {pid} --tier thorough",
            "evidence_file": f"evidence/{pid}.json",
            "replay_cmd_template": f"./check {pid} --replay {{path}}",
            "engine": "lean4-proof+correspondence",
            "level_claimed": {"category": c.get("category", "proof"), "text": c["text"], "design_ref": c["design"]},
            "level_note": c["note"],
            "technique": c["technique"],
        })
    na = [{"property_id": p, "reason": NOT_APPLICABLE.get(p, "check not built yet in this round (planned: DESIGN.md §7); nothing is claimed for it")}
          for p in props if p not in CHECKS]
    man = {
        "version": 1,
        "setup_cmd": "./setup.sh",
        "hooks": {
            "guard": "FRAME_VERIF",
            "enable": "no source hooks are needed: the harness imports /repo's working tree in-process and observes through public attributes",
            "baseline_off_cmd": "cd /repo && /venv/bin/python -m pytest -ra -q -p no:cacheprovider --timeout=900 --continue-on-collection-errors",
            "source_commits": [],
            "add_only": True,
        },
        "engines": [{"name": "lean4-proof+correspondence", "path": "lean/ + harness/",
                     "serves_properties": [c["property_id"] for c in checks],
                     "kind_free_text": "Lean 4 models + theorems (lake project lean/), compiled model driver, Python differential harness"}],
        "checks": checks,
        "not_applicable": na,
        "notes": "All checks: ./check <id> [--tier quick|thorough] [--replay file]; see DESIGN.md.",
    }
    json.dump(man, open(os.path.join(HERE, "MANIFEST.json"), "w"), indent=1)

if __name__ == "__main__":
    main()

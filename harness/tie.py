#!/venv/bin/python
"""
tie.py — the source-text tie: regenerate Lean definitions from the CURRENT Python text (harness/pytrans.py) and have
the Lean kernel check that each of them equals the hand-written model function over every linearly ordered field.

    run(pid, repo, seed) -> {"functions": {name: {...}}, "wall_s": …, "lean_file": …, "stderr_tail": …}

For every entry of `tie_specs.BY_PROPERTY[pid]` one Lean file `lean/.lake/tie/<pid>_<os.getpid()>.lean` is written:
    prelude, generated definitions (one marked block per Python function), then per entry
      TIE    `theorem tie_<name> : lhs = rhs := by tie_tac` + `#print axioms`
      DIFF   `#eval` of both sides at `Rat` on pool/lattice + random rational inputs (first differing input is reported)
      FLOAT  `#eval` of the generated definition at `Float` on random doubles; compared bit for bit with the REAL Python
             function imported from `repo` (run in a separate interpreter) — the translator's self-check.
The file is elaborated with `lake env lean --json` (no build, no lock); every message is attributed to a block by line.
Status per function: "proved" | "proved(no-float-selfcheck)" (the Float self-check could not run: worker import error,
FLOAT block not elaborating) | "unproved" | "untranslatable" | "translator-mismatch" (Float self-check failed).
`python3 harness/tie.py C18 [--seed N] [--repo DIR]` prints the dict.
"""
from __future__ import annotations
import json
import math
import os
import random
import struct
import subprocess
import sys
import time
import traceback
from fractions import Fraction

HERE = os.path.dirname(os.path.abspath(__file__))
VERIF = os.path.dirname(HERE)
LEAN_DIR = os.path.join(VERIF, "lean")
if HERE not in sys.path:
    sys.path.insert(0, HERE)
import pytrans          # noqa: E402
import tie_specs        # noqa: E402

ALLOWED_AXIOMS = {"propext", "Classical.choice", "Quot.sound"}
N_RAT_POOL, N_RAT_RANDOM, N_FLOAT, N_FLOAT_SPECIAL = 600, 200, 60, 40
LEAN_TIMEOUT = 300
PYTHON = "/venv/bin/python" if os.path.exists("/venv/bin/python") else sys.executable

DEEP_SPLITS = 14


def tactic_for(fn, proved_before: dict, deep: int) -> str:
    """portfolio: (1) compositional — unfold only this function, rewrite every callee that has its own tie theorem with
    that theorem, unfold the other callees; (2) unfold everything; each is closed by syntactic equality, by `ring_nf`
    (commuted / re-associated arithmetic, also under binders) or by `grind` (order reasoning; fails fast);
    (3) `grind` with a larger case-split budget (slow when it fails: `deep = 0` in the spec switches it off)."""
    own = [f"Gen.{fn.lean}"] + [f"Gen.{fn.lean}__dflt_{p}" for p in fn.defaults]
    comp = own + [proved_before.get(d, f"Gen.{d}") for d in fn.deps]
    full = own + [f"Gen.{d}" for d in fn.deps]
    alt = lambda names: f"(simp only [tie_simp, {', '.join(names)}]; tie_close)"       # noqa: E731
    alts = [alt(comp)] + ([alt(full)] if comp != full else [])
    if deep:
        alts.append(f"(simp only [tie_simp, {', '.join(comp)}]; grind (splits := {deep}))")
    return "first\n  | " + "\n  | ".join(alts)


OPS_VALUES = {"FV.Disc.Fns": ("FV.Tie.ratFns", "FV.Disc.floatFns"),       # ops record -> (value at Rat, at Float)
              "FV.Force.Ops": ("FV.Tie.forceOpsQ", "FV.Tie.forceOpsF")}
PROOF_VARS = "variable {α : Type} [Field α] [LinearOrder α] [IsStrictOrderedRing α]"
LOCS = ["T", "N", "S", "E", "W", "X"]


# ------------------------------------------------------------------------------------------------- scalars on the wire
def f2hex(x: float) -> str:
    return struct.pack(">d", float(x)).hex()


def hex2f(h: str) -> float:
    return struct.unpack(">d", bytes.fromhex(h))[0]


def q2s(q) -> str:
    q = Fraction(q)
    return str(q.numerator) if q.denominator == 1 else f"{q.numerator}/{q.denominator}"


def tokens(val, ty, sc) -> list:
    """flatten a value (python-side representation) to the tokens `FV.Tie.Rd` reads."""
    if ty == "S":
        return [sc(val)]
    if ty == "Bool":
        return ["1" if val else "0"]
    if ty in ("Str", "Loc"):
        return [val]
    if ty == "Point":
        return [sc(val["x"]), sc(val["y"])]
    if ty == "Shape":
        return [sc(val["w"]), sc(val["h"])]
    if ty == "BoundingBox":
        return tokens(val["ll"], "Point", sc) + tokens(val["ur"], "Point", sc)
    if ty == "Rect":
        return [sc(val["cx"]), sc(val["cy"]), sc(val["w"]), sc(val["h"]), val["region"],
                "1" if val["fixed"] else "0", "1" if val["hard"] else "0", val["loc"]]
    raise ValueError(ty)


def jsonable(val, ty, sc):
    if ty == "S":
        return sc(val)
    if isinstance(val, dict):
        sub = {"Point": {"x": "S", "y": "S"}, "Shape": {"w": "S", "h": "S"},
               "BoundingBox": {"ll": "Point", "ur": "Point"},
               "Rect": {"cx": "S", "cy": "S", "w": "S", "h": "S"}}[ty]
        return {k: (jsonable(v, sub[k], sc) if k in sub else v) for k, v in val.items()}
    return val


# --------------------------------------------------------------------------------------------------- input generation
class Source:
    """scalars of one stream: exact rationals (`Fraction`) or doubles."""

    def __init__(self, rng: random.Random, exact: bool, wild: bool):
        self.rng, self.exact, self.wild = rng, exact, wild

    def num(self, q: Fraction):
        return q if self.exact else q.numerator / q.denominator

    def coord(self):
        r = self.rng
        if not self.wild:
            return self.num(Fraction(r.randint(-2, 8), 2))
        k = r.random()
        if k < 0.4:
            return self.num(Fraction(r.randint(-40, 80), r.choice([1, 2, 3, 4, 8, 10])))
        if k < 0.7 or self.exact:
            return self.num(Fraction(r.randint(-4000, 8000), r.choice([7, 100, 1000, 1024])))
        return r.uniform(-50.0, 100.0)

    def size(self, positive: bool):
        r = self.rng
        if not self.wild:
            c = [Fraction(1, 2), Fraction(1), Fraction(2), Fraction(3), Fraction(4)]
            if not positive:
                c += [Fraction(0), Fraction(-1)]
            return self.num(r.choice(c))
        k = r.random()
        if k < 0.5:
            return self.num(Fraction(r.randint(1, 60), r.choice([1, 2, 3, 4, 8, 10])))
        if k < 0.8 or self.exact:
            return self.num(Fraction(r.randint(1, 6000), r.choice([7, 100, 1000, 1024])))
        return r.uniform(1e-3, 40.0)

    def tol(self):
        r = self.rng
        c = [Fraction(0), Fraction(1, 100), Fraction(1, 4), Fraction(1, 2), Fraction(1)]
        if self.wild:
            c += [Fraction(1, 10 ** 9), Fraction(1, 10 ** 6), Fraction(1, 1000), Fraction(3, 2)]
        return self.num(r.choice(c))


def rect_of(src: Source, positive: bool):
    r = src.rng
    return {"cx": src.coord(), "cy": src.coord(), "w": src.size(positive), "h": src.size(positive),
            "region": r.choice(["_", "_", "_", "A", "B"]), "fixed": r.random() < 0.25, "hard": r.random() < 0.25,
            "loc": r.choice(LOCS)}


def related_rect(src: Source, a: dict, tols: list, positive: bool):
    """a rectangle structurally related to `a`: abutting one of its sides (gap 0 / ±tolerance-sized), nested,
    shifted copy, identical."""
    r = src.rng
    b = rect_of(src, positive)
    two = src.num(Fraction(2))
    k = r.random()
    if k < 0.08:
        b = dict(a)
        if r.random() < 0.5:
            b["loc"] = r.choice(LOCS)
        return b
    if r.random() < 0.7:
        b["region"] = a["region"]
    gaps = [src.num(Fraction(0))]
    for t in tols:
        gaps += [t, -t, t / two, -t / two, t * two]
    gap = r.choice(gaps)
    if k < 0.6:       # abut a side
        side = r.choice("NSEW")
        if side in "NS":
            if r.random() < 0.6:      # x-interval inside (or on the boundary of) the trunk's
                b["w"] = a["w"] / r.choice([1, 2, 4]) if r.random() < 0.7 else b["w"]
                b["cx"] = a["cx"] + r.choice([-1, 0, 1]) * (a["w"] - b["w"]) / two + r.choice([0, 0, 1, -1]) * gap
            b["cy"] = (a["cy"] + (a["h"] + b["h"]) / two + gap) if side == "N" else (a["cy"] - (a["h"] + b["h"]) / two - gap)
        else:
            if r.random() < 0.6:
                b["h"] = a["h"] / r.choice([1, 2, 4]) if r.random() < 0.7 else b["h"]
                b["cy"] = a["cy"] + r.choice([-1, 0, 1]) * (a["h"] - b["h"]) / two + r.choice([0, 0, 1, -1]) * gap
            b["cx"] = (a["cx"] + (a["w"] + b["w"]) / two + gap) if side == "E" else (a["cx"] - (a["w"] + b["w"]) / two - gap)
        return b
    if k < 0.8:       # nested / containing
        f = r.choice([1, 2, 4])
        b["w"], b["h"] = a["w"] / f, a["h"] / r.choice([1, 2, 4])
        b["cx"] = a["cx"] + r.choice([-1, 0, 1]) * (a["w"] - b["w"]) / two
        b["cy"] = a["cy"] + r.choice([-1, 0, 1]) * (a["h"] - b["h"]) / two
        return (b if r.random() < 0.5 else {**a, "cx": b["cx"], "cy": b["cy"], "w": b["w"], "h": b["h"]})
    # shifted copy
    b["w"], b["h"] = a["w"], a["h"]
    b["cx"] = a["cx"] + r.choice([-1, 0, 1]) * a["w"] / r.choice([1, 2, 4])
    b["cy"] = a["cy"] + r.choice([-1, 0, 1]) * a["h"] / r.choice([1, 2, 4])
    return b


SPECIAL_ANY = [0.0, -0.0, float("inf"), float("-inf"), float("nan"), 5e-324, -5e-324, 2.2250738585072014e-308,
               -2.2250738585072014e-308, 1e-300, 1e200, -1e200, 1e308, -1e308, 1.7976931348623157e308]
SPECIAL_POS = [5e-324, 2.2250738585072014e-308, 1e-300, 1e200, 1e308, 1.7976931348623157e308, float("inf")]
SPECIAL_TOL = [0.0, 5e-324, 1e-300, 1e308, float("inf")]


def add_specials(envs: list, vars_: list, rng: random.Random, prob: float) -> list:
    """Float stream only: replace scalars by ±0.0, ±inf, NaN, denormals and huge values (sides of rectangles stay positive
    and tolerances non-negative: class invariant / `distance_epsilon()` asserts it)."""
    def sub(v, pool):
        return rng.choice(pool) if rng.random() < prob else v
    for env in envs:
        for name, ty in vars_:
            v = env.get(name)
            if ty == "S":
                tol = name.startswith("eps") or name == "epsilon"
                env[name] = sub(v, SPECIAL_TOL if tol else SPECIAL_ANY)
            elif ty == "Rect":
                v.update(cx=sub(v["cx"], SPECIAL_ANY), cy=sub(v["cy"], SPECIAL_ANY),
                         w=sub(v["w"], SPECIAL_POS), h=sub(v["h"], SPECIAL_POS))
            elif ty in ("Point", "Shape"):
                for k in v:
                    v[k] = sub(v[k], SPECIAL_POS if ty == "Shape" else SPECIAL_ANY)
    return envs


def gen_inputs(vars_: list, rng: random.Random, n: int, exact: bool, wild: bool, positive: bool) -> list:
    """n assignments of the typed variables.  Scalars are mostly drawn from a pool of values that matter for the
    rectangles already drawn (their bounds, centres, sides, differences of bounds) so that guards are hit exactly."""
    out = []
    for _ in range(n):
        src = Source(rng, exact, wild)
        env, rects, tols = {}, [], []
        for name, ty in vars_:                     # tolerances first: related rectangles use them as gaps
            if ty == "S" and (name.startswith("eps") or name == "epsilon"):
                env[name] = src.tol()
                tols.append(env[name])
        pool = [src.num(Fraction(0)), src.num(Fraction(-1)), src.num(Fraction(1)), src.num(Fraction(-2000)),
                src.num(Fraction(3000))]
        scalars = []
        for name, ty in vars_:
            if name in env or ty == "Fops":
                continue
            if ty == "Rect":
                v = related_rect(src, rects[0], tols, positive) if rects and rng.random() < 0.7 else rect_of(src, positive)
                rects.append(v)
                two = src.num(Fraction(2))
                pool += [v["cx"], v["cy"], v["w"], v["h"], v["cx"] - v["w"] / two, v["cx"] + v["w"] / two,
                         v["cy"] - v["h"] / two, v["cy"] + v["h"] / two]
            elif ty == "S":
                if name == "ratio":
                    v = src.num(rng.choice([Fraction(0), Fraction(1, 100), Fraction(1, 4), Fraction(1, 2), Fraction(1),
                                            Fraction(-1), Fraction(1, 3)]))
                else:
                    k = rng.random()
                    if scalars and k < 0.25:       # tie with / next to an earlier scalar (equal radii, tangency …)
                        v = rng.choice(scalars) + rng.choice([0, 0, 1, -1]) * rng.choice(pool)
                    elif k < 0.75:
                        v = rng.choice(pool)
                        if rng.random() < 0.3:
                            v = v + rng.choice([1, -1]) * (rng.choice(tols) if tols else src.size(True)) / rng.choice([1, 2, 4])
                    elif k < 0.9:
                        v = src.coord()
                    else:
                        v = src.size(positive)
                scalars.append(v)
                pool.append(v)
            elif ty == "Point":
                v = {"x": rng.choice(pool) if rng.random() < 0.7 else src.coord(),
                     "y": rng.choice(pool) if rng.random() < 0.7 else src.coord()}
                pool += [v["x"], v["y"]]
            elif ty == "Shape":
                v = {"w": src.size(positive), "h": src.size(positive)}
            elif ty == "BoundingBox":
                v = {"ll": {"x": src.coord(), "y": src.coord()}, "ur": {"x": src.coord(), "y": src.coord()}}
            elif ty == "Bool":
                v = rng.random() < 0.5
            elif ty == "Str":
                v = rng.choice(["_", "A", "B"])
            elif ty == "Loc":
                v = rng.choice(LOCS)
            else:
                raise ValueError(ty)
            env[name] = v
        out.append(env)
    return out


# --------------------------------------------------------------------------------------------------- Lean file pieces
def thm(e) -> str:
    return "tie_" + "".join(c if c.isalnum() else "_" for c in e["name"])


def side(text: str, a: str, fn=None) -> str:
    """`@A@` in a tie statement stands for the scalar type, `@F@` for the generated function applied to the extra
    parameters it currently needs (`Fops`, `eps`, `epsA` — a change of the Python can make one of them disappear)."""
    if fn is not None:
        text = text.replace("@F@", " ".join([f"Gen.{fn.lean}"] + fn.needs))
    return text.replace("@A@", a)


def lean_var_ty(ty: str, a: str, ops: str | None) -> str:
    if ty == "Fops":
        return f"({ops} {a})"
    return pytrans.lean_ty({"S": pytrans.S, "Bool": pytrans.BOOL, "Str": pytrans.STR, "Loc": pytrans.LOC}.get(ty, ty), a)


def reader(vars_: list, a: str, ops_value: str) -> str:
    """`do` lines reading the variables from the token stream (the ops record is a fixed value)."""
    ls = []
    for name, ty in vars_:
        if ty == "Fops":
            ls.append(f"  let {name} := {ops_value}")
        else:
            ls.append(f"  let {name} ← FV.Tie.rd (β := {lean_var_ty(ty, a, None)})")
    return "\n".join(ls)


def input_string(inputs: list, vars_: list, sc) -> str:
    return ";".join(" ".join(t for name, ty in vars_ if ty != "Fops" for t in tokens(env[name], ty, sc))
                    for env in inputs)


class FileBuilder:
    def __init__(self):
        self.lines: list = []
        self.blocks: list = []        # (first line, last line, kind, name)

    def add(self, text: str, kind: str | None = None, name: str | None = None):
        ls = text.rstrip("\n").split("\n")
        start = len(self.lines) + 1
        self.lines += ls
        if kind:
            self.blocks.append((start, len(self.lines), kind, name))

    def owner(self, line: int):
        for a, b, kind, name in self.blocks:
            if a <= line <= b:
                return kind, name
        return None, None

    def text(self) -> str:
        return "\n".join(self.lines) + "\n"


# ---------------------------------------------------------------------------------------- the real Python (subprocess)
WORKER = r'''
import importlib, json, math, struct, sys
req = json.load(sys.stdin)
sys.path.insert(0, req["repo"])
def hex2f(h): return struct.unpack(">d", bytes.fromhex(h))[0]
def f2hex(x): return struct.pack(">d", float(x)).hex()
G = importlib.import_module("frame.geometry.geometry")
LOC = {"T": "TRUNK", "N": "NORTH", "S": "SOUTH", "E": "EAST", "W": "WEST", "X": "NO_POLYGON"}
COL = {v: k for k, v in LOC.items()}
def build(v, ty):
    if ty == "S": return hex2f(v)
    if ty in ("Bool", "Str"): return v
    if ty == "Loc": return G.Rectangle.StogLocation[LOC[v]]
    if ty == "Point": return G.Point(hex2f(v["x"]), hex2f(v["y"]))
    if ty == "Shape": return G.Shape(hex2f(v["w"]), hex2f(v["h"]))
    if ty == "BoundingBox": return G.BoundingBox(ll=build(v["ll"], "Point"), ur=build(v["ur"], "Point"))
    if ty == "Rect":
        r = G.Rectangle()          # raw attributes = the fields of the model record (pytrans.MODEL_RECORD)
        r._center = G.Point(hex2f(v["cx"]), hex2f(v["cy"])); r._shape = G.Shape(hex2f(v["w"]), hex2f(v["h"]))
        r._region = v["region"]; r._fixed = v["fixed"]; r._hard = v["hard"]
        r._location = G.Rectangle.StogLocation[LOC[v["loc"]]]
        return r
    raise ValueError(ty)
def enc(x, ty):
    if isinstance(ty, list):
        if ty[0] == "Tup": return enc_tup(list(x), ty[1:])
        if ty[0] == "Opt": return None if x is None else {"some": enc(x, ty[1])}
    if ty == "S":
        x = float(x)
        return "nan" if math.isnan(x) else f2hex(x)
    if ty == "Bool":
        assert isinstance(x, bool), x
        return x
    if ty == "Str": return x
    if ty == "Loc": return COL[x.name]
    if ty == "Point": return {"x": enc(x.x, "S"), "y": enc(x.y, "S")}
    if ty == "Shape": return {"w": enc(x.w, "S"), "h": enc(x.h, "S")}
    if ty == "BoundingBox": return {"ll": enc(x.ll, "Point"), "ur": enc(x.ur, "Point")}
    if ty == "Rect":
        return {"cx": enc(x._center.x, "S"), "cy": enc(x._center.y, "S"), "w": enc(x._shape.w, "S"),
                "h": enc(x._shape.h, "S"), "region": x._region, "fixed": x._fixed, "hard": x._hard,
                "loc": COL[x._location.name]}
    raise ValueError(ty)
def enc_tup(xs, tys):
    return [enc(xs[0], tys[0]), enc(xs[1], tys[1])] if len(tys) == 2 else [enc(xs[0], tys[0]), enc_tup(xs[1:], tys[1:])]
out = {}
for job in req["jobs"]:
    res = []
    try:
        parts = job["qual"].split("::")[0].split(".")
        if job["py_env"] is None:
            mod = importlib.import_module(job["py"][:-3].replace("/", "."))
            target = mod
            for p in parts[:-1]: target = getattr(target, p)
    except Exception as ex:
        out[job["name"]] = {"import_error": repr(ex)}
        continue
    for inp in job["inputs"]:
        try:
            extras = {k: hex2f(inp[k]) for k in job["needs"] if k != "Fops"}
            if extras:
                G.Rectangle._distance_epsilon = extras.get("eps", -1.0)
                G.Rectangle._area_epsilon = extras.get("epsA", -1.0)
            args = [build(inp[n], t) for n, t in job["params"]]
            try:
                if job["py_env"] is not None:      # nested function / single expression: the source text itself
                    import textwrap, types
                    ns = {"math": math, "NS": types.SimpleNamespace, "Point": G.Point}
                    named = dict(zip([n for n, _ in job["params"]], args))
                    ns.update({k: named[k] for k in job["free"]})
                    exec(job["py_env"], ns)
                    if job["kind"] == "expr": val = eval(job["source"], ns)
                    else:
                        exec(textwrap.dedent(job["source"]), ns)
                        val = ns[parts[-1]](*[named[n] for n, _ in job["params"] if n not in job["free"]])
                elif job["kind"] == "property": val = getattr(args[0], parts[-1])
                elif job["kind"] == "method": val = getattr(args[0], parts[-1])(*args[1:])
                else: val = getattr(target, parts[-1])(*args)
                v = enc(val, job["ret"])
                if job["effect"]: v = {"some": v} if job["monad"] == "Option" else {"ok": v}
            except AssertionError:
                v = None if (job["effect"] and job["monad"] == "Option") else {"exc": "AssertionError"}
            except (ZeroDivisionError, ValueError, OverflowError) as ex:
                v = {"err": type(ex).__name__} if (job["effect"] and job["monad"] == "Except") else {"exc": type(ex).__name__}
        except Exception as ex:
            v = {"exc": repr(ex)}
        finally:
            G.Rectangle.undefine_epsilon()
        res.append(v)
    out[job["name"]] = res
json.dump(out, sys.stdout)
'''


def ty_json(t):
    return list(ty_json(x) if isinstance(x, tuple) else x for x in t) if isinstance(t, tuple) else t


def run_python(repo: str, jobs: list) -> dict:
    try:
        p = subprocess.run([PYTHON, "-c", WORKER], input=json.dumps({"repo": repo, "jobs": jobs}), text=True,
                           capture_output=True, timeout=300, cwd=repo,
                           env={k: v for k, v in os.environ.items() if k != "PYTHONPATH"})
        if p.returncode != 0:
            return {"_error": p.stderr[-2000:]}
        return json.loads(p.stdout)
    except Exception as ex:        # noqa: BLE001
        return {"_error": repr(ex)}


def norm_wire(v):
    """normalise a decoded Lean wire value for comparison with the python encoding (NaN payloads)."""
    if isinstance(v, str) and len(v) == 16:
        try:
            if math.isnan(hex2f(v)):
                return "nan"
        except ValueError:
            pass
        return v
    if isinstance(v, dict):
        return {k: norm_wire(x) for k, x in v.items()}
    if isinstance(v, list):
        return [norm_wire(x) for x in v]
    return v


# ------------------------------------------------------------------------------------------------------------- driver
def _run(pid: str, repo: str, seed: int, only: list | None = None) -> dict:
    t0 = time.time()
    result = {"functions": {}, "wall_s": 0.0, "lean_file": None, "stderr_tail": ""}
    groups = tie_specs.BY_PROPERTY.get(pid)
    if not groups:
        result["stderr_tail"] = f"no tie specification for {pid}"
        return result
    fb = FileBuilder()
    fb.add("import FV.Tie.Basic\nset_option linter.unusedVariables false\nset_option linter.unusedSectionVars false\n"
           "set_option autoImplicit false\nset_option linter.style.nameCheck false\n"
           "set_option linter.unusedTactic false\nset_option linter.unusedSimpArgs false\nset_option linter.unreachableTactic false\nopen FV\n")
    entries = []      # (entry, fn, area mode)
    emitted = set()
    fb.add(f"namespace Gen\n{pytrans.VARIABLES}\n")
    for area, names in groups:
        mod = tie_specs.AREAS[area]
        mode = pytrans.Mode(**mod.MODE)
        tr = pytrans.Translator(repo, mode)
        for e in mod.ENTRIES:
            if e["name"] not in names or (only and e["name"] not in only):
                continue
            info = {"status": "untranslatable", "reason": None, "axioms": [], "differs_at": None,
                    "float_selfcheck": "skipped", "python": f'{e["py"]}::{e["qual"]}'}
            result["functions"][e["name"]] = info
            try:
                fn = tr.get(e["py"], e["qual"], e.get("param_types"), free=e.get("free"),
                            expr_target=e.get("expr_target"), lean_name=e.get("lean_name"))
            except pytrans.Untranslatable as ex:
                info["reason"] = str(ex)
                continue
            except Exception as ex:      # noqa: BLE001  (a translator bug must not take the check down)
                info["reason"] = f"translator error: {ex!r}"
                continue
            info["source_lines"] = list(fn.lines)
            if not e["vars"]:
                e = dict(e, vars=[("u_", "Bool")])    # a constant: one dummy variable so that there is an input
            entries.append((e, fn, mode))
        for fn in tr.order:           # dependency order
            if (fn.py_file, fn.lean) not in emitted:
                emitted.add((fn.py_file, fn.lean))
                fb.add(f"-- BEGIN DEF {fn.qualname}  ({fn.py_file}:{fn.lines[0]}-{fn.lines[1]})\n{fn.text}-- END DEF\n",
                       "DEF", fn.lean)
    fb.add("end Gen\n")

    rng = random.Random(f"tie/{pid}/{seed}")
    rat_inputs, float_inputs, jobs = {}, {}, []
    fb.add(f"section Tie\n{PROOF_VARS}\n")
    order = {}
    for e, fn, mode in entries:       # callees before callers
        order[fn.lean] = len(fn.deps)
    entries.sort(key=lambda t: order[t[1].lean])
    tie_of = {}
    for e, fn, mode in entries:
        binders = " ".join(f"({n} : {lean_var_ty(t, 'α', mode.ops)})" for n, t in e["vars"])
        hyp = f" (h : {e['hyp']})" if e.get("hyp") else ""
        tac = e.get("tactic") or tactic_for(fn, tie_of, e.get("deep", DEEP_SPLITS))
        if not e.get("hyp") and not e.get("aux"):
            tie_of[fn.lean] = thm(e)
        fb.add(f"-- BEGIN TIE {e['name']}\nset_option maxHeartbeats 1000000 in\n"
               f"theorem {thm(e)} {binders}{hyp} :\n    {side(e['lhs'], 'α', fn)} = {side(e['rhs'], 'α', fn)} := by\n  {tac}\n"
               f"-- END TIE\n", "TIE", e["name"])
    for e, fn, mode in entries:       # after all theorems, so that the proofs are elaborated in parallel
        fb.add(f"#print axioms {thm(e)}\n", "AX", e["name"])
    fb.add("end Tie\n")
    for e, fn, mode in entries:
        name = e["name"]
        ops_q, ops_f = OPS_VALUES.get(mode.ops, ("", ""))
        # differential at Rat: generated definition against the hand model
        ins = gen_inputs(e["vars"], rng, N_RAT_POOL, exact=True, wild=False, positive=False) + \
            gen_inputs(e["vars"], rng, N_RAT_RANDOM, exact=True, wild=True, positive=False)
        rat_inputs[name] = ins
        guard = f"if ¬ ({e['hyp']}) then pure (\"skip\", \"skip\") else " if e.get("hyp") else ""
        fb.add(f"-- BEGIN DIFF {name}\n#eval FV.Tie.diffRun \"{name}\" \"{input_string(ins, e['vars'], q2s)}\" (do\n"
               f"{reader(e['vars'], 'Rat', ops_q)}\n"
               f"  {guard}pure (FV.Tie.wire ({side(e['lhs'], 'Rat', fn)}), FV.Tie.wire ({side(e['rhs'], 'Rat', fn)})))\n"
               f"-- END DIFF\n", "DIFF", name)
        # Float self-check: generated definition against the real Python
        fvars = [(x, "Fops" if x == "Fops" else "S") for x in fn.needs] + \
                [(p, {pytrans.S: "S", pytrans.BOOL: "Bool", pytrans.STR: "Str", pytrans.LOC: "Loc"}.get(t, t))
                 for p, t in fn.params]
        if any(not isinstance(t, str) for _, t in fvars) or e.get("no_float") or e.get("aux") or \
                (fn.kind == "expr" or fn.free) and "py_env" not in e:
            continue
        fins = gen_inputs(fvars, rng, N_FLOAT // 2, exact=False, wild=False, positive=True) + \
            gen_inputs(fvars, rng, N_FLOAT - N_FLOAT // 2, exact=False, wild=True, positive=True) + \
            add_specials(gen_inputs(fvars, rng, N_FLOAT_SPECIAL, exact=False, wild=False, positive=True),
                         fvars, rng, e.get("float_special", 0.35))
        float_inputs[name] = fins
        call = " ".join([f"Gen.{fn.lean}"] + [pytrans.lname(x) for x, _ in fvars])
        fb.add(f"-- BEGIN FLOAT {name}\n#eval FV.Tie.evalRun \"{name}\" \"{input_string(fins, fvars, f2hex)}\" (do\n"
               f"{reader([(pytrans.lname(x), t) for x, t in fvars], 'Float', ops_f)}\n"
               f"  pure (FV.Tie.wire ({call})))\n-- END FLOAT\n", "FLOAT", name)
        jobs.append({"name": name, "py": fn.py_file, "qual": fn.qualname, "kind": fn.kind, "needs": fn.needs,
                     "params": [(p, t) for p, t in fvars if p not in fn.needs], "ret": ty_json(fn.ret),
                     "effect": fn.effect, "monad": mode.monad, "source": fn.source, "py_env": e.get("py_env"),
                     "free": [nm for nm, _ in fn.free.values()],
                     "inputs": [{k: jsonable(v, dict(fvars)[k], f2hex) for k, v in env.items()} for env in fins]})

    out_dir = os.path.join(LEAN_DIR, ".lake", "tie")
    os.makedirs(out_dir, exist_ok=True)
    try:                                                  # generated files of earlier runs: keep the 40 newest, < 30 min
        olds = sorted((f for f in os.listdir(out_dir) if f.endswith(".lean")),
                      key=lambda f: os.path.getmtime(os.path.join(out_dir, f)), reverse=True)
        for i, old in enumerate(olds):
            if i >= 40 or time.time() - os.path.getmtime(os.path.join(out_dir, old)) > 1800:
                os.remove(os.path.join(out_dir, old))
    except OSError:
        pass
    path = os.path.join(out_dir, f"{pid}_{os.getpid()}.lean")
    with open(path, "w", encoding="utf-8") as f:
        f.write(fb.text())
    result["lean_file"] = path

    # the real Python runs while Lean elaborates
    import threading
    py_res = {}
    th = threading.Thread(target=lambda: py_res.update(run_python(repo, jobs)))
    th.start()
    try:
        p = subprocess.run(["timeout", str(LEAN_TIMEOUT), "lake", "env", "lean", "--json", path], cwd=LEAN_DIR,
                           capture_output=True, text=True)
        lean_out, lean_err, rc = p.stdout, p.stderr, p.returncode
    except Exception as ex:      # noqa: BLE001
        lean_out, lean_err, rc = "", repr(ex), -1
    th.join()

    msgs = []
    for line in lean_out.splitlines():
        try:
            m = json.loads(line)
            if isinstance(m, dict) and "severity" in m:
                msgs.append(m)
        except ValueError:
            lean_err += line + "\n"
    errors = {}          # (kind, name) -> [text]
    infos = {}
    for m in msgs:
        kind, name = fb.owner(m["pos"]["line"])
        txt = m["data"]
        if m["severity"] == "error" or (m["severity"] == "warning" and "sorry" in txt):
            errors.setdefault((kind, name), []).append(f"line {m['pos']['line']}: {txt}")
        elif m["severity"] == "information":
            infos.setdefault((kind, name), []).append(txt)
    tail = [f"lean exit code {rc}"] + [f"[{k} {n}] {t[:600]}" for (k, n), ts in errors.items() for t in ts[:2]]
    if lean_err.strip():
        tail.append(lean_err.strip()[-1500:])
    if "_error" in py_res:
        tail.append("python worker: " + py_res["_error"])
    result["stderr_tail"] = "\n".join(tail)[-6000:]
    infra = rc not in (0, 1) or (None, None) in errors or not msgs

    for e, fn, mode in entries:
        name = e["name"]
        info = result["functions"][name]
        bad_defs = [d for d in fn.deps + [fn.lean] if ("DEF", d) in errors]
        if infra:
            info.update(status="unproved", reason="lean did not run to completion: " + result["stderr_tail"][-400:])
            continue
        # tie theorem
        ax_txt = " ".join(infos.get(("AX", name), []))
        if bad_defs:
            info.update(status="unproved", reason=f"generated definition {bad_defs[0]} does not elaborate: "
                        + errors[("DEF", bad_defs[0])][0][:500])
        elif ("TIE", name) in errors:
            info.update(status="unproved", reason=errors[("TIE", name)][0][:800])
        elif f"'{thm(e)}'" not in ax_txt:
            info.update(status="unproved", reason="no axiom report for the tie theorem")
        else:
            axioms = []
            if "depends on axioms" in ax_txt:
                axioms = [a.strip() for a in ax_txt.split("[", 1)[1].split("]", 1)[0].split(",") if a.strip()]
            info["axioms"] = axioms
            if set(axioms) <= ALLOWED_AXIOMS:
                info.update(status="proved", reason=None)
            else:
                why = ("rests on the tie theorem of a callee that is itself unproved (sorryAx)" if "sorryAx" in axioms
                       else f"axioms outside the allowed set: {axioms}")
                info.update(status="unproved", reason=why)
        # differential
        d_txt = "\n".join(infos.get(("DIFF", name), []))
        info["differential"] = "not-run"
        for line in d_txt.splitlines():
            if line.startswith("@@DIFF "):
                _, _, idx, rest = line.split(" ", 3)
                env = rat_inputs[name][int(idx)]
                vt = dict(e["vars"])
                try:
                    dec = json.JSONDecoder()
                    gen_v, pos = dec.raw_decode(rest)
                    mod_v, _ = dec.raw_decode(rest[pos:].lstrip())
                except ValueError:
                    gen_v, mod_v = rest, None
                info["differs_at"] = {"input": {k: jsonable(v, vt[k], q2s) for k, v in env.items()},
                                      "generated": gen_v, "model": mod_v,
                                      "gen_value": json.dumps(gen_v), "model_value": json.dumps(mod_v)}
                info["differential"] = f"differs at input {idx}"
            elif line.startswith("@@NODIFF "):
                info["differential"] = f"agree on {line.split()[2]} inputs"
            elif line.startswith("@@BADINPUT "):
                info["differential"] = "bad input " + line
        if ("DIFF", name) in errors:
            info["differential"] = "not executable: " + errors[("DIFF", name)][0][:300]
        # Float self-check
        if name in float_inputs:
            vals = {}
            for line in "\n".join(infos.get(("FLOAT", name), [])).splitlines():
                if line.startswith("@@VAL "):
                    _, _, idx, rest = line.split(" ", 3)
                    try:
                        vals[int(idx)] = norm_wire(json.loads(rest))
                    except ValueError:
                        vals[int(idx)] = rest
            real = py_res.get(name)
            if ("FLOAT", name) in errors or not isinstance(real, list) or len(vals) != len(float_inputs[name]):
                info["float_selfcheck"] = "skipped"
                info["float_note"] = (errors.get(("FLOAT", name)) or [str(real)[:300] if real is not None
                                                                       else py_res.get("_error", "no result")[:300]])[0]
            else:
                # a zero divisor is outside what the non-`Except` translation models (documented in pytrans.py)
                # and CPython's OverflowError of `x ** 2` (libm pow returns inf) is not modelled in any mode
                zd = [i for i in range(len(real)) if (real[i] == {"exc": "ZeroDivisionError"} and mode.monad != "Except")
                      or real[i] in ({"exc": "OverflowError"}, {"err": "OverflowError"})]
                if zd:
                    info["float_inputs_outside_model_skipped"] = len(zd)
                bad = [(i, real[i], vals[i]) for i in range(len(real)) if real[i] != vals[i] and i not in zd]
                if bad:
                    i, rv, gv = bad[0]
                    info["float_selfcheck"] = "mismatch"
                    info["float_note"] = {"input": jobs_input(jobs, name, i), "python": rv, "generated": gv,
                                          "mismatches": len(bad), "of": len(real)}
                    info.update(status="translator-mismatch",
                                reason="the generated definition executed at Float differs from the real Python "
                                       "function: the translator (or one of its documented assumptions) is wrong here")
                else:
                    info["float_selfcheck"] = "ok"
        if e.get("aux"):
            info["float_selfcheck"] = "n/a"           # a constant (default argument): nothing to execute
        elif info["float_selfcheck"] == "skipped" and info["status"] == "proved":
            info["status"] = "proved(no-float-selfcheck)"
    result["wall_s"] = round(time.time() - t0, 2)
    return result


def jobs_input(jobs, name, i):
    for j in jobs:
        if j["name"] == name:
            return j["inputs"][i]
    return None


def run(pid: str, repo: str, seed: int, only: list | None = None) -> dict:
    """never raises."""
    t0 = time.time()
    try:
        return _run(pid, repo, seed, only)
    except Exception:       # noqa: BLE001
        return {"functions": {}, "wall_s": round(time.time() - t0, 2), "lean_file": None,
                "stderr_tail": "tie.run failed:\n" + traceback.format_exc()[-3000:]}


if __name__ == "__main__":
    import argparse
    ap = argparse.ArgumentParser()
    ap.add_argument("pid")
    ap.add_argument("--seed", type=int, default=int(os.environ.get("VERIF_SEED", "0")))
    ap.add_argument("--repo", default=os.environ.get("FRAME_REPO", "/repo"))
    ap.add_argument("--only", nargs="*")
    ap.add_argument("--brief", action="store_true")
    a = ap.parse_args()
    res = run(a.pid, a.repo, a.seed, a.only)
    if a.brief:
        for k, v in res["functions"].items():
            print(f"{k:34s} {v['status']:20s} diff={v.get('differential')} float={v['float_selfcheck']} "
                  f"{(v['reason'] or '')[:150]!r}")
        print("wall_s", res["wall_s"], res["lean_file"])
        print(res["stderr_tail"])
    else:
        print(json.dumps(res, indent=1, default=str))

"""C01 — Die decomposition is an exact tiling of the die.

Correspondence: the public entry `Die(stream, netlist)` of the repository vs the Lean model, on generated documents.
The model input is the pair of DOCUMENTS (die source: `str` incl. the `<w>x<h>` shorthand / tree / other object; netlist tree):
`FV/Model/DieNet.lean` (`construct`) runs the C05 reader model on the netlist document, computes the fixed rectangles and the
tolerance the netlist leaves behind, splits the shorthand itself, and then runs `FV/Model/Die.lean`; a quarter of the cases also
go through the older entry (`dieModel`: die tree + fixed rectangles read from the implementation).  The order of `die.ground_regions` is the pick trace of the greedy cover;
it is mapped to index rectangles on the model's own Hanan grid (op `grid`) and fed to the model's relational cover
(op `accept`); for documents the implementation rejects, the model runs its deterministic cover (op `model`).
  * Q stream: dyadic coordinates (exact in binary floating point) — model at `Rat`, full region lists compared exactly;
  * F stream: decimal grids (0.1 steps, thirds, scales 1e-3 … 1e6) — model at `Float`, verdicts and regions to 1e-9.
Spec on the implementation: the `Tiling` clauses of `FV/Props/C01.lean` evaluated with `fractions.Fraction` on what the
implementation reports, plus a validity oracle computed in exact decimal arithmetic on the DOCUMENT: a document that
is valid but rejected, or clearly invalid but accepted, is a violation.
"""
from __future__ import annotations

import io
import itertools
import os
import math
import re
import signal
from decimal import Decimal
from fractions import Fraction as Fr

from vcheck import Ctx, f2hex, hex2f, q2s, load_known
import geo
from geo import sc, rect_in, bb
from frame.die.die import Die
from frame.geometry.geometry import Rectangle, gather_boundaries
from frame.netlist.netlist import Netlist
from frame.utils.utils import read_yaml
from netlist_common import enc_tree, enc_str

LEVEL = "proof"
DRIVERS = ["drv_die"]
TRUSTED = [
    "Lean 4.33 kernel; Mathlib lemmas; axioms ⊆ {propext, Classical.choice, Quot.sound}",
    "hand-written model FV/Model/Die.lean — fidelity to frame/die/die.py, yaml_parse_die.py, gather_boundaries checked by "
    "this correspondence run (including CPython's compensated float sum()), not proved",
    "YAML text → tree (ruamel.yaml / read_yaml) and Python's float(str) on the pieces of the `<w>x<h>` shorthand are taken from the "
    "implementation (parameters `ry`, `pf` of the model); the split of the shorthand, the source kinds, the netlist reader "
    "(C05 model), its fixed rectangles and the tolerance it installs are computed by the model from the documents",
    "the STOG role carried by a fixed rectangle is not part of the die model (the die never reads it)",
    "theorems are over exact ordered fields; IEEE rounding is executed (F stream) and searched (validity oracle), never proved",
    "math.sqrt is a parameter of the model (Float.sqrt in the F stream, the implementation's answer in the Q stream)",
    "harness (Python) and compiled Lean driver: serialisation, mapping of ground rectangles to grid indices, comparison",
]

TAGS = ["A", "dsp", "BRAM", "#", "#", "reg_1"]


# ------------------------------------------------------------------ formatting of exact numbers
def dec(x: Fr) -> str | None:
    """exact decimal string of a Fraction whose denominator divides a power of ten (else None)."""
    d = x.denominator
    k = 0
    while d % 10 == 0:
        d //= 10
        k += 1
    while d % 2 == 0:
        d //= 2
        k += 1
    while d % 5 == 0:
        d //= 5
        k += 1
    if d != 1:
        return None
    q = Decimal(x.numerator) / Decimal(x.denominator) if k <= 25 else None
    if q is None:
        return None
    s = format(q, "f")
    return s


def num_text(x: Fr, rng) -> str:
    s = dec(x)
    if s is None or len(s) > 24:
        return repr(float(x))
    if "." not in s and rng.random() < 0.3:
        s += ".0"
    return s


def doc_value(s: str) -> Fr:
    """the exact value a number token of the document denotes (decimal arithmetic)."""
    return Fr(Decimal(s))


# ------------------------------------------------------------------ tree serialisation
_SAFE = re.compile(r"^[!-~]+$")


class Unserialisable(Exception):
    pass


class InfiniteTolerance(Exception):
    """the attached netlist installed the class-wide tolerance `inf` (repaired by fixes/C01_netlist_infinite_tolerance.diff)."""


def ser_tree(t, mode: str) -> str:
    if isinstance(t, bool):
        return "n " + sc(1 if t else 0, mode)
    if isinstance(t, (int, float)):
        if isinstance(t, float) and not math.isfinite(t):
            raise Unserialisable()
        return "n " + sc(t, mode)
    if t is None:
        return "z"
    if isinstance(t, str):
        if t == "":
            return "e"
        if not _SAFE.match(t):
            raise Unserialisable()
        return "s " + t
    if isinstance(t, (list, tuple)):
        return f"l {len(t)}" + "".join(" " + ser_tree(x, mode) for x in t)
    if isinstance(t, dict):
        out = f"m {len(t)}"
        for k, v in t.items():
            if isinstance(k, str) and k != "" and _SAFE.match(k) and not k.startswith("~"):
                ks = k
            elif k == "":
                ks = "~e"
            else:
                ks = "~k"
            out += " " + ks + " " + ser_tree(v, mode)
        return out
    raise Unserialisable()


_SHORT = re.compile(r"^([0-9.eE+-]+)x([0-9.eE+-]+)$")


def doc_tree(text: str):
    """what `parse_yaml_die` sees: the `<w>x<h>` shorthand is the tree {width, height}."""
    m = _SHORT.match(text)
    if m and ": " not in text:
        return {"width": float(m.group(1)), "height": float(m.group(2))}
    return read_yaml(text)


# ------------------------------------------------------------------ running the implementation
def set_state(pre) -> None:
    Rectangle.undefine_epsilon()
    if pre is not None:
        if len(pre) == 1:
            Rectangle.set_epsilon(pre[0])
        else:
            Rectangle.set_epsilon(pre[0], pre[1])


def get_state():
    if not Rectangle.epsilon_defined():
        return None
    return (Rectangle.distance_epsilon(), Rectangle.area_epsilon())


def state_tok(st, mode: str) -> str:
    return "u" if st is None else f"d {sc(st[0], mode)} {sc(st[1], mode)}"


def rects_str(rs, mode: str) -> str:
    return str(len(rs)) + "".join(" | " + rect_in(r, mode) + " X" for r in rs)


_TIMEOUTS: list[int] = []


class time_limit:
    """a run-away loop in the implementation becomes an exception (reported as `operation-raised`), not a hung check."""

    def __init__(self, seconds: int):
        self.seconds = seconds

    def _fire(self, *_):
        raise TimeoutError(f"no result after {self.seconds} s")

    def __enter__(self):
        self.old = signal.signal(signal.SIGALRM, self._fire)
        signal.alarm(self.seconds)

    def __exit__(self, *exc):
        signal.alarm(0)
        signal.signal(signal.SIGALRM, self.old)
        return False


def make_stream(case: dict):
    """the object handed to `Die(...)`: the text itself (`str`), its tree (`list`/`dict`), or an object of another kind."""
    kind = case.get("as", "str")
    if kind == "str":
        return case["doc"]
    if kind == "tree":
        t = read_yaml(case["doc"])
        if not isinstance(t, (list, dict)):
            raise Unserialisable()
        return t
    if kind == "handle":
        return io.StringIO(case["doc"])
    if kind == "none":
        return None
    if kind == "number":
        return 7.5
    raise Unserialisable()


def src_tokens(stream, mode: str) -> str:
    """the model's `Src`: for a `str` the text, the answers of `float()` on the pieces `rsplit('x')` can produce (the model
    splits on its own and looks the pieces up), and what `read_yaml` makes of the text (`-` if it raises)."""
    if isinstance(stream, (list, dict)):
        return "T " + ser_tree(stream, mode)
    if isinstance(stream, io.TextIOBase):
        # an open text stream: read_yaml reads and parses it (no shorthand); `-` if the text layer raises
        pos = stream.tell()
        try:
            t = read_yaml(io.StringIO(stream.read()))
            tok = "H Y " + ser_tree(t, mode)
        except Unserialisable:
            raise
        except Exception:
            tok = "H -"
        finally:
            stream.seek(pos)
        return tok
    if not isinstance(stream, str):
        return "O"
    if not all(ch == "\n" or " " <= ch <= "~" for ch in stream):
        raise Unserialisable()
    tab = []
    for piece in dict.fromkeys(stream.split("x")):
        try:
            v = float(piece)
        except ValueError:
            tab.append(enc_str(piece) + " -")
            continue
        if not math.isfinite(v):
            raise Unserialisable()
        tab.append(enc_str(piece) + " n " + sc(v, mode))
    try:
        t = read_yaml(stream)
        ytok = "Y " + ser_tree(t, mode)
    except Unserialisable:
        raise
    except Exception:
        ytok = "-"
    return f"S {enc_str(stream)} {len(tab)} " + " ".join(tab) + (" " if tab else "") + ytok


# ------------------------------------------------------------------ object histories on the attached netlist
def _norm_rects(info: dict) -> list | None:
    """the `rectangles` entry of a module as a list of lists (a single rectangle may be written on its own)."""
    rl = info.get("rectangles")
    if rl is None:
        return None
    if rl and isinstance(rl[0], (int, float)):
        rl = [rl]
    info["rectangles"] = [list(r) for r in rl]
    return info["rectangles"]


def apply_history_tree(tree: dict, history: list) -> dict:
    """the netlist DOCUMENT that describes the netlist object after the history (what the model is given)."""
    import copy
    t = copy.deepcopy(tree)
    mods = t.get("Modules", {})
    for h in history:
        if h[0] == "move":
            k = h[1]
            for info in mods.values():
                rl = _norm_rects(info) if isinstance(info, dict) else None
                if not rl:
                    continue
                if k < len(rl):
                    rl[k][0] = rl[k][0] + h[2]
                    rl[k][1] = rl[k][1] + h[3]
                    break
                k -= len(rl)
        elif h[0] == "assign":
            mods[h[1]]["rectangles"] = [list(r) for r in h[2]]
    return t


def apply_history_obj(netlist, stream, history: list) -> None:
    """the same history on the live object: an earlier die built for it, rectangles moved in place (the idiom of
    `Module.recenter_rectangles` / the floorplanning tools), rectangles redefined through `assign_rectangles`."""
    for h in history:
        if h[0] == "predie":
            try:
                Die(stream, netlist)
            except Exception:
                pass
        elif h[0] == "move":
            r = netlist.rectangles[h[1]]
            r.center.x += h[2]
            r.center.y += h[3]
        elif h[0] == "assign":
            netlist.assign_rectangles({h[1]: [list(r) for r in h[2]]})


def fixed_of_tree(tree: dict) -> list:
    out = []
    for info in tree.get("Modules", {}).values():
        if isinstance(info, dict) and info.get("fixed") is True:
            for r in (_norm_rects(dict(info)) or []):
                out.append([str(Fr(v)) for v in r[:4]])
    return out


class Run:
    """one execution of the implementation."""

    def __init__(self, case: dict):
        if len(_TIMEOUTS) >= 3:
            raise Unserialisable()   # the implementation loops: three reports are enough, do not burn the budget
        self.case = case
        mode = case["mode"]
        set_state(case.get("pre"))
        self.st_pre = get_state()
        self.netlist = None
        self.fixed = []
        self.die = None
        self.err = None
        self.impl = None
        self.tree = None
        self.head = None
        netl = "-"
        try:
            stream = make_stream(case)
            if case.get("netlist"):
                try:
                    ntree = read_yaml(case["netlist"])
                    netl = "N " + enc_tree(ntree, mode)
                except Exception:
                    raise Unserialisable()       # not YAML: text layer, outside the model
                try:
                    self.netlist = Netlist(case["netlist"])
                    if case.get("history"):
                        # the netlist object is changed after loading; the model gets the document describing the result.
                        # (`fixed_rectangles()` is NOT called here: its lazy rebuild has to happen inside `Die(...)`.)
                        apply_history_obj(self.netlist, make_stream(case), case["history"])
                        ntree = apply_history_tree(ntree, case["history"])
                        netl = "N " + enc_tree(ntree, mode)
                        self.fixed_expect = fixed_of_tree(ntree)
                        if case.get("exact") is not None:
                            self.exact = dict(case["exact"], fixed=self.fixed_expect)
                    else:
                        self.fixed = list(self.netlist.fixed_rectangles())
                except AssertionError:
                    self.impl = "err:Netlist"    # the caller's Netlist(...) raised: the die is never constructed
                except Exception:
                    raise Unserialisable()       # any other exception of the netlist reader is C05's subject
            self.st0 = get_state()
            if self.st0 is not None and not (math.isfinite(self.st0[0]) and math.isfinite(self.st0[1])):
                # a netlist of terminals only installed the tolerance inf: the defect repaired by
                # fixes/C01_netlist_infinite_tolerance.diff (the model describes the repaired code: tolerance left undefined).
                # Until that repair is recorded the case is set aside; afterwards it is judged like any other.
                if not (os.environ.get("VERIF_C01_INFTOL") == "1" or
                        any(str(k.get("id", "")).replace("_", "-") == "C01-netlist-infinite-tolerance" for k in load_known())):
                    raise Unserialisable()
                raise InfiniteTolerance()
            self.src = src_tokens(stream, mode)
            if isinstance(stream, str):
                try:
                    self.tree = doc_tree(stream)
                except Unserialisable:
                    raise
                except Exception:
                    self.tree = None             # the text layer raises (no such file / not YAML)
            elif isinstance(stream, (list, dict)):
                self.tree = stream
            elif isinstance(stream, io.TextIOBase):
                try:
                    self.tree = read_yaml(io.StringIO(case["doc"]))
                except Exception:
                    self.tree = None
            if self.impl is None:
                try:
                    with time_limit(20):
                        self.die = Die(make_stream(case), self.netlist)
                    self.impl = "ok"
                except AssertionError:
                    self.impl = "err:Assert"
                except Exception as e:  # not modelled: reported as `operation-raised` (unless it is the text layer's)
                    self.impl = "err:" + type(e).__name__
                    self.raised = repr(e)[:300]
                    if isinstance(e, TimeoutError):
                        _TIMEOUTS.append(1)
            self.st1 = get_state()
            if case.get("history") and self.netlist is not None:
                try:
                    self.fixed = list(self.netlist.fixed_rectangles())
                except Exception:
                    self.fixed = None
        finally:
            Rectangle.undefine_epsilon()
        # request head of the document ops: tolerance state BEFORE the netlist, die source, netlist document
        self.head2 = f"{state_tok(self.st_pre, mode)} {self.src} {netl}"
        # request head of the older ops (die tree + fixed rectangles of the implementation), when there is a tree
        if self.tree is not None and self.impl != "err:Netlist" and self.fixed is not None:
            # the square root the constructor would ask libm for (Q stream: the model cannot compute it)
            sq = 0.0
            try:
                w, h = self.tree["width"], self.tree["height"]
                if isinstance(w, (int, float)) and isinstance(h, (int, float)) and w > 0 and h > 0:
                    sq = math.sqrt(min(w, h) * 10e-12)
            except Exception:
                pass
            self.head = f"{state_tok(self.st0, mode)} {sc(sq, mode)} {ser_tree(self.tree, mode)} " \
                        f"{len(self.fixed)}" + "".join(" " + rect_in(r, mode) for r in self.fixed)

    def impl_line(self) -> str:
        if self.die is None:
            return self.impl
        d, mode = self.die, self.case["mode"]
        return f"ok {sc(d.width, mode)} {sc(d.height, mode)} ; {rects_str(d.specialized_regions, mode)} ; " \
               f"{rects_str(d.ground_regions, mode)} ; {rects_str(d.blockages, mode)} ; {rects_str(d.fixed_regions, mode)}"


def spans_of(vals: list, centre, width) -> list[tuple[int, int]]:
    """indices (i, j), i < j, of the grid lines whose span has this centre and width — the implementation's own
    formulas `(x[i] + x[j]) / 2`, `x[j] - x[i]` are used, so an unchanged implementation matches exactly even when
    neighbouring lines are one ulp apart (then SEVERAL spans can match exactly: all are returned); otherwise the closest span."""
    best, bij, exact = None, (0, 1), []
    for i in range(len(vals)):
        for j in range(i + 1, len(vals)):
            dlt = abs((vals[i] + vals[j]) / 2 - centre) + abs((vals[j] - vals[i]) - width)
            if dlt == 0:
                exact.append((i, j))
            if best is None or dlt < best:
                best, bij = dlt, (i, j)
    return exact or [bij]


def span_of(vals: list, centre, width) -> tuple[int, int]:
    return spans_of(vals, centre, width)[0]


def picks_from(run: Run, grid_reply: str, grounds=None) -> str | None:
    """ground rectangles → index rectangles on the model's grid.  When grid lines one ulp apart make several index spans
    reproduce a reported rectangle bit for bit, the span whose cells are free (in the model's matrix, after the earlier picks) is
    taken: the translation is a device of the harness, and a rectangle that covers an occupied cell still has no admissible
    translation."""
    if not grid_reply.startswith("ok "):
        return None
    mode = run.case["mode"]
    secs = grid_reply[3:].split(" ; ")
    xs = [geo.unsc(t, mode) for t in secs[0].split()[1:]]
    ys = [geo.unsc(t, mode) for t in secs[1].split()[1:]]
    if grounds is None:
        grounds = run.die.ground_regions
    if len(xs) < 2 or len(ys) < 2:
        return None if grounds else "0"
    rows = [list(t.rstrip(".")) for t in secs[2].split()[1:]] if len(secs) > 2 else []
    conv = float if mode == "F" else Fr

    def free(r0, r1, c0, c1):
        try:
            return all(rows[r][c] == "0" for r in range(r0, r1) for c in range(c0, c1))
        except IndexError:
            return False
    cands = []
    for g in grounds:
        cs = spans_of(xs, conv(g.center.x), conv(g.shape.w))
        rs = spans_of(ys, conv(g.center.y), conv(g.shape.h))
        cands.append([(r0, r1, c0, c1) for (c0, c1) in cs for (r0, r1) in rs])
    chosen = [c[0] for c in cands]
    if any(len(c) > 1 for c in cands) and rows:
        # several index rectangles reproduce some reported rectangle bit for bit: take an assignment in which every pick is
        # free when it is made (depth-first; a few candidates per region), preferring one that leaves no free cell
        budget = [4000]
        best = [None]

        def dfs(k, occ, acc):
            if budget[0] <= 0:
                return False
            budget[0] -= 1
            if k == len(cands):
                if best[0] is None:
                    best[0] = list(acc)
                full = all(occ[r][c] == "1" for r in range(len(occ)) for c in range(len(occ[r])))
                if full:
                    best[0] = list(acc)
                return full
            for (r0, r1, c0, c1) in cands[k]:
                try:
                    ok = all(occ[r][c] == "0" for r in range(r0, r1) for c in range(c0, c1))
                except IndexError:
                    ok = False
                if not ok:
                    continue
                occ2 = [list(row) for row in occ]
                for r in range(r0, r1):
                    for c in range(c0, c1):
                        occ2[r][c] = "1"
                if dfs(k + 1, occ2, acc + [(r0, r1, c0, c1)]):
                    return True
            return False
        dfs(0, [list(row) for row in rows], [])
        if best[0] is not None:
            chosen = best[0]
    out = [f"{r0} {r1 - 1} {c0} {c1 - 1}" for (r0, r1, c0, c1) in chosen]
    return f"{len(out)}" + "".join(" " + p for p in out)


# ------------------------------------------------------------------ comparison of reply lines
def close_lines(a: str, b: str, mode: str, tol: float) -> tuple[bool, bool]:
    if a == b:
        return True, True
    ta, tb = a.split(), b.split()
    if len(ta) != len(tb):
        return False, False
    for x, y in zip(ta, tb):
        if x == y:
            continue
        try:
            fx, fy = (hex2f(x), hex2f(y)) if mode == "F" else (Fr(x), Fr(y))
        except Exception:
            return False, False
        if mode == "F" and (len(x) != 16 or len(y) != 16):
            return False, False
        scale = max(abs(float(fx)), abs(float(fy)))
        if abs(float(fx) - float(fy)) > tol * scale:
            return False, False
    return True, False


def compare(ctx: Ctx, run: Run, model: str, verdict) -> None:
    case, mode = run.case, run.case["mode"]
    impl = run.impl_line()
    size = case.get("size", 0)
    m_ok, i_ok = model.startswith("ok "), impl.startswith("ok ")
    if not (m_ok and i_ok):
        if model == impl:
            return
        if model == "err:Text" and impl.startswith("err:") and impl not in ("err:Assert", "err:Netlist"):
            return      # the text layer (`read_yaml`: no such file / not YAML) raised on both sides
        if case.get("history") and {model, impl} == {"err:Netlist", "err:Assert"}:
            return      # the netlist's own consistency assertion fires inside `Die(...)` (lazy rebuild) or in its self-check
        if model == "err:InfTol":
            ctx.count("netlist-proposes-infinite-tolerance")
            return
        kinds = {"ok" if m_ok else model, "ok" if i_ok else impl}
        if mode == "F" and verdict == "unclear" and kinds == {"ok", "err:Assert"}:
            # accept/reject differs on a document that sits on a tolerance threshold: rounding tie, outside the property
            ctx.ties += 1
            return
        ctx.disagree("die", case, impl[:400], model[:400], size)
        return
    msecs = model.split(" ; ")
    if any(h[0] == "assign" for h in case.get("history") or []):
        # after `assign_rectangles` the netlist rebuilds its flat list from the modules' own lists, which `create_stog` has
        # reordered (trunk first): the order of the fixed regions within a module is then not the document's — compared as a set
        def canon(sec: str) -> str:
            items = sec.split(" | ")
            return " | ".join(items[:1] + sorted(items[1:]))
        isecs = impl.split(" ; ")
        if len(isecs) >= 5 and len(msecs) >= 5:
            isecs[4], msecs[4] = canon(isecs[4]), canon(msecs[4])
            impl = " ; ".join(isecs)
    m5 = " ; ".join(msecs[:5])
    ok, exact = close_lines(impl, m5, mode, 0.0 if mode == "Q" else 1e-9)
    if not ok:
        ctx.disagree("die", case, impl[:600], m5[:600], size)
        return
    if not exact:
        ctx.drift += 1
    # tolerances in force and class-wide state afterwards (values; threshold-only quantities → approximate in Q)
    try:
        e = [geo.unsc(t, mode) for t in msecs[7].split()]
        st1 = run.st1
        d = run.die
        pairs = [(e[2], d._epsilon if hasattr(d, "_epsilon") else e[2]), (e[3], st1[0]), (e[4], st1[1])]
        for mv, iv in pairs:
            if abs(float(mv) - float(iv)) > 1e-9 * max(abs(float(mv)), abs(float(iv))):
                ctx.disagree("eps", case, [float(x[1]) for x in pairs], [float(x[0]) for x in pairs], size)
                break
    except Exception as ex:  # malformed reply
        ctx.disagree("eps-format", case, str(ex), model[-200:], size)
    flags = msecs[6].rstrip(".") if len(msecs) > 6 else ""
    ctx.extra["picks_checked_for_max_area"] = ctx.extra.get("picks_checked_for_max_area", 0) + len(flags)
    ctx.extra["picks_not_max_area"] = ctx.extra.get("picks_not_max_area", 0) + flags.count("0")


# ------------------------------------------------------------------ validity oracle (exact decimal arithmetic)
def oracle(exact: dict | None, eps_d: Fr, eps_die: Fr, need_merge: bool = False):
    """'valid' | 'invalid' | 'unclear' for a document with well-formed entries; exact = W, H, rects as Fractions."""
    if exact is None:
        return "unclear"
    W, H = exact["W"], exact["H"]
    rects = exact["rects"]  # (x0, y0, x1, y1)
    scale = min(W, H)
    snap, sep = max(W, H) * 2 / 10 ** 15, scale / 10 ** 7
    if not (eps_d < sep / 10):
        return "unclear"
    if need_merge and not eps_d >= snap:
        return "unclear"
    merged = False

    def cluster(vals, hi):
        nonlocal merged
        vs = sorted(set(vals) | {Fr(0), hi})
        rep, cur = {}, None
        for v in vs:
            if cur is not None and v - cur[-1] <= snap:
                cur.append(v)
                merged = True
            else:
                if cur is not None and v - cur[-1] < sep:
                    return None
                cur = [v]
            rep[v] = cur
        out = {}
        for v, cl in rep.items():
            out[v] = Fr(0) if Fr(0) in cl else hi if hi in cl else cl[0]
        return out

    cx = cluster([r[0] for r in rects] + [r[2] for r in rects], W)
    cy = cluster([r[1] for r in rects] + [r[3] for r in rects], H)
    if cx is None or cy is None:
        return "unclear"
    if merged and not (eps_d >= snap):
        return "unclear"
    rs = [(cx[r[0]], cy[r[1]], cx[r[2]], cy[r[3]]) for r in rects]
    for (x0, y0, x1, y1) in rs:
        if not (x0 < x1 and y0 < y1):
            return "unclear"
        if x0 < 0 or y0 < 0 or x1 > W or y1 > H:
            return "invalid"
    xs = sorted(set([Fr(0), W] + [r[0] for r in rs] + [r[2] for r in rs]))
    ys = sorted(set([Fr(0), H] + [r[1] for r in rs] + [r[3] for r in rs]))
    excess = Fr(0)
    for i in range(len(xs) - 1):
        for j in range(len(ys) - 1):
            mx, my = (xs[i] + xs[i + 1]) / 2, (ys[j] + ys[j + 1]) / 2
            k = sum(1 for (x0, y0, x1, y1) in rs if x0 < mx < x1 and y0 < my < y1)
            if k > 1:
                excess += (k - 1) * (xs[i + 1] - xs[i]) * (ys[j + 1] - ys[j])
    if excess == 0:
        return "valid"
    if excess > 2 * eps_die * max(W, H):
        return "invalid"
    return "unclear"


def exact_of(case: dict):
    ex = case.get("exact")
    if ex is None:
        return None
    W, H = Fr(ex["W"]), Fr(ex["H"])
    rects = []
    for r in ex["regions"] + ex["fixed"]:
        cx, cy, w, h = (Fr(v) for v in r[:4])
        rects.append((cx - w / 2, cy - h / 2, cx + w / 2, cy + h / 2))
    return {"W": W, "H": H, "rects": rects}


# ------------------------------------------------------------------ spec on the implementation's output
def spec_on_impl(ctx: Ctx, run: Run, verdict: str) -> None:
    case, mode = run.case, run.case["mode"]
    size = case.get("size", 0)
    if run.impl == "err:Netlist":
        return                       # the netlist was rejected by its own reader (C05): no die to judge
    if run.die is None and run.impl != "err:Assert":
        if case.get("expect") == "text":
            return                   # a string that is neither the shorthand nor YAML text nor a file: the text layer raises
        ctx.spec_fail("operation-raised", case, {"raised": getattr(run, "raised", run.impl)}, size)
        return
    if case.get("expect") == "text":
        ctx.spec_fail("parse_rejects_malformed", case, {"why": case.get("why")}, size)
        return
    if run.die is not None and run.netlist is not None and run.die.netlist is not run.netlist:
        ctx.spec_fail("die_sound:netlist-attribute", case, {}, size)
        return
    if run.die is not None:
        b = run.die.bounding_box
        if (b.center.x, b.center.y, b.shape.w, b.shape.h, b.region, b.fixed, b.hard) != \
                (run.die.width / 2, run.die.height / 2, run.die.width, run.die.height, "_", False, False):
            ctx.spec_fail("die_sound:bounding-box", case, {"box": geo.rect_dict(b)}, size)
            return
    if case.get("expect") == "reject" and run.die is not None:
        ctx.spec_fail("parse_rejects_malformed", case, {"why": case.get("why")}, size)
        return
    if run.die is None:
        if verdict == "valid" and run.impl == "err:Assert":
            ctx.spec_fail("die_complete:valid-document-rejected", case, {"impl": run.impl}, size)
        return
    if verdict == "invalid":
        ctx.spec_fail("die_rejects:invalid-document-accepted", case, {"ground": len(run.die.ground_regions)}, size)
        return
    d = run.die
    W, H = Fr(d.width), Fr(d.height)
    e_die = min(W, H) / 10 ** 11
    st = run.st1
    e_a = Fr(st[1])
    allr = d.specialized_regions + d.ground_regions + d.blockages + d.fixed_regions
    boxes = [bb(r) for r in allr]
    scale = max(W, H)
    fuzz = scale / 10 ** 12
    afuzz = scale * scale / 10 ** 12       # float rounding of the implementation's own area arithmetic
    # inside the die (within the distance tolerance)
    for r, (x0, y0, x1, y1) in zip(allr, boxes):
        if not (x0 >= -e_die - fuzz and y0 >= -e_die - fuzz and x1 <= W + e_die + fuzz and y1 <= H + e_die + fuzz):
            ctx.spec_fail("die_sound:inside", case, {"rect": geo.rect_dict(r)}, size)
            return
        if not (x1 > x0 and y1 > y0):
            ctx.spec_fail("die_sound:positive", case, {"rect": geo.rect_dict(r)}, size)
            return
    # pairwise overlap within the area tolerance
    worst = Fr(0)
    for i in range(len(boxes)):
        for j in range(i + 1, len(boxes)):
            a, b = boxes[i], boxes[j]
            dx = min(a[2], b[2]) - max(a[0], b[0])
            dy = min(a[3], b[3]) - max(a[1], b[1])
            ov = dx * dy if dx > 0 and dy > 0 else Fr(0)
            worst = max(worst, ov)
            if ov > e_a * (1 + Fr(1, 10 ** 6)) + afuzz:
                ctx.spec_fail("die_sound:disjoint", case, {"i": i, "j": j, "overlap": float(ov), "epsA": float(e_a)}, size)
                return
    tot = sum(((x1 - x0) * (y1 - y0) for (x0, y0, x1, y1) in boxes), Fr(0))
    if not abs(tot - W * H) < e_die * scale * (1 + Fr(1, 10 ** 6)) + afuzz:
        ctx.spec_fail("die_sound:area-sum", case, {"sum": float(tot), "die": float(W * H)}, size)
        return
    # input regions reported unchanged, with their tags, in document order; ground rectangles tagged ground
    tree = run.tree
    rl = tree.get("regions", []) if isinstance(tree, dict) else []
    if rl and isinstance(rl[0], (int, float)):
        rl = [rl]
    want_s = [tuple(r) for r in rl if r[4] != "#"]
    want_b = [tuple(r) for r in rl if r[4] == "#"]
    got_s = [(r.center.x, r.center.y, r.shape.w, r.shape.h, r.region) for r in d.specialized_regions]
    got_b = [(r.center.x, r.center.y, r.shape.w, r.shape.h, r.region) for r in d.blockages]
    if want_s != got_s or want_b != got_b:
        ctx.spec_fail("die_sound:regions-unchanged", case, {"specialized": got_s, "blockages": got_b}, size)
        return
    if any(r.fixed or r.hard for r in d.specialized_regions + d.blockages):
        ctx.spec_fail("die_sound:regions-unchanged:flags", case, {}, size)
        return
    fexp = getattr(run, "fixed_expect", case.get("fixed_expect"))
    if fexp is not None:
        # expectation from the generated document (after the object history, if any), not from the Netlist object's flags
        want_f = [tuple(float(Fr(v)) for v in r) for r in fexp]
        got_f = [(float(r.center.x), float(r.center.y), float(r.shape.w), float(r.shape.h)) for r in d.fixed_regions]
        if any(h[0] == "assign" for h in case.get("history") or []):
            want_f, got_f = sorted(want_f), sorted(got_f)      # rebuilt flat list: STOG order within a module
        if want_f != got_f or not all(r.fixed for r in d.fixed_regions):
            ctx.spec_fail("die_sound:fixed-are-the-fixed-modules", case, {"reported": got_f, "expected": want_f}, size)
            return
    else:
        want_f = [geo.rect_dict(r) for r in (run.fixed or [])]
        if [geo.rect_dict(r) for r in d.fixed_regions] != want_f:
            ctx.spec_fail("die_sound:fixed-unchanged", case, {}, size)
            return
    if any(g.region != "_" or g.fixed or g.hard for g in d.ground_regions):
        ctx.spec_fail("die_sound:ground-tag", case, {}, size)
        return
    # a valid document is tiled exactly (up to rounding in the F stream)
    if verdict == "valid":
        t_len = Fr(0) if mode == "Q" else scale / 10 ** 9
        t_area = Fr(0) if mode == "Q" else W * H / 10 ** 9
        for (x0, y0, x1, y1) in boxes:
            if not (x0 >= -t_len and y0 >= -t_len and x1 <= W + t_len and y1 <= H + t_len):
                ctx.spec_fail("die_complete:exact-inside", case, {}, size)
                return
        if worst > t_area:
            ctx.spec_fail("die_complete:exact-disjoint", case, {"overlap": float(worst)}, size)
            return
        if abs(tot - W * H) > t_area:
            ctx.spec_fail("die_complete:exact-area", case, {"sum": float(tot), "die": float(W * H)}, size)
            return


# ------------------------------------------------------------------ generators
Q_FAMS = ["int", "half", "dyadic", "pow2"]
F_FAMS = ["dec", "cent", "third", "scaled", "scaled", "odd"]


def family_step(rng, fam: str) -> Fr:
    if fam == "int":
        return Fr(1)
    if fam == "half":
        return Fr(1, 2)
    if fam == "dyadic":
        return Fr(1, 8)
    if fam == "pow2":
        return Fr(2) ** rng.randint(-10, 20)
    if fam == "dec":
        return Fr(1, 10)
    if fam == "cent":
        return Fr(1, 100)
    if fam == "third":
        return Fr(1, 3)
    if fam == "scaled":
        return Fr(10) ** rng.randint(-4, 5)          # die sizes 1e-3 … 1e6 in 0.1-steps of the scale
    if fam == "odd":
        return rng.choice([Fr(7, 100), Fr(10 ** 6 + 1, 10 ** 2), Fr(123456789, 10 ** 4), Fr(3, 10 ** 5), Fr(1001, 10)])
    raise ValueError(fam)


def lines(rng, n: int, step: Fr, kmax: int = 40) -> list[Fr]:
    ks = sorted(rng.sample(range(1, kmax), n))
    return [Fr(0)] + [k * step for k in ks]


def guillotine(rng, r0, r1, c0, c1, depth):
    """leaves (r0, r1, c0, c1) — half-open index ranges — of a random guillotine partition."""
    can_r, can_c = r1 - r0 > 1, c1 - c0 > 1
    if depth == 0 or not (can_r or can_c) or rng.random() < 0.25:
        return [(r0, r1, c0, c1)]
    if can_r and (not can_c or rng.random() < 0.5):
        k = rng.randint(r0 + 1, r1 - 1)
        return guillotine(rng, r0, k, c0, c1, depth - 1) + guillotine(rng, k, r1, c0, c1, depth - 1)
    k = rng.randint(c0 + 1, c1 - 1)
    return guillotine(rng, r0, r1, c0, k, depth - 1) + guillotine(rng, r0, r1, k, c1, depth - 1)


def scattered(rng, ny, nx, want):
    """random pairwise disjoint index rectangles (pinwheels, holes …)."""
    out, used = [], set()
    for _ in range(want * 4):
        r0, c0 = rng.randrange(ny), rng.randrange(nx)
        r1, c1 = rng.randint(r0 + 1, ny), rng.randint(c0 + 1, nx)
        cells = {(r, c) for r in range(r0, r1) for c in range(c0, c1)}
        if cells & used:
            continue
        used |= cells
        out.append((r0, r1, c0, c1))
        if len(out) >= want:
            break
    return out


def make_case(rng, mode: str, max_cells: int, max_regions: int, allow_netlist=True) -> dict:
    fam = rng.choice(Q_FAMS if mode == "Q" else F_FAMS)
    step = family_step(rng, fam)
    nx, ny = rng.randint(1, max_cells), rng.randint(1, max_cells)
    xs, ys = lines(rng, nx, step), lines(rng, ny, step)
    if rng.random() < 0.5:
        leaves = guillotine(rng, 0, ny, 0, nx, 4)
        rng.shuffle(leaves)
        chosen = [lf for lf in leaves if rng.random() < 0.6][:max_regions]
        shape = "guillotine"
    else:
        chosen = scattered(rng, ny, nx, rng.randint(0, max_regions))
        shape = "scattered"
    regions, fixed = [], []
    for (r0, r1, c0, c1) in chosen:
        x0, x1, y0, y1 = xs[c0], xs[c1], ys[r0], ys[r1]
        ent = [(x0 + x1) / 2, (y0 + y1) / 2, x1 - x0, y1 - y0]
        if allow_netlist and rng.random() < 0.2:
            fixed.append(ent)
        else:
            regions.append(ent + [rng.choice(TAGS)])
    W, H = xs[-1], ys[-1]
    if allow_netlist and rng.random() < 0.2:
        # pin-like fixed squares (FloorSet writes its terminals as 1e-3 fixed squares) in the middle of free cells
        covered = {(r, c) for (r0, r1, c0, c1) in chosen for r in range(r0, r1) for c in range(c0, c1)}
        free_cells = [(r, c) for r in range(ny) for c in range(nx) if (r, c) not in covered]
        rng.shuffle(free_cells)
        for (r, c) in free_cells[:rng.randint(1, 2)]:
            # exact stream: a dyadic fraction of the grid step, so that centre ± side/2 stays exactly representable
            side = step / 2 ** rng.choice([10, 16, 20, 24]) if mode == "Q" else \
                rng.choice([Fr(1, 10 ** 3), Fr(1, 10 ** 5), Fr(1, 10 ** 6), Fr(1, 10 ** 9)])
            cw, ch = xs[c + 1] - xs[c], ys[r + 1] - ys[r]
            if side * 4 < min(cw, ch):
                fixed.append([(xs[c] + xs[c + 1]) / 2, (ys[r] + ys[r + 1]) / 2, side, side])
    hard, soft = [], 0
    if allow_netlist and rng.random() < 0.3:
        # movable macros anywhere (also over blockages / regions / sticking out of the die): irrelevant to the die
        for _ in range(rng.randint(1, 2)):
            c0, r0 = rng.randrange(nx), rng.randrange(ny)
            c1, r1 = rng.randint(c0 + 1, nx), rng.randint(r0 + 1, ny)
            x0, x1, y0, y1 = xs[c0], xs[c1] + (step if rng.random() < 0.3 else 0), ys[r0], ys[r1]
            hard.append([(x0 + x1) / 2, (y0 + y1) / 2, x1 - x0, y1 - y0])
        soft = rng.randint(0, 2)
    kind = "valid"
    u = rng.random()
    if u < 0.30 and (regions or fixed):
        kind = mutate(rng, regions, fixed, W, H, step, mode == "Q")
    return build(rng, mode, fam, shape, kind, W, H, regions, fixed, hard=hard, soft=soft, step=step)


def mutate(rng, regions, fixed, W, H, step, exact_mode=False) -> str:
    """turn a valid layout into one with an overlap / a region leaving the die (by a grid step, or by a sliver)."""
    pool = regions + fixed
    r = rng.choice(pool)
    how = rng.choice(["shift", "grow", "dup", "sliver-grow", "sliver-shift", "shrink"])
    delta = step if not how.startswith("sliver") else step * (Fr(1, 1024) if exact_mode else
                                                              rng.choice([Fr(1, 10 ** 3), Fr(1, 10 ** 6), Fr(1, 10 ** 9), Fr(1, 2 ** 30)]))
    if how in ("shift", "sliver-shift"):
        ax = rng.randrange(2)
        r[ax] += delta * rng.choice([-1, 1])
    elif how in ("grow", "sliver-grow"):
        ax = 2 + rng.randrange(2)
        r[ax] += 2 * delta
    elif how == "shrink":
        ax = 2 + rng.randrange(2)
        if r[ax] > delta:
            r[ax] -= delta / 2
    else:
        cp = list(r[:4]) + [rng.choice(TAGS)]
        regions.append(cp)
    return how


def build(rng, mode, fam, shape, kind, W, H, regions, fixed, pre=None, hard=(), soft=0, step=Fr(1)) -> dict:
    def n(x):
        return num_text(x, rng)

    def tag(t):
        if t == "#":
            return rng.choice(["'#'", '"#"'])
        return rng.choice([t, f"'{t}'", f'"{t}"'])
    ents = ["[" + ", ".join(n(v) for v in r[:4]) + ", " + tag(r[4]) + "]" for r in regions]
    doc = f"width: {n(W)}\nheight: {n(H)}\n"
    if len(ents) == 1 and rng.random() < 0.5:
        doc += "regions: " + ents[0] + "\n"          # single-rectangle shorthand
    elif ents:
        doc += "regions: [" + ", ".join(ents) + "]\n"
    if not ents and rng.random() < 0.15 and not fixed:
        s = f"{n(W)}x{n(H)}"
        if ": " not in s:
            doc = s
    netlist = None
    ftoks = [[n(v) for v in r[:4]] for r in fixed]
    nkind = "none"
    if fixed or hard or soft:
        def rl(tok_lists, allow_short=True):
            if len(tok_lists) == 1 and allow_short and rng.random() < 0.3:
                return "[" + ", ".join(tok_lists[0]) + "]"                  # `rectangles: [x, y, w, h]` (one rectangle on its own)
            return "[" + ", ".join("[" + ", ".join(t) + "]" for t in tok_lists) + "]"
        # fixed modules own 1..3 of the fixed rectangles each (several rectangles per module: trunk/branch or scattered)
        groups, rest = [], list(ftoks)
        while rest:
            k = rng.choice([1, 1, 1, 2, 2, 3])
            groups.append(rest[:k])
            rest = rest[k:]
        mods = [(f"F{i}: {{fixed: true, rectangles: {rl(g)}}}", g) for i, g in enumerate(groups)]
        # movable macros: hard but NOT fixed — they must not show up among the die's fixed regions
        mods += [(f"H{i}: {{hard: true, rectangles: {rl([[n(v) for v in r[:4]]])}}}", None) for i, r in enumerate(hard)]
        for i in range(soft):
            u = rng.random()
            if u < 0.5 or W <= step * 2:
                mods.append((f"S{i}: {{area: {rng.randint(1, 9)}}}", None))
            elif u < 0.8:
                # a soft module with a placed rectangle (anywhere, also over regions): not fixed, irrelevant to the die
                cx, cy = rng.randint(1, 5) * step, rng.randint(1, 5) * step
                mods.append((f"S{i}: {{area: {n(step * step * 4)}, rectangles: [[{n(cx)}, {n(cy)}, {n(step * 2)}, {n(step * 2)}]]}}", None))
            else:
                mods.append((f"S{i}: {{area: {{_: {rng.randint(1, 9)}, dsp: 2}}, center: [{n(W / 2)}, {n(H / 2)}]}}", None))
        if rng.random() < 0.25:
            mods.append((f"T0: {{terminal: true, center: [{n(W)}, {n(H / 2)}]}}", None))
        if rng.random() < 0.15:
            mods.append((f"T1: {{terminal: true, fixed: true, center: [0, {n(H / 2)}]}}", None))   # fixed, but owns no rectangle
        rng.shuffle(mods)
        ftoks = [t for _, g in mods if g is not None for t in g]          # document order = order of `Netlist.rectangles`
        names = [m.split(":")[0] for m, _ in mods]
        nets = []
        for _ in range(rng.randint(0, 2)):
            if len(names) >= 2:
                pins = rng.sample(names, rng.randint(2, min(3, len(names))))
                nets.append("[" + ", ".join(pins + ([str(rng.randint(2, 5))] if rng.random() < 0.4 else [])) + "]")
        body = [m for m, _ in mods]
        nkind = "valid"
        if rng.random() < 0.06:
            # a netlist its own reader rejects: the die is never reached
            how = rng.choice(["hard-overlap", "fixed+hard", "unknown-attribute", "unknown-pin"])
            nkind = how
            if how == "hard-overlap":
                body.append("X0: {hard: true, rectangles: [[1, 1, 2, 2], [1.5, 1, 2, 2]]}")
            elif how == "fixed+hard":
                body.append("X0: {fixed: true, hard: true, rectangles: [[1, 1, 2, 2]]}")
            elif how == "unknown-attribute":
                body.append("X0: {area: 3, colour: 7}")
            else:
                nets.append("[" + names[0] + ", nobody]")
        netlist = "Modules: {" + ", ".join(body) + "}\nNets: [" + ", ".join(nets) + "]\n"
    # the exact decimal reading of the document (fixed rectangles: those of the FIXED modules only)
    ex = exact_from_text(doc, None)
    fexp = [[str(doc_value(t)) for t in toks] for toks in ftoks]
    if ex is not None:
        ex["fixed"] = fexp
    case = {"mode": mode, "doc": doc, "netlist": netlist, "pre": pre, "family": fam, "shape": shape, "kind": kind,
            "size": len(regions) + len(fixed), "exact": ex, "fixed_expect": fexp, "netlist_kind": nkind}
    if ": " in doc and rng.random() < 0.12:
        case["as"] = "tree"                      # `Die(tree, netlist)`: read_yaml hands a list / dict back unchanged
    return case


def history_variants(rng, case: dict) -> list[dict]:
    """object histories on the attached netlist before the die is built (valid layouts with at least one fixed rectangle):
    an earlier die built for the same netlist object, fixed rectangles moved in place, rectangles redefined through
    `Netlist.assign_rectangles` (consistently, or so that two rectangles of a fixed module overlap).  The class-wide tolerance is
    defined beforehand (the netlist does not derive one from rectangles that change afterwards)."""
    if not case.get("netlist") or case.get("netlist_kind") != "valid" or not case.get("fixed_expect") or case["exact"] is None:
        return []
    try:
        tree = read_yaml(case["netlist"])
    except Exception:
        return []
    W, H = float(Fr(case["exact"]["W"])), float(Fr(case["exact"]["H"]))
    e_d = min(W, H) * 10e-12
    base = dict(case, pre=[e_d, math.sqrt(e_d)])
    base.pop("as", None)
    # doc-order index / owner of every rectangle
    flat = []
    for name, info in tree.get("Modules", {}).items():
        rl = _norm_rects(dict(info)) if isinstance(info, dict) else None
        for r in (rl or []):
            flat.append((name, info.get("fixed") is True, r))
    fixed_idx = [k for k, (_, fx, _) in enumerate(flat) if fx]
    if not fixed_idx:
        return []
    out = []
    k = rng.choice(fixed_idx)
    name, _, r = flat[k]
    w, h = float(r[2]), float(r[3])
    dx, dy = rng.choice([(w, 0.0), (-w, 0.0), (0.0, h), (0.0, -h), (w / 2, 0.0), (0.0, -h / 2), (w, h)])
    hist = rng.choice([[["predie"], ["move", k, dx, dy]], [["move", k, dx, dy]], [["predie"], ["move", k, dx, dy], ["predie"]]])
    out.append(dict(base, history=hist, kind="history:move", shape="history"))
    # redefinition through assign_rectangles
    mine = [list(x[2][:4]) for x in flat if x[0] == name]
    u = rng.random()
    if u < 0.4:
        new = [list(x) for x in mine]                                   # the same rectangles again: still valid
        hk = "history:assign-same"
    elif u < 0.7:
        new = [list(mine[0]), [mine[0][0] + float(mine[0][2]) / 2, mine[0][1], mine[0][2], mine[0][3]]]   # two overlapping ones
        hk = "history:assign-overlapping"
    else:
        new = [[mine[0][0], mine[0][1], float(mine[0][2]) / 2, mine[0][3]]]     # a narrower rectangle, same centre: valid
        hk = "history:assign-narrower"
    pre_die = [["predie"]] if rng.random() < 0.5 else []
    out.append(dict(base, history=pre_die + [["assign", name, new]], kind=hk, shape="history"))
    return out


_NUM = r"[-+]?(?:\d+\.?\d*|\.\d+)(?:[eE][-+]?\d+)?"


def exact_from_text(doc: str, netlist: str | None):
    """W, H, regions, fixed as exact decimal values (strings of Fractions) read off the document text."""
    try:
        m = _SHORT.match(doc)
        if m and ": " not in doc:
            return {"W": str(doc_value(m.group(1))), "H": str(doc_value(m.group(2))), "regions": [], "fixed": []}
        W = re.search(r"width: (" + _NUM + ")", doc).group(1)
        H = re.search(r"height: (" + _NUM + ")", doc).group(1)
        regs = []
        for mm in re.finditer(r"\[(" + _NUM + r"), (" + _NUM + r"), (" + _NUM + r"), (" + _NUM + r"), ([^\]]+)\]", doc):
            regs.append([str(doc_value(mm.group(i))) for i in range(1, 5)] + [mm.group(5).strip("'\"")])
        fx = []
        if netlist:
            for mm in re.finditer(r"\[\[(" + _NUM + r"), (" + _NUM + r"), (" + _NUM + r"), (" + _NUM + r")\]\]", netlist):
                fx.append([str(doc_value(mm.group(i))) for i in range(1, 5)])
        return {"W": str(doc_value(W)), "H": str(doc_value(H)), "regions": regs, "fixed": fx}
    except Exception:
        return None


MALFORMED = [
    ("height: 5\nregions: [[1, 1, 1, 1, A]]\n", "missing width"),
    ("width: 5\n", "missing height"),
    ("width: 5\nheight: 4\ndepth: 3\n", "unknown key"),
    ("width: -5\nheight: 4\n", "negative width"),
    ("width: 0\nheight: 4\n", "zero width"),
    ("width: 5\nheight: 0.0\n", "zero height"),
    ("width: abc\nheight: 4\n", "width not a number"),
    ("width: [5]\nheight: 4\n", "width a list"),
    ("width: 5\nheight: null\n", "height null"),
    ("width: 5\nheight: 4\nregions: []\n", "empty region list"),
    ("width: 5\nheight: 4\nregions: 3\n", "regions a number"),
    ("width: 5\nheight: 4\nregions: abc\n", "regions a string"),
    ("width: 5\nheight: 4\nregions: null\n", "regions null"),
    ("width: 5\nheight: 4\nregions: {a: 1}\n", "regions a map"),
    ("width: 5\nheight: 4\nregions: [[1, 1, 1, 1]]\n", "rectangle of 4"),
    ("width: 5\nheight: 4\nregions: [[1, 1, 1, 1, A, B]]\n", "rectangle of 6"),
    ("width: 5\nheight: 4\nregions: [1, 1, 1, 1]\n", "shorthand of 4"),
    ("width: 5\nheight: 4\nregions: [[1, 1, 1, 1, A], 7]\n", "second entry a number"),
    ("width: 5\nheight: 4\nregions: [1, [1, 1, 1, 1, A]]\n", "number then list"),
    ("width: 5\nheight: 4\nregions: [[-1, 1, 1, 1, A]]\n", "negative centre"),
    ("width: 5\nheight: 4\nregions: [[1, 1, 0, 1, A]]\n", "zero width rectangle"),
    ("width: 5\nheight: 4\nregions: [[1, 1, 1, 0.0, A]]\n", "zero height rectangle"),
    ("width: 5\nheight: 4\nregions: [[1, 1, 1, -1, A]]\n", "negative height rectangle"),
    ("width: 5\nheight: 4\nregions: [[1, 1, 1, 1, _]]\n", "ground tag"),
    ("width: 5\nheight: 4\nregions: [1, 1, 1, 1, '_']\n", "ground tag shorthand"),
    ("width: 5\nheight: 4\nregions: [[1, 1, 1, 1, 1a]]\n", "bad identifier"),
    ("width: 5\nheight: 4\nregions: [[1, 1, 1, 1, L1-Cache]]\n", "bad identifier dash"),
    ("width: 5\nheight: 4\nregions: [[1, 1, 1, 1, 7]]\n", "numeric tag"),
    ("width: 5\nheight: 4\nregions: [[1, 1, 1, 1, '']]\n", "empty tag"),
    ("width: 5\nheight: 4\nregions: [[1, 1, 1, 1, '##']]\n", "double hash"),
    ("width: 5\nheight: 4\nregions: [[1, x, 1, 1, A]]\n", "string coordinate"),
    ("width: 5\nheight: 4\nregions: [[1, null, 1, 1, A]]\n", "null coordinate"),
    ("width: 5\nheight: 4\nregions: [[[1], 1, 1, 1, A]]\n", "list coordinate"),
    ("- width: 5\n- height: 4\n", "document is a list"),
    ("width: 5\nheight: 4\n7: 3\n", "numeric key"),
    ("0x5", "shorthand zero width"),
    ("5x-2", "shorthand negative height"),
    ("width: 5\nheight: 4\nregions: [[4, 1, 4, 1, A]]\n", "leaves the die (east)"),
    ("width: 5\nheight: 4\nregions: [[1, 1, 4, 1, A]]\n", "leaves the die (west)"),
    ("width: 5\nheight: 4\nregions: [[1, 1, 2, 2, A], [2, 2, 2, 2, B]]\n", "overlap"),
]

WELLFORMED = [
    "width: true\nheight: 4\n",
    "width: 5\nheight: true\nregions: [0.5, 0.5, 1, true, A]\n",
    "5.5x2",
    "1e1x2.5",
    "width: 5\nheight: 4\nregions: [[1, 1, 2, 2, _x], [4, 3, 2, 2, '#']]\n",
    "width: 5\nheight: 4\nregions: [2.5, 2, 5, 4, '#']\n",
    "width: 5\nheight: 4\nregions: [[2.5, 2, 5, 4, A]]\n",
    "width: 10\nheight: 9\nregions: [[6, 7.5, 4, 1, \"reg1\"], [7, 1.5, 2, 3, \"reg2\"], [3, 3.5, 2, 3, \"#\"]]\n",
    "width: 0.3\nheight: 1\nregions: [0.2, 0.5, 0.2, 1, '#']\n",
    "width: 5.2\nheight: 3.9\nregions: [[0.4, 2.45, 0.8, 2.5, A], [1.15, 2.8, 0.7, 0.4, A], [1.8, 1.65, 0.6, 1.7, A]]\n",
    "width: 3400000.34\nheight: 8000000.8\nregions: [[2100000.21, 6900000.69, 2600000.26, 600000.06, A]]\n",
    "width: 3\nheight: 3\nregions: [[1.5, 1.5, 1, 1, A]]\n",
    "width: 3\nheight: 3\nregions: [[0.5, 1, 1, 2, A], [2, 0.5, 2, 1, B], [2.5, 2, 1, 2, C], [1, 2.5, 2, 1, D]]\n",
]


def corpus(mode: str) -> list[dict]:
    out = []
    for doc, why in MALFORMED:
        c = {"mode": mode, "doc": doc, "netlist": None, "pre": None, "family": "corpus", "shape": "malformed", "kind": why,
             "size": 0, "exact": None, "expect": "reject", "why": why}
        out.append(c)
    for doc in WELLFORMED:
        dyadic = all(Fr(Decimal(t)).denominator & (Fr(Decimal(t)).denominator - 1) == 0 for t in re.findall(_NUM, doc) if t)
        if mode == "Q" and not dyadic:
            continue
        out.append({"mode": mode, "doc": doc, "netlist": None, "pre": None, "family": "corpus", "shape": "corpus",
                    "kind": "valid", "size": doc.count("["), "exact": exact_from_text(doc, None)})
    # every document also as a tree (`Die(dict)`), when it has one
    for c in list(out):
        if ": " in c["doc"]:
            try:
                t = read_yaml(c["doc"])
            except Exception:
                continue
            if isinstance(t, (list, dict)):
                out.append(dict(c, **{"as": "tree"}))
    # strings around the `<w>x<h>` shorthand: accepted by float() in unusual spellings / handed to the text layer
    for doc in [" 5x4", "5 x 4", "1_0x2", "5.5x2 ", "+5x.5", "1e1x2.5"]:
        out.append({"mode": mode, "doc": doc, "netlist": None, "pre": None, "family": "corpus", "shape": "corpus",
                    "kind": "valid", "size": 0, "exact": None})
    for doc in ["5x", "x5", "5x4x3", "5X4", "abc", "x", "5xx4"]:
        out.append({"mode": mode, "doc": doc, "netlist": None, "pre": None, "family": "corpus", "shape": "malformed",
                    "kind": "text", "size": 0, "exact": None, "expect": "text", "why": "neither shorthand nor YAML text nor a file"})
    # an open text stream: read and parsed as YAML (never as the shorthand)
    for doc, exp in [("width: 5\nheight: 4\n", None), ("width: 5\nheight: 4\nregions: [[1, 1, 2, 2, A], ['#']]\n", "reject"),
                     ("5x4", "reject"), ("width: 10\nheight: 9\nregions: [[3, 3.5, 2, 3, \"#\"]]\n", None), ("a: [", "text")]:
        c = {"mode": mode, "doc": doc, "netlist": None, "pre": None, "family": "corpus", "shape": "corpus" if exp is None else "malformed",
             "kind": "valid" if exp is None else "handle:" + exp, "size": 1, "exact": None, "as": "handle"}
        if exp is not None:
            c["expect"], c["why"] = exp, "content of the stream"
        out.append(c)
    # objects that are neither a string, a tree nor a text stream
    for kind in ["none", "number"]:
        out.append({"mode": mode, "doc": "width: 5\nheight: 4\n", "netlist": None, "pre": None, "family": "corpus",
                    "shape": "malformed", "kind": "other-object", "size": 0, "exact": None, "expect": "reject",
                    "why": "stream is a " + kind, "as": kind})
    # dies whose height / width underflows to 0.0: `ZeroDivisionError` in the unused `ratio` of `GroundRegion` until
    # fixes/C01_ground_ratio_zero_division.diff is applied.  Active once the repair is recorded in known_findings.json (or with
    # VERIF_C01_EXTREME=1), so that the check describes the repaired tree and exits 0 on it.
    if mode == "F" and (os.environ.get("VERIF_C01_EXTREME") == "1" or any(str(k.get("id", "")).replace("_", "-") == "C01-ground-ratio-zero-division" for k in load_known())):   # F only: the 30-digit rational sqrt of the Q driver is 0 there
        for doc in ["1e200x1e-200", "width: 1e200\nheight: 1e-200\n", "width: 3e180\nheight: 2.5e-170\n", "1e-200x1e200"]:
            out.append({"mode": mode, "doc": doc, "netlist": None, "pre": None, "family": "corpus", "shape": "corpus",
                        "kind": "valid", "size": 0, "exact": exact_from_text(doc, None)})
    nl = "Modules: {M1: {fixed: true, rectangles: [[2,7,2,2]]}, M2: {fixed: true, rectangles: [[8,5.5,2,1]]}, M3: {area: 10}}\nNets: []\n"
    d7 = "width: 10\nheight: 9\nregions: [[6, 7.5, 4, 1, \"reg1\"], [7, 1.5, 2, 3, \"reg2\"], [3, 3.5, 2, 3, \"#\"]]\n"
    out.append({"mode": mode, "doc": d7, "netlist": nl, "pre": None, "family": "corpus", "shape": "corpus", "kind": "valid",
                "size": 5, "exact": exact_from_text(d7, nl)})
    # the same die with a fixed module of two rectangles (an L), a movable macro over the blockage, a soft module, a net
    nl2 = ("Modules: {H1: {hard: true, rectangles: [[3,3.5,2,3]]}, M1: {fixed: true, rectangles: [[2,7,2,2], [2,5.5,2,1]]}, "
           "S1: {area: 4, rectangles: [[5,5,2,2]]}, M2: {fixed: true, rectangles: [8,5.5,2,1]}}\nNets: [[H1, S1, 2], [M1, M2]]\n")
    out.append({"mode": mode, "doc": d7, "netlist": nl2, "pre": None, "family": "corpus", "shape": "corpus", "kind": "valid",
                "size": 6, "exact": None, "fixed_expect": [["2", "7", "2", "2"], ["2", "11/2", "2", "1"], ["8", "11/2", "2", "1"]]})
    AUDIT4 = {'doc': 'width: 300000.3\nheight: 200000.2\nregions: [[100000.1, 85000.085, 160000.16, 90000.09, "#"], [160000.16, 165000.165, 280000.28, 70000.07, \'#\'], [10000.01, 100000.1, 20000.02, 180000.18, \'#\']]\n', 'netlist': 'Modules: {H0: {hard: true, rectangles: [[160000.16, 65000.065, 280000.28, 130000.13]]}, S1: {area: 400000800.0004, rectangles: [[20000.02, 40000.04, 20000.02, 20000.02]]}, S0: {area: 5}, F0: {fixed: true, rectangles: [240000.24, 20000.02, 120000.12, 40000.04]}, T0: {terminal: true, center: [300000.3, 100000.1]}}\nNets: [[S0, T0], [S1, S0, 4]]\n', 'as': 'tree'}
    if mode == "F":
        # audit 4, row 2: a netlist tolerance (2e-12) below one ulp of the coordinates (5.8e-11): grid lines one ulp apart, sliver
        # ground regions; several index rectangles reproduce a reported region bit for bit (pick translation must search)
        out.append({"mode": mode, "doc": AUDIT4["doc"], "netlist": AUDIT4["netlist"], "pre": None, "family": "corpus",
                    "shape": "corpus", "kind": "sub-ulp-tolerance", "size": 4, "exact": None, "as": AUDIT4["as"]})
    # netlists of terminals only (no rectangle, no area): no tolerance proposed, no fixed region
    for nlp in ["Modules: {T: {terminal: true, center: [1, 1]}}\nNets: []\n",
                "Modules: {P0: {terminal: true}, P1: {terminal: true, fixed: true, center: [0, 2]}}\nNets: [[P0, P1]]\n"]:
        for dd in ["4x4", d7]:
            out.append({"mode": mode, "doc": dd, "netlist": nlp, "pre": None, "family": "corpus", "shape": "corpus",
                        "kind": "valid", "size": 1, "exact": exact_from_text(dd, None) if dd != "4x4" else None,
                        "fixed_expect": []})
    # netlists rejected by their own reader: the die is never constructed
    for bad in ["Modules: {M1: {fixed: true, rectangles: [[2,7,2,2], [3,7,2,2]]}}\n",
                "Modules: {M1: {fixed: true, hard: true, rectangles: [[2,7,2,2]]}}\n",
                "Modules: {M1: {area: 3}}\nNets: [[M1, M9]]\n"]:
        out.append({"mode": mode, "doc": d7, "netlist": bad, "pre": None, "family": "corpus", "shape": "corpus",
                    "kind": "netlist-rejected", "size": 3, "exact": None})
    return out


def exhaustive_3x3(mode: str) -> list[dict]:
    """all dies on a 3×3 Hanan grid with ≤ 3 regions (any index rectangles, overlapping ones included)."""
    xs = [Fr(0), Fr(1), Fr(2), Fr(3)] if mode == "Q" else [Fr(0), Fr(1, 10), Fr(2, 10), Fr(3, 10)]
    rects = [(r0, r1, c0, c1) for r0 in range(3) for r1 in range(r0 + 1, 4) for c0 in range(3) for c1 in range(c0 + 1, 4)]
    out = []
    tags = ["A", "#", "B"]
    for k in range(0, 4):
        for combo in itertools.combinations(rects, k):
            ents = []
            for t, (r0, r1, c0, c1) in zip(tags, combo):
                x0, x1, y0, y1 = xs[c0], xs[c1], xs[r0], xs[r1]
                ents.append("[" + ", ".join(dec(v) for v in ((x0 + x1) / 2, (y0 + y1) / 2, x1 - x0, y1 - y0)) + f", '{t}']")
            doc = f"width: {dec(xs[3])}\nheight: {dec(xs[3])}\n" + ("regions: [" + ", ".join(ents) + "]\n" if ents else "")
            out.append({"mode": mode, "doc": doc, "netlist": None, "pre": None, "family": "lattice3", "shape": "exhaustive",
                        "kind": "any", "size": k, "exact": exact_from_text(doc, None)})
    return out


# ------------------------------------------------------------------ driver
def verdict_of(run: Run) -> str:
    case = run.case
    if case.get("expect") == "reject" or case.get("exact") is None:
        return "unclear"
    ex = exact_of(dict(case, exact=run.exact) if getattr(run, "exact", None) is not None else case)
    if ex is None:
        return "unclear"
    W, H = ex["W"], ex["H"]
    e_die = min(W, H) / 10 ** 11
    e_d = Fr(run.st0[0]) if run.st0 is not None else e_die
    if run.st0 is not None:
        # a class-wide tolerance defined earlier (netlist / caller): the oracle only speaks when it is of the die's order
        if not (e_d <= 10 * e_die):
            return "unclear"
        if Fr(run.st0[1]) > 10 * Fr(math.sqrt(float(e_die))):
            return "unclear"
    if case["mode"] == "F":
        # binary rounding makes coordinates that coincide in the document differ by a few ulp: the oracle speaks only when
        # the tolerances in force are above that noise
        e_a = Fr(run.st0[1]) if run.st0 is not None else Fr(math.sqrt(float(e_die)))
        if e_a < max(W, H) ** 2 * 45 / 10 ** 17:
            return "unclear"
    return oracle(ex, e_d, e_die, need_merge=case["mode"] == "F")


def process(ctx: Ctx, cases: list[dict]) -> None:
    runs = []
    for case in cases:
        try:
            run = Run(case)
        except Unserialisable:
            continue
        except InfiniteTolerance:
            ctx.spec_fail("die_complete:netlist-installs-infinite-tolerance", case,
                          {"why": "Netlist(...) of terminals only set the class-wide tolerance to inf; every die built for it is rejected"},
                          case.get("size", 0))
            continue
        runs.append(run)
    # round 1: the model's grid for every accepted document (to translate ground rectangles into picks) — computed by the
    # model from the DOCUMENTS (die source + netlist document)
    idx = [i for i, r in enumerate(runs) if r.die is not None]
    grids = ctx.model([f"{runs[i].case['mode']} cgrid {runs[i].head2}" for i in idx])
    reqs, old_reqs, old_idx = [], [], []
    if grids is not None:
        gmap = dict(zip(idx, grids))
        for i, r in enumerate(runs):
            mode = r.case["mode"]
            p = picks_from(r, gmap[i]) if r.die is not None else None
            reqs.append(f"{mode} construct {r.head2} " + ("-" if p is None else "P " + p))
            # the older entry (die tree + the implementation's fixed rectangles): a quarter of the cases and the corpus
            if r.head is not None and (i % 4 == 0 or r.case["family"] == "corpus"):
                old_idx.append(i)
                old_reqs.append(f"{mode} model {r.head}" if p is None else f"{mode} accept {r.head} {p}")
    replies = ctx.model(reqs) if grids is not None else None
    old_replies = dict(zip(old_idx, ctx.model(old_reqs) or [])) if (grids is not None and old_reqs) else {}
    for i, r in enumerate(runs):
        case = r.case
        v = verdict_of(r)
        spec_on_impl(ctx, r, v)
        if replies is not None:
            compare(ctx, r, replies[i], v)
            if i in old_replies:
                compare(ctx, r, old_replies[i], v)
                ctx.count("entry:dieModel-also")
        nontrivial = r.die is not None or case.get("expect") in ("reject", "text") or v == "invalid" or r.impl == "err:Netlist"
        ctx.case(case["mode"], (case["doc"], case["netlist"], case["pre"], case.get("as", "str")), nontrivial,
                 sample={"doc": case["doc"], "netlist": case["netlist"], "impl": r.impl, "oracle": v,
                         "ground": None if r.die is None else len(r.die.ground_regions)})
        ctx.count("family:" + case["family"])
        ctx.count("kind:" + str(case["kind"] if case["shape"] != "malformed" else "malformed"))
        ctx.count("oracle:" + v)
        ctx.count("impl:" + ("accepted" if r.die is not None else "rejected" if r.impl != "err:Netlist" else "netlist-rejected"))
        ctx.count("source:" + case.get("as", "str"))
        if case.get("history"):
            ctx.count("history:" + "+".join(h[0] for h in case["history"]))
        if case["netlist"]:
            ctx.count("with-netlist")
            if r.die is not None and r.fixed:
                ctx.count("with-netlist:fixed-rectangles>0")
            if case.get("pre") is not None:
                ctx.count("with-netlist:tolerance-defined-before")
    if replies is None:
        ctx.notes.append("model driver unavailable: correspondence not run")


def aux_ops(ctx: Ctx, n: int) -> None:
    """`gather_boundaries` (public) and Python's float `sum()` against the model, directly."""
    rng = ctx.rng
    reqs, todo = [], []
    for k in range(n):
        mode = "Q" if k % 2 == 0 else "F"
        fam = rng.choice(geo.EXACT_FAMILIES if mode == "Q" else geo.FLOAT_FAMILIES)
        rs = [geo.rand_rect(rng, fam) for _ in range(rng.randint(1, 5))]
        eps = rng.choice([0.0, 1e-9, 0.125, 0.5, 1e-12])
        ginp = {"op": "gather", "mode": mode, "eps": eps, "rects": [geo.rect_dict(r) for r in rs]}
        Rectangle.set_epsilon(eps)
        try:
            x, y = gather_boundaries(rs)
        except Exception as e:
            ctx.spec_fail("operation-raised", ginp, {"raised": repr(e)[:300]}, 1)
            continue
        finally:
            Rectangle.undefine_epsilon()
        impl = f"{len(x)}" + "".join(" " + sc(v, mode) for v in x) + f" ; {len(y)}" + "".join(" " + sc(v, mode) for v in y)
        reqs.append(f"{mode} gather {sc(eps, mode)} {len(rs)}" + "".join(" " + rect_in(r, mode) for r in rs))
        todo.append(("gather", ginp, impl, mode))
        ctx.case(mode, ("gather", impl), True)
    for k in range(n):
        m = rng.randint(0, 12)
        scale = 10.0 ** rng.randint(-8, 12)
        vals = [rng.choice([rng.uniform(0, 1) * scale, rng.uniform(0, 1), rng.randint(1, 99) / 10, 1e16 * rng.random(), 0.1, 1e-9 * rng.random()])
                * rng.choice([1, 1, 1, -1]) for _ in range(m)]
        impl = f2hex(float(sum(float(v) for v in vals)))
        reqs.append(f"F pysum {len(vals)}" + "".join(" " + f2hex(v) for v in vals))
        todo.append(("pysum", {"op": "pysum", "vals": vals}, impl, "F"))
        ctx.case("F", ("pysum", impl), m > 1)
    replies = ctx.model(reqs)
    if replies is None:
        return
    for (op, inp, impl, mode), rep in zip(todo, replies):
        if impl != rep:
            ok, _ = close_lines(impl, rep, mode, 0.0 if mode == "Q" or op == "gather" else 1e-12)
            if ok:
                ctx.drift += 1
                continue
            ctx.disagree(op, inp, impl, rep, size=1)
        ctx.count("op:" + op)


def pinwheel_case(rng) -> dict:
    """small integer-lattice die with 2–4 small regions off the axes, not touching the border or each other: free space with
    interior cells and pinwheel-like arrangements around the obstacles (valid by construction)."""
    W, H = rng.randint(6, 10), rng.randint(6, 10)
    k, rs = rng.randint(2, 4), []
    for _ in range(20):
        w, h = rng.choice([1, 1, 2]), rng.choice([1, 1, 2])
        x0, y0 = rng.randint(1, W - 1 - w), rng.randint(1, H - 1 - h)
        if all(x0 > a + c or a > x0 + w or y0 > b + d or b > y0 + h for (a, b, c, d) in rs):
            rs.append((x0, y0, w, h))
        if len(rs) >= k:
            break
    ents = [f"[{dec(Fr(2 * x0 + w, 2))}, {dec(Fr(2 * y0 + h, 2))}, {w}, {h}, {rng.choice(['A', 'dsp', chr(39) + '#' + chr(39)])}]"
            for (x0, y0, w, h) in rs]
    doc = f"width: {W}\nheight: {H}\nregions: [" + ", ".join(ents) + "]\n"
    return {"mode": "Q", "doc": doc, "netlist": None, "pre": None, "family": "int", "shape": "pinwheel", "kind": "valid",
            "size": len(rs), "exact": exact_from_text(doc, None), "fixed_expect": []}


def count_all_free(cells) -> int:
    """number of non-empty index rectangles all of whose cells are free (what `cands_complete` proves the candidate set is)."""
    nr = len(cells)
    nc = len(cells[0]) if nr else 0
    cnt = 0
    for r0 in range(nr):
        for c0 in range(nc):
            cmax = nc
            for r1 in range(r0, nr):
                c = c0
                while c < cmax and not cells[r1][c]:
                    c += 1
                cmax = c
                if cmax == c0:
                    break
                cnt += cmax - c0
    return cnt


def light(ctx: Ctx, cases: list[dict]) -> None:
    """implementation only (no model run): a valid die must be accepted and tiled exactly; if the candidate enumeration is
    reachable it is compared with the proved characterisation (recorded, not binding: the member is private)."""
    for case in cases:
        if len(_TIMEOUTS) >= 3:
            return
        size = case["size"]
        Rectangle.undefine_epsilon()
        try:
            with time_limit(20):
                d = Die(case["doc"])
        except AssertionError:
            ctx.spec_fail("die_complete:valid-document-rejected", case, {"impl": "err:Assert"}, size)
            ctx.case("Q", case["doc"], True)
            continue
        except Exception as e:
            if isinstance(e, TimeoutError):
                _TIMEOUTS.append(1)
            ctx.spec_fail("operation-raised", case, {"raised": repr(e)[:300]}, size)
            continue
        finally:
            Rectangle.undefine_epsilon()
        allr = d.specialized_regions + d.ground_regions + d.blockages + d.fixed_regions
        tot = sum((Fr(r.shape.w) * Fr(r.shape.h) for r in allr), Fr(0))
        if tot != Fr(d.width) * Fr(d.height) or len(d.specialized_regions) + len(d.blockages) != size:
            ctx.spec_fail("die_complete:exact-area", case, {"sum": float(tot)}, size)
        try:   # optional observation point
            Rectangle.set_epsilon(min(d.width, d.height) * 10e-12)
            d._calculate_cell_matrix()
            # `_cell_inside_rectangle` (a helper no caller uses): the matrix entry is "the cell lies in some region" (model: `occ`)
            regs = d.specialized_regions + d.blockages + d.fixed_regions
            if len(d._cells) * len(d._cells[0]) <= 36:
                for j in range(len(d._cells)):
                    for i in range(len(d._cells[0])):
                        if d._cells[j][i] != any(d._cell_inside_rectangle(i, j, r) for r in regs):
                            ctx.extra["cell_matrix_differs_from_cell_inside_rectangle"] = \
                                ctx.extra.get("cell_matrix_differs_from_cell_inside_rectangle", 0) + 1
            want = count_all_free(d._cells)
            got = len(d._find_all_ground_rectangles())
            ctx.extra["candidate_sets_compared"] = ctx.extra.get("candidate_sets_compared", 0) + 1
            if got != want:
                ctx.extra["candidate_set_differs_from_all_free_rectangles"] = \
                    ctx.extra.get("candidate_set_differs_from_all_free_rectangles", 0) + 1
        except Exception:
            pass
        finally:
            Rectangle.undefine_epsilon()
        ctx.case("Q", case["doc"], True)
        ctx.count("family:pinwheel")


def run(ctx: Ctx) -> None:
    ctx.rule = ("YAML die documents built from a random Hanan grid (1–6 lines per axis quick, 1–10 thorough) whose cells are "
                "grouped by a random guillotine partition or by randomly scattered disjoint index rectangles (touching regions, "
                "T-junctions, enclosed holes, border contact by construction), leaves becoming tagged regions, blockages, fixed "
                "rectangles of an attached netlist, or ground; 30% are then made invalid (shift / grow / duplicate by a grid step or "
                "by a sliver); coordinate families int, halves, eighths, powers of two (Q stream) and 0.1 / 0.01 steps, thirds, "
                "scales 1e-3…1e6, odd decimals (F stream); plus a corpus of malformed and hand-written documents and 10% runs with a "
                "class-wide tolerance defined beforehand; OBJECT HISTORIES on the attached netlist before the die is built (an earlier die for the same "
                "netlist object, fixed rectangles moved in place, rectangles redefined through assign_rectangles — consistently or "
                "overlapping), judged against the document that describes the netlist after the history.  Non-trivial = accepted by the implementation, or malformed, or clearly invalid.")
    rng = ctx.rng
    quick = ctx.tier == "quick"
    _TIMEOUTS.clear()
    cases = corpus("Q") + corpus("F")
    n = ctx.n(2000, 20000)
    max_cells, max_regions = (6, 8) if quick else (10, 20)
    for i in range(n):
        mode = "Q" if i % 2 == 0 else "F"
        c = make_case(rng, mode, max_cells if rng.random() < 0.8 else 3, max_regions)
        if rng.random() < 0.1:
            ex = exact_of(c)
            sc_ = float(min(ex["W"], ex["H"])) if ex else 1.0
            c["pre"] = rng.choice([[0.0], [0.0, 0.0], [sc_ * 1e-11], [sc_ * 1e-12, 0.0], [sc_ * 1e-9], [sc_ * 2.0 ** -20, sc_ * 2.0 ** -20],
                                   [sc_ * 0.25], [sc_ * 1e-11, sc_ * sc_ * 1e-9]])
        cases.append(c)
        if c["kind"] == "valid" and rng.random() < 0.35:
            cases += history_variants(rng, c)
    if not quick and ctx.budget <= 1.0:
        ex = exhaustive_3x3("Q") + exhaustive_3x3("F")
        ctx.extra["exhaustive_3x3_dies"] = len(ex)
        cases += ex
    pin = [pinwheel_case(rng) for _ in range(ctx.n(1500, 15000))]
    cases += pin[::15]                       # a sample of them also goes through the model
    process(ctx, cases)
    light(ctx, pin)
    aux_ops(ctx, ctx.n(150, 3000))
    ctx.assumptions = [
        "exact-arithmetic theorems: the float behaviour of accept/reject is searched (F stream, validity oracle), not proved",
        "die_complete assumes distinct boundary coordinates differ by more than the distance tolerance in force (Separated)",
        "the class-wide Rectangle tolerance is changed only through set_epsilon / undefine_epsilon",
        "document numbers are ints below 2^53 or finite floats; areas are summed as floats",
    ]


def replay(ctx: Ctx, body: dict) -> None:
    inp = body["input"]
    if inp.get("op") in ("gather", "pysum"):
        ctx.notes.append("auxiliary op replay: rerun ./check C01")
        if inp["op"] == "pysum":
            vals = inp["vals"]
            impl = f2hex(float(sum(float(v) for v in vals)))
            rep = ctx.model([f"F pysum {len(vals)}" + "".join(" " + f2hex(v) for v in vals)])
            if rep and rep[0] != impl:
                ctx.disagree("pysum", inp, impl, rep[0], 1)
        else:
            rs = [geo.mk_rect(d["cx"], d["cy"], d["w"], d["h"], d["region"], d["fixed"], d["hard"]) for d in inp["rects"]]
            mode = inp["mode"]
            Rectangle.set_epsilon(inp["eps"])
            try:
                x, y = gather_boundaries(rs)
            except Exception as e:
                ctx.spec_fail("operation-raised", inp, {"raised": repr(e)[:300]}, 1)
                return
            finally:
                Rectangle.undefine_epsilon()
            impl = f"{len(x)}" + "".join(" " + sc(v, mode) for v in x) + f" ; {len(y)}" + "".join(" " + sc(v, mode) for v in y)
            rep = ctx.model([f"{mode} gather {sc(inp['eps'], mode)} {len(rs)}" + "".join(" " + rect_in(r, mode) for r in rs)])
            if rep and rep[0] != impl:
                ctx.disagree("gather", inp, impl, rep[0], 1)
        return
    if inp.get("shape") == "pinwheel":
        light(ctx, [inp])
    process(ctx, [inp])

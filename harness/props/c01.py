"""C01 — Die decomposition is an exact tiling of the die.

Correspondence: the public entry `Die(text, netlist)` of the repository vs the Lean model `FV/Model/Die.lean`
(`dieModel`), on generated YAML documents.  The order of `die.ground_regions` is the pick trace of the greedy cover;
it is mapped to index rectangles on the model's own Hanan grid (op `grid`) and fed to the model's relational cover
(op `accept`); for documents the implementation rejects, the model runs its deterministic cover (op `model`).
  * Q stream: dyadic coordinates (exact in binary floating point) — model at `Rat`, full region lists compared exactly;
  * F stream: decimal grids (0.1 steps, thirds, scales 1e-3 … 1e6) — model at `Float`, verdicts and regions to 1e-9.
Spec on the implementation: the `Tiling` clauses of `FV/Props/C01.lean` evaluated with `fractions.Fraction` on what the
implementation reports, plus a validity oracle computed in exact decimal arithmetic on the DOCUMENT: a document that
is valid but rejected, or clearly invalid but accepted, is a violation.
"""
from __future__ import annotations

import itertools
import math
import re
import signal
from decimal import Decimal
from fractions import Fraction as Fr

from vcheck import Ctx, f2hex, hex2f, q2s
import geo
from geo import sc, rect_in, bb
from frame.die.die import Die
from frame.geometry.geometry import Rectangle, gather_boundaries
from frame.netlist.netlist import Netlist
from frame.utils.utils import read_yaml

LEVEL = "proof"
DRIVERS = ["drv_die"]
TRUSTED = [
    "Lean 4.33 kernel; Mathlib lemmas; axioms ⊆ {propext, Classical.choice, Quot.sound}",
    "hand-written model FV/Model/Die.lean — fidelity to frame/die/die.py, yaml_parse_die.py, gather_boundaries checked by "
    "this correspondence run (including CPython's compensated float sum()), not proved",
    "YAML text → tree (ruamel.yaml, `<w>x<h>` shorthand) and Netlist → fixed rectangles are taken from the implementation",
    "theorems are over exact ordered fields; IEEE rounding is executed (F stream) and searched (validity oracle), never proved",
    "math.sqrt is a parameter of the model (Float.sqrt in the F stream, the implementation's answer in the Q stream)",
    "harness (Python) and compiled Lean driver: serialisation, mapping of ground rectangles to grid indices, comparison",
]

TAGS = ["A", "dsp", "BRAM", "#", "#", "reg_1"]


# ------------------------------------------------------------------ formatting of exact numbers
def dec(x: Fr) -> str | None:
    """exact decimal string of a Fraction whose denominator divides a power of ten (else None)."""
    d = x.denominator
    k = 0
    while d % 10 == 0:
        d //= 10
        k += 1
    while d % 2 == 0:
        d //= 2
        k += 1
    while d % 5 == 0:
        d //= 5
        k += 1
    if d != 1:
        return None
    q = Decimal(x.numerator) / Decimal(x.denominator) if k <= 25 else None
    if q is None:
        return None
    s = format(q, "f")
    return s


def num_text(x: Fr, rng) -> str:
    s = dec(x)
    if s is None or len(s) > 24:
        return repr(float(x))
    if "." not in s and rng.random() < 0.3:
        s += ".0"
    return s


def doc_value(s: str) -> Fr:
    """the exact value a number token of the document denotes (decimal arithmetic)."""
    return Fr(Decimal(s))


# ------------------------------------------------------------------ tree serialisation
_SAFE = re.compile(r"^[!-~]+$")


class Unserialisable(Exception):
    pass


def ser_tree(t, mode: str) -> str:
    if isinstance(t, bool):
        return "n " + sc(1 if t else 0, mode)
    if isinstance(t, (int, float)):
        if isinstance(t, float) and not math.isfinite(t):
            raise Unserialisable()
        return "n " + sc(t, mode)
    if t is None:
        return "z"
    if isinstance(t, str):
        if t == "":
            return "e"
        if not _SAFE.match(t):
            raise Unserialisable()
        return "s " + t
    if isinstance(t, (list, tuple)):
        return f"l {len(t)}" + "".join(" " + ser_tree(x, mode) for x in t)
    if isinstance(t, dict):
        out = f"m {len(t)}"
        for k, v in t.items():
            if isinstance(k, str) and k != "" and _SAFE.match(k) and not k.startswith("~"):
                ks = k
            elif k == "":
                ks = "~e"
            else:
                ks = "~k"
            out += " " + ks + " " + ser_tree(v, mode)
        return out
    raise Unserialisable()


_SHORT = re.compile(r"^([0-9.eE+-]+)x([0-9.eE+-]+)$")


def doc_tree(text: str):
    """what `parse_yaml_die` sees: the `<w>x<h>` shorthand is the tree {width, height}."""
    m = _SHORT.match(text)
    if m and ": " not in text:
        return {"width": float(m.group(1)), "height": float(m.group(2))}
    return read_yaml(text)


# ------------------------------------------------------------------ running the implementation
def set_state(pre) -> None:
    Rectangle.undefine_epsilon()
    if pre is not None:
        if len(pre) == 1:
            Rectangle.set_epsilon(pre[0])
        else:
            Rectangle.set_epsilon(pre[0], pre[1])


def get_state():
    if not Rectangle.epsilon_defined():
        return None
    return (Rectangle.distance_epsilon(), Rectangle.area_epsilon())


def state_tok(st, mode: str) -> str:
    return "u" if st is None else f"d {sc(st[0], mode)} {sc(st[1], mode)}"


def rects_str(rs, mode: str) -> str:
    return str(len(rs)) + "".join(" | " + rect_in(r, mode) + " X" for r in rs)


_TIMEOUTS: list[int] = []


class time_limit:
    """a run-away loop in the implementation becomes an exception (reported as `operation-raised`), not a hung check."""

    def __init__(self, seconds: int):
        self.seconds = seconds

    def _fire(self, *_):
        raise TimeoutError(f"no result after {self.seconds} s")

    def __enter__(self):
        self.old = signal.signal(signal.SIGALRM, self._fire)
        signal.alarm(self.seconds)

    def __exit__(self, *exc):
        signal.alarm(0)
        signal.signal(signal.SIGALRM, self.old)
        return False


class Run:
    """one execution of the implementation."""

    def __init__(self, case: dict):
        if len(_TIMEOUTS) >= 3:
            raise Unserialisable()   # the implementation loops: three reports are enough, do not burn the budget
        self.case = case
        mode = case["mode"]
        set_state(case.get("pre"))
        self.netlist = None
        self.fixed = []
        self.die = None
        self.err = None
        try:
            if case.get("netlist"):
                try:
                    self.netlist = Netlist(case["netlist"])
                    self.fixed = list(self.netlist.fixed_rectangles())
                except Exception:
                    raise Unserialisable()       # the netlist itself is rejected: not a die question (C05)
            self.st0 = get_state()
            try:
                self.tree = doc_tree(case["doc"])
            except Unserialisable:
                raise
            except Exception:
                raise Unserialisable()           # not YAML: text layer, outside the model
            try:
                with time_limit(20):
                    self.die = Die(case["doc"], self.netlist)
                self.impl = "ok"
            except AssertionError:
                self.impl = "err:Assert"
            except Exception as e:  # not modelled: reported as `operation-raised`
                self.impl = "err:" + type(e).__name__
                self.raised = repr(e)[:300]
                if isinstance(e, TimeoutError):
                    _TIMEOUTS.append(1)
            self.st1 = get_state()
        finally:
            Rectangle.undefine_epsilon()
        # the square root the constructor would ask libm for (Q stream: the model cannot compute it)
        sq = 0.0
        try:
            w, h = self.tree["width"], self.tree["height"]
            if isinstance(w, (int, float)) and isinstance(h, (int, float)) and w > 0 and h > 0:
                sq = math.sqrt(min(w, h) * 10e-12)
        except Exception:
            pass
        self.head = f"{state_tok(self.st0, mode)} {sc(sq, mode)} {ser_tree(self.tree, mode)} " \
                    f"{len(self.fixed)}" + "".join(" " + rect_in(r, mode) for r in self.fixed)

    def impl_line(self) -> str:
        if self.die is None:
            return self.impl
        d, mode = self.die, self.case["mode"]
        return f"ok {sc(d.width, mode)} {sc(d.height, mode)} ; {rects_str(d.specialized_regions, mode)} ; " \
               f"{rects_str(d.ground_regions, mode)} ; {rects_str(d.blockages, mode)} ; {rects_str(d.fixed_regions, mode)}"


def span_of(vals: list, centre, width) -> tuple[int, int]:
    """indices (i, j), i < j, of the grid lines whose span has this centre and width — the implementation's own
    formulas `(x[i] + x[j]) / 2`, `x[j] - x[i]` are used, so an unchanged implementation matches exactly even when
    neighbouring lines are one ulp apart; otherwise the closest span."""
    best, bij = None, (0, 1)
    for i in range(len(vals)):
        for j in range(i + 1, len(vals)):
            dlt = abs((vals[i] + vals[j]) / 2 - centre) + abs((vals[j] - vals[i]) - width)
            if best is None or dlt < best:
                best, bij = dlt, (i, j)
                if dlt == 0:
                    return bij
    return bij


def picks_from(run: Run, grid_reply: str) -> str | None:
    """ground rectangles → index rectangles on the model's grid."""
    if not grid_reply.startswith("ok "):
        return None
    mode = run.case["mode"]
    secs = grid_reply[3:].split(" ; ")
    xs = [geo.unsc(t, mode) for t in secs[0].split()[1:]]
    ys = [geo.unsc(t, mode) for t in secs[1].split()[1:]]
    if len(xs) < 2 or len(ys) < 2:
        return None if run.die.ground_regions else "0"
    conv = float if mode == "F" else Fr
    out = []
    for g in run.die.ground_regions:
        c0, c1 = span_of(xs, conv(g.center.x), conv(g.shape.w))
        r0, r1 = span_of(ys, conv(g.center.y), conv(g.shape.h))
        out.append(f"{r0} {r1 - 1} {c0} {c1 - 1}")
    return f"{len(out)}" + "".join(" " + p for p in out)


# ------------------------------------------------------------------ comparison of reply lines
def close_lines(a: str, b: str, mode: str, tol: float) -> tuple[bool, bool]:
    if a == b:
        return True, True
    ta, tb = a.split(), b.split()
    if len(ta) != len(tb):
        return False, False
    for x, y in zip(ta, tb):
        if x == y:
            continue
        try:
            fx, fy = (hex2f(x), hex2f(y)) if mode == "F" else (Fr(x), Fr(y))
        except Exception:
            return False, False
        if mode == "F" and (len(x) != 16 or len(y) != 16):
            return False, False
        scale = max(abs(float(fx)), abs(float(fy)))
        if abs(float(fx) - float(fy)) > tol * scale:
            return False, False
    return True, False


def compare(ctx: Ctx, run: Run, model: str, verdict) -> None:
    case, mode = run.case, run.case["mode"]
    impl = run.impl_line()
    size = case.get("size", 0)
    m_ok, i_ok = model.startswith("ok "), impl.startswith("ok ")
    if not (m_ok and i_ok):
        if model == impl:
            return
        kinds = {"ok" if m_ok else model, "ok" if i_ok else impl}
        if mode == "F" and verdict == "unclear" and kinds == {"ok", "err:Assert"}:
            # accept/reject differs on a document that sits on a tolerance threshold: rounding tie, outside the property
            ctx.ties += 1
            return
        ctx.disagree("die", case, impl[:400], model[:400], size)
        return
    msecs = model.split(" ; ")
    m5 = " ; ".join(msecs[:5])
    ok, exact = close_lines(impl, m5, mode, 0.0 if mode == "Q" else 1e-9)
    if not ok:
        ctx.disagree("die", case, impl[:600], m5[:600], size)
        return
    if not exact:
        ctx.drift += 1
    # tolerances in force and class-wide state afterwards (values; threshold-only quantities → approximate in Q)
    try:
        e = [geo.unsc(t, mode) for t in msecs[7].split()]
        st1 = run.st1
        d = run.die
        pairs = [(e[2], d._epsilon if hasattr(d, "_epsilon") else e[2]), (e[3], st1[0]), (e[4], st1[1])]
        for mv, iv in pairs:
            if abs(float(mv) - float(iv)) > 1e-9 * max(abs(float(mv)), abs(float(iv))):
                ctx.disagree("eps", case, [float(x[1]) for x in pairs], [float(x[0]) for x in pairs], size)
                break
    except Exception as ex:  # malformed reply
        ctx.disagree("eps-format", case, str(ex), model[-200:], size)
    flags = msecs[6].rstrip(".") if len(msecs) > 6 else ""
    ctx.extra["picks_checked_for_max_area"] = ctx.extra.get("picks_checked_for_max_area", 0) + len(flags)
    ctx.extra["picks_not_max_area"] = ctx.extra.get("picks_not_max_area", 0) + flags.count("0")


# ------------------------------------------------------------------ validity oracle (exact decimal arithmetic)
def oracle(exact: dict | None, eps_d: Fr, eps_die: Fr, need_merge: bool = False):
    """'valid' | 'invalid' | 'unclear' for a document with well-formed entries; exact = W, H, rects as Fractions."""
    if exact is None:
        return "unclear"
    W, H = exact["W"], exact["H"]
    rects = exact["rects"]  # (x0, y0, x1, y1)
    scale = min(W, H)
    snap, sep = max(W, H) * 2 / 10 ** 15, scale / 10 ** 7
    if not (eps_d < sep / 10):
        return "unclear"
    if need_merge and not eps_d >= snap:
        return "unclear"
    merged = False

    def cluster(vals, hi):
        nonlocal merged
        vs = sorted(set(vals) | {Fr(0), hi})
        rep, cur = {}, None
        for v in vs:
            if cur is not None and v - cur[-1] <= snap:
                cur.append(v)
                merged = True
            else:
                if cur is not None and v - cur[-1] < sep:
                    return None
                cur = [v]
            rep[v] = cur
        out = {}
        for v, cl in rep.items():
            out[v] = Fr(0) if Fr(0) in cl else hi if hi in cl else cl[0]
        return out

    cx = cluster([r[0] for r in rects] + [r[2] for r in rects], W)
    cy = cluster([r[1] for r in rects] + [r[3] for r in rects], H)
    if cx is None or cy is None:
        return "unclear"
    if merged and not (eps_d >= snap):
        return "unclear"
    rs = [(cx[r[0]], cy[r[1]], cx[r[2]], cy[r[3]]) for r in rects]
    for (x0, y0, x1, y1) in rs:
        if not (x0 < x1 and y0 < y1):
            return "unclear"
        if x0 < 0 or y0 < 0 or x1 > W or y1 > H:
            return "invalid"
    xs = sorted(set([Fr(0), W] + [r[0] for r in rs] + [r[2] for r in rs]))
    ys = sorted(set([Fr(0), H] + [r[1] for r in rs] + [r[3] for r in rs]))
    excess = Fr(0)
    for i in range(len(xs) - 1):
        for j in range(len(ys) - 1):
            mx, my = (xs[i] + xs[i + 1]) / 2, (ys[j] + ys[j + 1]) / 2
            k = sum(1 for (x0, y0, x1, y1) in rs if x0 < mx < x1 and y0 < my < y1)
            if k > 1:
                excess += (k - 1) * (xs[i + 1] - xs[i]) * (ys[j + 1] - ys[j])
    if excess == 0:
        return "valid"
    if excess > 2 * eps_die * max(W, H):
        return "invalid"
    return "unclear"


def exact_of(case: dict):
    ex = case.get("exact")
    if ex is None:
        return None
    W, H = Fr(ex["W"]), Fr(ex["H"])
    rects = []
    for r in ex["regions"] + ex["fixed"]:
        cx, cy, w, h = (Fr(v) for v in r[:4])
        rects.append((cx - w / 2, cy - h / 2, cx + w / 2, cy + h / 2))
    return {"W": W, "H": H, "rects": rects}


# ------------------------------------------------------------------ spec on the implementation's output
def spec_on_impl(ctx: Ctx, run: Run, verdict: str) -> None:
    case, mode = run.case, run.case["mode"]
    size = case.get("size", 0)
    if run.die is None and run.impl != "err:Assert":
        ctx.spec_fail("operation-raised", case, {"raised": getattr(run, "raised", run.impl)}, size)
        return
    if case.get("expect") == "reject" and run.die is not None:
        ctx.spec_fail("parse_rejects_malformed", case, {"why": case.get("why")}, size)
        return
    if run.die is None:
        if verdict == "valid" and run.impl == "err:Assert":
            ctx.spec_fail("die_complete:valid-document-rejected", case, {"impl": run.impl}, size)
        return
    if verdict == "invalid":
        ctx.spec_fail("die_rejects:invalid-document-accepted", case, {"ground": len(run.die.ground_regions)}, size)
        return
    d = run.die
    W, H = Fr(d.width), Fr(d.height)
    e_die = min(W, H) / 10 ** 11
    st = run.st1
    e_a = Fr(st[1])
    allr = d.specialized_regions + d.ground_regions + d.blockages + d.fixed_regions
    boxes = [bb(r) for r in allr]
    scale = max(W, H)
    fuzz = scale / 10 ** 12
    afuzz = scale * scale / 10 ** 12       # float rounding of the implementation's own area arithmetic
    # inside the die (within the distance tolerance)
    for r, (x0, y0, x1, y1) in zip(allr, boxes):
        if not (x0 >= -e_die - fuzz and y0 >= -e_die - fuzz and x1 <= W + e_die + fuzz and y1 <= H + e_die + fuzz):
            ctx.spec_fail("die_sound:inside", case, {"rect": geo.rect_dict(r)}, size)
            return
        if not (x1 > x0 and y1 > y0):
            ctx.spec_fail("die_sound:positive", case, {"rect": geo.rect_dict(r)}, size)
            return
    # pairwise overlap within the area tolerance
    worst = Fr(0)
    for i in range(len(boxes)):
        for j in range(i + 1, len(boxes)):
            a, b = boxes[i], boxes[j]
            dx = min(a[2], b[2]) - max(a[0], b[0])
            dy = min(a[3], b[3]) - max(a[1], b[1])
            ov = dx * dy if dx > 0 and dy > 0 else Fr(0)
            worst = max(worst, ov)
            if ov > e_a * (1 + Fr(1, 10 ** 6)) + afuzz:
                ctx.spec_fail("die_sound:disjoint", case, {"i": i, "j": j, "overlap": float(ov), "epsA": float(e_a)}, size)
                return
    tot = sum(((x1 - x0) * (y1 - y0) for (x0, y0, x1, y1) in boxes), Fr(0))
    if not abs(tot - W * H) < e_die * scale * (1 + Fr(1, 10 ** 6)) + afuzz:
        ctx.spec_fail("die_sound:area-sum", case, {"sum": float(tot), "die": float(W * H)}, size)
        return
    # input regions reported unchanged, with their tags, in document order; ground rectangles tagged ground
    tree = run.tree
    rl = tree.get("regions", []) if isinstance(tree, dict) else []
    if rl and isinstance(rl[0], (int, float)):
        rl = [rl]
    want_s = [tuple(r) for r in rl if r[4] != "#"]
    want_b = [tuple(r) for r in rl if r[4] == "#"]
    got_s = [(r.center.x, r.center.y, r.shape.w, r.shape.h, r.region) for r in d.specialized_regions]
    got_b = [(r.center.x, r.center.y, r.shape.w, r.shape.h, r.region) for r in d.blockages]
    if want_s != got_s or want_b != got_b:
        ctx.spec_fail("die_sound:regions-unchanged", case, {"specialized": got_s, "blockages": got_b}, size)
        return
    if any(r.fixed or r.hard for r in d.specialized_regions + d.blockages):
        ctx.spec_fail("die_sound:regions-unchanged:flags", case, {}, size)
        return
    if case.get("fixed_expect") is not None:
        # expectation from the generated document, not from the Netlist object's flags
        want_f = [tuple(float(Fr(v)) for v in r) for r in case["fixed_expect"]]
        got_f = [(float(r.center.x), float(r.center.y), float(r.shape.w), float(r.shape.h)) for r in d.fixed_regions]
        if want_f != got_f or not all(r.fixed for r in d.fixed_regions):
            ctx.spec_fail("die_sound:fixed-are-the-fixed-modules", case, {"reported": got_f, "expected": want_f}, size)
            return
    else:
        want_f = [geo.rect_dict(r) for r in run.fixed]
        if [geo.rect_dict(r) for r in d.fixed_regions] != want_f:
            ctx.spec_fail("die_sound:fixed-unchanged", case, {}, size)
            return
    if any(g.region != "_" or g.fixed or g.hard for g in d.ground_regions):
        ctx.spec_fail("die_sound:ground-tag", case, {}, size)
        return
    # a valid document is tiled exactly (up to rounding in the F stream)
    if verdict == "valid":
        t_len = Fr(0) if mode == "Q" else scale / 10 ** 9
        t_area = Fr(0) if mode == "Q" else W * H / 10 ** 9
        for (x0, y0, x1, y1) in boxes:
            if not (x0 >= -t_len and y0 >= -t_len and x1 <= W + t_len and y1 <= H + t_len):
                ctx.spec_fail("die_complete:exact-inside", case, {}, size)
                return
        if worst > t_area:
            ctx.spec_fail("die_complete:exact-disjoint", case, {"overlap": float(worst)}, size)
            return
        if abs(tot - W * H) > t_area:
            ctx.spec_fail("die_complete:exact-area", case, {"sum": float(tot), "die": float(W * H)}, size)
            return


# ------------------------------------------------------------------ generators
Q_FAMS = ["int", "half", "dyadic", "pow2"]
F_FAMS = ["dec", "cent", "third", "scaled", "scaled", "odd"]


def family_step(rng, fam: str) -> Fr:
    if fam == "int":
        return Fr(1)
    if fam == "half":
        return Fr(1, 2)
    if fam == "dyadic":
        return Fr(1, 8)
    if fam == "pow2":
        return Fr(2) ** rng.randint(-10, 20)
    if fam == "dec":
        return Fr(1, 10)
    if fam == "cent":
        return Fr(1, 100)
    if fam == "third":
        return Fr(1, 3)
    if fam == "scaled":
        return Fr(10) ** rng.randint(-4, 5)          # die sizes 1e-3 … 1e6 in 0.1-steps of the scale
    if fam == "odd":
        return rng.choice([Fr(7, 100), Fr(10 ** 6 + 1, 10 ** 2), Fr(123456789, 10 ** 4), Fr(3, 10 ** 5), Fr(1001, 10)])
    raise ValueError(fam)


def lines(rng, n: int, step: Fr, kmax: int = 40) -> list[Fr]:
    ks = sorted(rng.sample(range(1, kmax), n))
    return [Fr(0)] + [k * step for k in ks]


def guillotine(rng, r0, r1, c0, c1, depth):
    """leaves (r0, r1, c0, c1) — half-open index ranges — of a random guillotine partition."""
    can_r, can_c = r1 - r0 > 1, c1 - c0 > 1
    if depth == 0 or not (can_r or can_c) or rng.random() < 0.25:
        return [(r0, r1, c0, c1)]
    if can_r and (not can_c or rng.random() < 0.5):
        k = rng.randint(r0 + 1, r1 - 1)
        return guillotine(rng, r0, k, c0, c1, depth - 1) + guillotine(rng, k, r1, c0, c1, depth - 1)
    k = rng.randint(c0 + 1, c1 - 1)
    return guillotine(rng, r0, r1, c0, k, depth - 1) + guillotine(rng, r0, r1, k, c1, depth - 1)


def scattered(rng, ny, nx, want):
    """random pairwise disjoint index rectangles (pinwheels, holes …)."""
    out, used = [], set()
    for _ in range(want * 4):
        r0, c0 = rng.randrange(ny), rng.randrange(nx)
        r1, c1 = rng.randint(r0 + 1, ny), rng.randint(c0 + 1, nx)
        cells = {(r, c) for r in range(r0, r1) for c in range(c0, c1)}
        if cells & used:
            continue
        used |= cells
        out.append((r0, r1, c0, c1))
        if len(out) >= want:
            break
    return out


def make_case(rng, mode: str, max_cells: int, max_regions: int, allow_netlist=True) -> dict:
    fam = rng.choice(Q_FAMS if mode == "Q" else F_FAMS)
    step = family_step(rng, fam)
    nx, ny = rng.randint(1, max_cells), rng.randint(1, max_cells)
    xs, ys = lines(rng, nx, step), lines(rng, ny, step)
    if rng.random() < 0.5:
        leaves = guillotine(rng, 0, ny, 0, nx, 4)
        rng.shuffle(leaves)
        chosen = [lf for lf in leaves if rng.random() < 0.6][:max_regions]
        shape = "guillotine"
    else:
        chosen = scattered(rng, ny, nx, rng.randint(0, max_regions))
        shape = "scattered"
    regions, fixed = [], []
    for (r0, r1, c0, c1) in chosen:
        x0, x1, y0, y1 = xs[c0], xs[c1], ys[r0], ys[r1]
        ent = [(x0 + x1) / 2, (y0 + y1) / 2, x1 - x0, y1 - y0]
        if allow_netlist and rng.random() < 0.2:
            fixed.append(ent)
        else:
            regions.append(ent + [rng.choice(TAGS)])
    W, H = xs[-1], ys[-1]
    hard, soft = [], 0
    if allow_netlist and rng.random() < 0.3:
        # movable macros anywhere (also over blockages / regions / sticking out of the die): irrelevant to the die
        for _ in range(rng.randint(1, 2)):
            c0, r0 = rng.randrange(nx), rng.randrange(ny)
            c1, r1 = rng.randint(c0 + 1, nx), rng.randint(r0 + 1, ny)
            x0, x1, y0, y1 = xs[c0], xs[c1] + (step if rng.random() < 0.3 else 0), ys[r0], ys[r1]
            hard.append([(x0 + x1) / 2, (y0 + y1) / 2, x1 - x0, y1 - y0])
        soft = rng.randint(0, 2)
    kind = "valid"
    u = rng.random()
    if u < 0.30 and (regions or fixed):
        kind = mutate(rng, regions, fixed, W, H, step, mode == "Q")
    return build(rng, mode, fam, shape, kind, W, H, regions, fixed, hard=hard, soft=soft)


def mutate(rng, regions, fixed, W, H, step, exact_mode=False) -> str:
    """turn a valid layout into one with an overlap / a region leaving the die (by a grid step, or by a sliver)."""
    pool = regions + fixed
    r = rng.choice(pool)
    how = rng.choice(["shift", "grow", "dup", "sliver-grow", "sliver-shift", "shrink"])
    delta = step if not how.startswith("sliver") else step * (Fr(1, 1024) if exact_mode else
                                                              rng.choice([Fr(1, 10 ** 3), Fr(1, 10 ** 6), Fr(1, 10 ** 9), Fr(1, 2 ** 30)]))
    if how in ("shift", "sliver-shift"):
        ax = rng.randrange(2)
        r[ax] += delta * rng.choice([-1, 1])
    elif how in ("grow", "sliver-grow"):
        ax = 2 + rng.randrange(2)
        r[ax] += 2 * delta
    elif how == "shrink":
        ax = 2 + rng.randrange(2)
        if r[ax] > delta:
            r[ax] -= delta / 2
    else:
        cp = list(r[:4]) + [rng.choice(TAGS)]
        regions.append(cp)
    return how


def build(rng, mode, fam, shape, kind, W, H, regions, fixed, pre=None, hard=(), soft=0) -> dict:
    def n(x):
        return num_text(x, rng)

    def tag(t):
        if t == "#":
            return rng.choice(["'#'", '"#"'])
        return rng.choice([t, f"'{t}'", f'"{t}"'])
    ents = ["[" + ", ".join(n(v) for v in r[:4]) + ", " + tag(r[4]) + "]" for r in regions]
    doc = f"width: {n(W)}\nheight: {n(H)}\n"
    if len(ents) == 1 and rng.random() < 0.5:
        doc += "regions: " + ents[0] + "\n"          # single-rectangle shorthand
    elif ents:
        doc += "regions: [" + ", ".join(ents) + "]\n"
    if not ents and rng.random() < 0.15 and not fixed:
        s = f"{n(W)}x{n(H)}"
        if ": " not in s:
            doc = s
    netlist = None
    ftoks = [[n(v) for v in r[:4]] for r in fixed]
    if fixed or hard or soft:
        mods = [(f"F{i}: {{fixed: true, rectangles: [[{', '.join(t)}]]}}", t) for i, t in enumerate(ftoks)]
        # movable macros: hard but NOT fixed — they must not show up among the die's fixed regions
        mods += [(f"H{i}: {{hard: true, rectangles: [[{', '.join(n(v) for v in r[:4])}]]}}", None) for i, r in enumerate(hard)]
        mods += [(f"S{i}: {{area: {rng.randint(1, 9)}}}", None) for i in range(soft)]
        rng.shuffle(mods)
        ftoks = [t for _, t in mods if t is not None]          # document order
        netlist = "Modules: {" + ", ".join(m for m, _ in mods) + "}\nNets: []\n"
    # the exact decimal reading of the document (fixed rectangles: those of the FIXED modules only)
    ex = exact_from_text(doc, None)
    fexp = [[str(doc_value(t)) for t in toks] for toks in ftoks]
    if ex is not None:
        ex["fixed"] = fexp
    case = {"mode": mode, "doc": doc, "netlist": netlist, "pre": pre, "family": fam, "shape": shape, "kind": kind,
            "size": len(regions) + len(fixed), "exact": ex, "fixed_expect": fexp}
    return case


_NUM = r"[-+]?(?:\d+\.?\d*|\.\d+)(?:[eE][-+]?\d+)?"


def exact_from_text(doc: str, netlist: str | None):
    """W, H, regions, fixed as exact decimal values (strings of Fractions) read off the document text."""
    try:
        m = _SHORT.match(doc)
        if m and ": " not in doc:
            return {"W": str(doc_value(m.group(1))), "H": str(doc_value(m.group(2))), "regions": [], "fixed": []}
        W = re.search(r"width: (" + _NUM + ")", doc).group(1)
        H = re.search(r"height: (" + _NUM + ")", doc).group(1)
        regs = []
        for mm in re.finditer(r"\[(" + _NUM + r"), (" + _NUM + r"), (" + _NUM + r"), (" + _NUM + r"), ([^\]]+)\]", doc):
            regs.append([str(doc_value(mm.group(i))) for i in range(1, 5)] + [mm.group(5).strip("'\"")])
        fx = []
        if netlist:
            for mm in re.finditer(r"\[\[(" + _NUM + r"), (" + _NUM + r"), (" + _NUM + r"), (" + _NUM + r")\]\]", netlist):
                fx.append([str(doc_value(mm.group(i))) for i in range(1, 5)])
        return {"W": str(doc_value(W)), "H": str(doc_value(H)), "regions": regs, "fixed": fx}
    except Exception:
        return None


MALFORMED = [
    ("height: 5\nregions: [[1, 1, 1, 1, A]]\n", "missing width"),
    ("width: 5\n", "missing height"),
    ("width: 5\nheight: 4\ndepth: 3\n", "unknown key"),
    ("width: -5\nheight: 4\n", "negative width"),
    ("width: 0\nheight: 4\n", "zero width"),
    ("width: 5\nheight: 0.0\n", "zero height"),
    ("width: abc\nheight: 4\n", "width not a number"),
    ("width: [5]\nheight: 4\n", "width a list"),
    ("width: 5\nheight: null\n", "height null"),
    ("width: 5\nheight: 4\nregions: []\n", "empty region list"),
    ("width: 5\nheight: 4\nregions: 3\n", "regions a number"),
    ("width: 5\nheight: 4\nregions: abc\n", "regions a string"),
    ("width: 5\nheight: 4\nregions: null\n", "regions null"),
    ("width: 5\nheight: 4\nregions: {a: 1}\n", "regions a map"),
    ("width: 5\nheight: 4\nregions: [[1, 1, 1, 1]]\n", "rectangle of 4"),
    ("width: 5\nheight: 4\nregions: [[1, 1, 1, 1, A, B]]\n", "rectangle of 6"),
    ("width: 5\nheight: 4\nregions: [1, 1, 1, 1]\n", "shorthand of 4"),
    ("width: 5\nheight: 4\nregions: [[1, 1, 1, 1, A], 7]\n", "second entry a number"),
    ("width: 5\nheight: 4\nregions: [1, [1, 1, 1, 1, A]]\n", "number then list"),
    ("width: 5\nheight: 4\nregions: [[-1, 1, 1, 1, A]]\n", "negative centre"),
    ("width: 5\nheight: 4\nregions: [[1, 1, 0, 1, A]]\n", "zero width rectangle"),
    ("width: 5\nheight: 4\nregions: [[1, 1, 1, 0.0, A]]\n", "zero height rectangle"),
    ("width: 5\nheight: 4\nregions: [[1, 1, 1, -1, A]]\n", "negative height rectangle"),
    ("width: 5\nheight: 4\nregions: [[1, 1, 1, 1, _]]\n", "ground tag"),
    ("width: 5\nheight: 4\nregions: [1, 1, 1, 1, '_']\n", "ground tag shorthand"),
    ("width: 5\nheight: 4\nregions: [[1, 1, 1, 1, 1a]]\n", "bad identifier"),
    ("width: 5\nheight: 4\nregions: [[1, 1, 1, 1, L1-Cache]]\n", "bad identifier dash"),
    ("width: 5\nheight: 4\nregions: [[1, 1, 1, 1, 7]]\n", "numeric tag"),
    ("width: 5\nheight: 4\nregions: [[1, 1, 1, 1, '']]\n", "empty tag"),
    ("width: 5\nheight: 4\nregions: [[1, 1, 1, 1, '##']]\n", "double hash"),
    ("width: 5\nheight: 4\nregions: [[1, x, 1, 1, A]]\n", "string coordinate"),
    ("width: 5\nheight: 4\nregions: [[1, null, 1, 1, A]]\n", "null coordinate"),
    ("width: 5\nheight: 4\nregions: [[[1], 1, 1, 1, A]]\n", "list coordinate"),
    ("- width: 5\n- height: 4\n", "document is a list"),
    ("width: 5\nheight: 4\n7: 3\n", "numeric key"),
    ("0x5", "shorthand zero width"),
    ("5x-2", "shorthand negative height"),
    ("width: 5\nheight: 4\nregions: [[4, 1, 4, 1, A]]\n", "leaves the die (east)"),
    ("width: 5\nheight: 4\nregions: [[1, 1, 4, 1, A]]\n", "leaves the die (west)"),
    ("width: 5\nheight: 4\nregions: [[1, 1, 2, 2, A], [2, 2, 2, 2, B]]\n", "overlap"),
]

WELLFORMED = [
    "width: true\nheight: 4\n",
    "width: 5\nheight: true\nregions: [0.5, 0.5, 1, true, A]\n",
    "5.5x2",
    "1e1x2.5",
    "width: 5\nheight: 4\nregions: [[1, 1, 2, 2, _x], [4, 3, 2, 2, '#']]\n",
    "width: 5\nheight: 4\nregions: [2.5, 2, 5, 4, '#']\n",
    "width: 5\nheight: 4\nregions: [[2.5, 2, 5, 4, A]]\n",
    "width: 10\nheight: 9\nregions: [[6, 7.5, 4, 1, \"reg1\"], [7, 1.5, 2, 3, \"reg2\"], [3, 3.5, 2, 3, \"#\"]]\n",
    "width: 0.3\nheight: 1\nregions: [0.2, 0.5, 0.2, 1, '#']\n",
    "width: 5.2\nheight: 3.9\nregions: [[0.4, 2.45, 0.8, 2.5, A], [1.15, 2.8, 0.7, 0.4, A], [1.8, 1.65, 0.6, 1.7, A]]\n",
    "width: 3400000.34\nheight: 8000000.8\nregions: [[2100000.21, 6900000.69, 2600000.26, 600000.06, A]]\n",
    "width: 3\nheight: 3\nregions: [[1.5, 1.5, 1, 1, A]]\n",
    "width: 3\nheight: 3\nregions: [[0.5, 1, 1, 2, A], [2, 0.5, 2, 1, B], [2.5, 2, 1, 2, C], [1, 2.5, 2, 1, D]]\n",
]


def corpus(mode: str) -> list[dict]:
    out = []
    for doc, why in MALFORMED:
        c = {"mode": mode, "doc": doc, "netlist": None, "pre": None, "family": "corpus", "shape": "malformed", "kind": why,
             "size": 0, "exact": None, "expect": "reject", "why": why}
        out.append(c)
    for doc in WELLFORMED:
        dyadic = all(Fr(Decimal(t)).denominator & (Fr(Decimal(t)).denominator - 1) == 0 for t in re.findall(_NUM, doc) if t)
        if mode == "Q" and not dyadic:
            continue
        out.append({"mode": mode, "doc": doc, "netlist": None, "pre": None, "family": "corpus", "shape": "corpus",
                    "kind": "valid", "size": doc.count("["), "exact": exact_from_text(doc, None)})
    nl = "Modules: {M1: {fixed: true, rectangles: [[2,7,2,2]]}, M2: {fixed: true, rectangles: [[8,5.5,2,1]]}, M3: {area: 10}}\nNets: []\n"
    d7 = "width: 10\nheight: 9\nregions: [[6, 7.5, 4, 1, \"reg1\"], [7, 1.5, 2, 3, \"reg2\"], [3, 3.5, 2, 3, \"#\"]]\n"
    out.append({"mode": mode, "doc": d7, "netlist": nl, "pre": None, "family": "corpus", "shape": "corpus", "kind": "valid",
                "size": 5, "exact": exact_from_text(d7, nl)})
    return out


def exhaustive_3x3(mode: str) -> list[dict]:
    """all dies on a 3×3 Hanan grid with ≤ 3 regions (any index rectangles, overlapping ones included)."""
    xs = [Fr(0), Fr(1), Fr(2), Fr(3)] if mode == "Q" else [Fr(0), Fr(1, 10), Fr(2, 10), Fr(3, 10)]
    rects = [(r0, r1, c0, c1) for r0 in range(3) for r1 in range(r0 + 1, 4) for c0 in range(3) for c1 in range(c0 + 1, 4)]
    out = []
    tags = ["A", "#", "B"]
    for k in range(0, 4):
        for combo in itertools.combinations(rects, k):
            ents = []
            for t, (r0, r1, c0, c1) in zip(tags, combo):
                x0, x1, y0, y1 = xs[c0], xs[c1], xs[r0], xs[r1]
                ents.append("[" + ", ".join(dec(v) for v in ((x0 + x1) / 2, (y0 + y1) / 2, x1 - x0, y1 - y0)) + f", '{t}']")
            doc = f"width: {dec(xs[3])}\nheight: {dec(xs[3])}\n" + ("regions: [" + ", ".join(ents) + "]\n" if ents else "")
            out.append({"mode": mode, "doc": doc, "netlist": None, "pre": None, "family": "lattice3", "shape": "exhaustive",
                        "kind": "any", "size": k, "exact": exact_from_text(doc, None)})
    return out


# ------------------------------------------------------------------ driver
def verdict_of(run: Run) -> str:
    case = run.case
    if case.get("expect") == "reject" or case.get("exact") is None:
        return "unclear"
    ex = exact_of(case)
    if ex is None:
        return "unclear"
    W, H = ex["W"], ex["H"]
    e_die = min(W, H) / 10 ** 11
    e_d = Fr(run.st0[0]) if run.st0 is not None else e_die
    if run.st0 is not None:
        # a class-wide tolerance defined earlier (netlist / caller): the oracle only speaks when it is of the die's order
        if not (e_d <= 10 * e_die):
            return "unclear"
        if Fr(run.st0[1]) > 10 * Fr(math.sqrt(float(e_die))):
            return "unclear"
    if case["mode"] == "F":
        # binary rounding makes coordinates that coincide in the document differ by a few ulp: the oracle speaks only when
        # the tolerances in force are above that noise
        e_a = Fr(run.st0[1]) if run.st0 is not None else Fr(math.sqrt(float(e_die)))
        if e_a < max(W, H) ** 2 * 45 / 10 ** 17:
            return "unclear"
    return oracle(ex, e_d, e_die, need_merge=case["mode"] == "F")


def process(ctx: Ctx, cases: list[dict]) -> None:
    runs = []
    for case in cases:
        try:
            run = Run(case)
        except Unserialisable:
            continue
        runs.append(run)
    # round 1: the model's grid for every accepted document (to translate ground rectangles into picks)
    idx = [i for i, r in enumerate(runs) if r.die is not None]
    grids = ctx.model([f"{runs[i].case['mode']} grid {runs[i].head}" for i in idx])
    reqs = []
    if grids is not None:
        gmap = dict(zip(idx, grids))
        for i, r in enumerate(runs):
            mode = r.case["mode"]
            if r.die is not None:
                p = picks_from(r, gmap[i])
                reqs.append(f"{mode} model {r.head}" if p is None else f"{mode} accept {r.head} {p}")
            else:
                reqs.append(f"{mode} model {r.head}")
    replies = ctx.model(reqs) if grids is not None else None
    for i, r in enumerate(runs):
        case = r.case
        v = verdict_of(r)
        spec_on_impl(ctx, r, v)
        if replies is not None:
            compare(ctx, r, replies[i], v)
        nontrivial = r.die is not None or case.get("expect") == "reject" or v == "invalid"
        ctx.case(case["mode"], (case["doc"], case["netlist"], case["pre"]), nontrivial,
                 sample={"doc": case["doc"], "netlist": case["netlist"], "impl": r.impl, "oracle": v,
                         "ground": None if r.die is None else len(r.die.ground_regions)})
        ctx.count("family:" + case["family"])
        ctx.count("kind:" + str(case["kind"] if case["shape"] != "malformed" else "malformed"))
        ctx.count("oracle:" + v)
        ctx.count("impl:" + ("accepted" if r.die is not None else "rejected"))
        if case["netlist"]:
            ctx.count("with-netlist")
    if replies is None:
        ctx.notes.append("model driver unavailable: correspondence not run")


def aux_ops(ctx: Ctx, n: int) -> None:
    """`gather_boundaries` (public) and Python's float `sum()` against the model, directly."""
    rng = ctx.rng
    reqs, todo = [], []
    for k in range(n):
        mode = "Q" if k % 2 == 0 else "F"
        fam = rng.choice(geo.EXACT_FAMILIES if mode == "Q" else geo.FLOAT_FAMILIES)
        rs = [geo.rand_rect(rng, fam) for _ in range(rng.randint(1, 5))]
        eps = rng.choice([0.0, 1e-9, 0.125, 0.5, 1e-12])
        ginp = {"op": "gather", "mode": mode, "eps": eps, "rects": [geo.rect_dict(r) for r in rs]}
        Rectangle.set_epsilon(eps)
        try:
            x, y = gather_boundaries(rs)
        except Exception as e:
            ctx.spec_fail("operation-raised", ginp, {"raised": repr(e)[:300]}, 1)
            continue
        finally:
            Rectangle.undefine_epsilon()
        impl = f"{len(x)}" + "".join(" " + sc(v, mode) for v in x) + f" ; {len(y)}" + "".join(" " + sc(v, mode) for v in y)
        reqs.append(f"{mode} gather {sc(eps, mode)} {len(rs)}" + "".join(" " + rect_in(r, mode) for r in rs))
        todo.append(("gather", ginp, impl, mode))
        ctx.case(mode, ("gather", impl), True)
    for k in range(n):
        m = rng.randint(0, 12)
        scale = 10.0 ** rng.randint(-8, 12)
        vals = [rng.choice([rng.uniform(0, 1) * scale, rng.uniform(0, 1), rng.randint(1, 99) / 10, 1e16 * rng.random(), 0.1, 1e-9 * rng.random()])
                * rng.choice([1, 1, 1, -1]) for _ in range(m)]
        impl = f2hex(float(sum(float(v) for v in vals)))
        reqs.append(f"F pysum {len(vals)}" + "".join(" " + f2hex(v) for v in vals))
        todo.append(("pysum", {"op": "pysum", "vals": vals}, impl, "F"))
        ctx.case("F", ("pysum", impl), m > 1)
    replies = ctx.model(reqs)
    if replies is None:
        return
    for (op, inp, impl, mode), rep in zip(todo, replies):
        if impl != rep:
            ok, _ = close_lines(impl, rep, mode, 0.0 if mode == "Q" or op == "gather" else 1e-12)
            if ok:
                ctx.drift += 1
                continue
            ctx.disagree(op, inp, impl, rep, size=1)
        ctx.count("op:" + op)


def pinwheel_case(rng) -> dict:
    """small integer-lattice die with 2–4 small regions off the axes, not touching the border or each other: free space with
    interior cells and pinwheel-like arrangements around the obstacles (valid by construction)."""
    W, H = rng.randint(6, 10), rng.randint(6, 10)
    k, rs = rng.randint(2, 4), []
    for _ in range(20):
        w, h = rng.choice([1, 1, 2]), rng.choice([1, 1, 2])
        x0, y0 = rng.randint(1, W - 1 - w), rng.randint(1, H - 1 - h)
        if all(x0 > a + c or a > x0 + w or y0 > b + d or b > y0 + h for (a, b, c, d) in rs):
            rs.append((x0, y0, w, h))
        if len(rs) >= k:
            break
    ents = [f"[{dec(Fr(2 * x0 + w, 2))}, {dec(Fr(2 * y0 + h, 2))}, {w}, {h}, {rng.choice(['A', 'dsp', chr(39) + '#' + chr(39)])}]"
            for (x0, y0, w, h) in rs]
    doc = f"width: {W}\nheight: {H}\nregions: [" + ", ".join(ents) + "]\n"
    return {"mode": "Q", "doc": doc, "netlist": None, "pre": None, "family": "int", "shape": "pinwheel", "kind": "valid",
            "size": len(rs), "exact": exact_from_text(doc, None), "fixed_expect": []}


def count_all_free(cells) -> int:
    """number of non-empty index rectangles all of whose cells are free (what `cands_complete` proves the candidate set is)."""
    nr = len(cells)
    nc = len(cells[0]) if nr else 0
    cnt = 0
    for r0 in range(nr):
        for c0 in range(nc):
            cmax = nc
            for r1 in range(r0, nr):
                c = c0
                while c < cmax and not cells[r1][c]:
                    c += 1
                cmax = c
                if cmax == c0:
                    break
                cnt += cmax - c0
    return cnt


def light(ctx: Ctx, cases: list[dict]) -> None:
    """implementation only (no model run): a valid die must be accepted and tiled exactly; if the candidate enumeration is
    reachable it is compared with the proved characterisation (recorded, not binding: the member is private)."""
    for case in cases:
        if len(_TIMEOUTS) >= 3:
            return
        size = case["size"]
        Rectangle.undefine_epsilon()
        try:
            with time_limit(20):
                d = Die(case["doc"])
        except AssertionError:
            ctx.spec_fail("die_complete:valid-document-rejected", case, {"impl": "err:Assert"}, size)
            ctx.case("Q", case["doc"], True)
            continue
        except Exception as e:
            if isinstance(e, TimeoutError):
                _TIMEOUTS.append(1)
            ctx.spec_fail("operation-raised", case, {"raised": repr(e)[:300]}, size)
            continue
        finally:
            Rectangle.undefine_epsilon()
        allr = d.specialized_regions + d.ground_regions + d.blockages + d.fixed_regions
        tot = sum((Fr(r.shape.w) * Fr(r.shape.h) for r in allr), Fr(0))
        if tot != Fr(d.width) * Fr(d.height) or len(d.specialized_regions) + len(d.blockages) != size:
            ctx.spec_fail("die_complete:exact-area", case, {"sum": float(tot)}, size)
        try:   # optional observation point
            Rectangle.set_epsilon(min(d.width, d.height) * 10e-12)
            d._calculate_cell_matrix()
            want = count_all_free(d._cells)
            got = len(d._find_all_ground_rectangles())
            ctx.extra["candidate_sets_compared"] = ctx.extra.get("candidate_sets_compared", 0) + 1
            if got != want:
                ctx.extra["candidate_set_differs_from_all_free_rectangles"] = \
                    ctx.extra.get("candidate_set_differs_from_all_free_rectangles", 0) + 1
        except Exception:
            pass
        finally:
            Rectangle.undefine_epsilon()
        ctx.case("Q", case["doc"], True)
        ctx.count("family:pinwheel")


def run(ctx: Ctx) -> None:
    ctx.rule = ("YAML die documents built from a random Hanan grid (1–6 lines per axis quick, 1–10 thorough) whose cells are "
                "grouped by a random guillotine partition or by randomly scattered disjoint index rectangles (touching regions, "
                "T-junctions, enclosed holes, border contact by construction), leaves becoming tagged regions, blockages, fixed "
                "rectangles of an attached netlist, or ground; 30% are then made invalid (shift / grow / duplicate by a grid step or "
                "by a sliver); coordinate families int, halves, eighths, powers of two (Q stream) and 0.1 / 0.01 steps, thirds, "
                "scales 1e-3…1e6, odd decimals (F stream); plus a corpus of malformed and hand-written documents and 10% runs with a "
                "class-wide tolerance defined beforehand.  Non-trivial = accepted by the implementation, or malformed, or clearly invalid.")
    rng = ctx.rng
    quick = ctx.tier == "quick"
    _TIMEOUTS.clear()
    cases = corpus("Q") + corpus("F")
    n = ctx.n(2000, 20000)
    max_cells, max_regions = (6, 8) if quick else (10, 20)
    for i in range(n):
        mode = "Q" if i % 2 == 0 else "F"
        c = make_case(rng, mode, max_cells if rng.random() < 0.8 else 3, max_regions)
        if rng.random() < 0.1 and not c["netlist"]:
            ex = exact_of(c)
            sc_ = float(min(ex["W"], ex["H"])) if ex else 1.0
            c["pre"] = rng.choice([[0.0], [0.0, 0.0], [sc_ * 1e-11], [sc_ * 1e-12, 0.0], [sc_ * 1e-9], [sc_ * 2.0 ** -20, sc_ * 2.0 ** -20],
                                   [sc_ * 0.25], [sc_ * 1e-11, sc_ * sc_ * 1e-9]])
        cases.append(c)
    if not quick and ctx.budget <= 1.0:
        ex = exhaustive_3x3("Q") + exhaustive_3x3("F")
        ctx.extra["exhaustive_3x3_dies"] = len(ex)
        cases += ex
    pin = [pinwheel_case(rng) for _ in range(ctx.n(1500, 15000))]
    cases += pin[::15]                       # a sample of them also goes through the model
    process(ctx, cases)
    light(ctx, pin)
    aux_ops(ctx, ctx.n(150, 3000))
    ctx.assumptions = [
        "exact-arithmetic theorems: the float behaviour of accept/reject is searched (F stream, validity oracle), not proved",
        "die_complete assumes distinct boundary coordinates differ by more than the distance tolerance in force (Separated)",
        "the class-wide Rectangle tolerance is changed only through set_epsilon / undefine_epsilon",
        "document numbers are ints below 2^53 or finite floats; areas are summed as floats",
    ]


def replay(ctx: Ctx, body: dict) -> None:
    inp = body["input"]
    if inp.get("op") in ("gather", "pysum"):
        ctx.notes.append("auxiliary op replay: rerun ./check C01")
        if inp["op"] == "pysum":
            vals = inp["vals"]
            impl = f2hex(float(sum(float(v) for v in vals)))
            rep = ctx.model([f"F pysum {len(vals)}" + "".join(" " + f2hex(v) for v in vals)])
            if rep and rep[0] != impl:
                ctx.disagree("pysum", inp, impl, rep[0], 1)
        else:
            rs = [geo.mk_rect(d["cx"], d["cy"], d["w"], d["h"], d["region"], d["fixed"], d["hard"]) for d in inp["rects"]]
            mode = inp["mode"]
            Rectangle.set_epsilon(inp["eps"])
            try:
                x, y = gather_boundaries(rs)
            except Exception as e:
                ctx.spec_fail("operation-raised", inp, {"raised": repr(e)[:300]}, 1)
                return
            finally:
                Rectangle.undefine_epsilon()
            impl = f"{len(x)}" + "".join(" " + sc(v, mode) for v in x) + f" ; {len(y)}" + "".join(" " + sc(v, mode) for v in y)
            rep = ctx.model([f"{mode} gather {sc(inp['eps'], mode)} {len(rs)}" + "".join(" " + rect_in(r, mode) for r in rs)])
            if rep and rep[0] != impl:
                ctx.disagree("gather", inp, impl, rep[0], 1)
        return
    if inp.get("shape") == "pinwheel":
        light(ctx, [inp])
    process(ctx, [inp])

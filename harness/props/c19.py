"""C19 — Every document FRAME produces is accepted back and says the same thing.

One stream per producer.  Every case runs the REAL producer on a generated object, then

  * re-reads the document with the real reader and compares field-wise with the source object
    (spec clauses `<producer>:accepted`, `<producer>:same-…`),
  * calls the producer twice and compares the two documents (`<producer>:twice`),
  * compares a deep snapshot of the source object taken before and after producing (`<producer>:pure`),
  * runs the Lean model of the producer (`FV/Model/Producers.lean`, driver `drv_prod`) on the same object and
    compares the tree it emits with the tree the implementation's text denotes (`ruamel` safe load), and runs the
    Lean model of the reader on that tree and compares verdict + content with the real reader (correspondence).

Producers: die / allocation writers (before and after refinement), netgen (every topology, every size up to a bound),
FloorSet converter (synthetic numpy instances), rect_io.get_netlist / solution_to_netlist, legalfloor Model.get_netlist.

Added in the "extend" round:
  * allocation cells carry their `fixed` mark through the document (fixes/C19_alloc_fixed_mark.diff): marks compared
    (`alloc:same-fixed-marks`), and the object read back must answer refine / must_be_refined / uniform_refinement_depth /
    griddify exactly as the object that was written (`alloc:same-answers-after-reread`);
  * every die / allocation document is ALSO re-read in a fresh interpreter (`FreshServer`: a pristine copy of this process
    forked before the first library operation; one process per document), with the tolerances undefined or preset to what
    an earlier design of another scale (x1e-3 … x1e3) would have left (`*:fresh-reread-*`);
  * netgen below the guards (sizes −3 … , grids with no rows / columns, h-tree without levels): generator tree, reader
    verdict and exception class compared with the model; `--add-centers` degenerate cases (ZeroDivisionError for no rows,
    AssertionError without die); the command line `netgen.main` (option checks, die, seed, dispatch) against `netgenMain`;
  * FloorSet from the RAW arrays (`floorset_raw`): the constructor's asserts, kinds from the placement constraints, alpha
    from density / weight_sum / compute_perimeter, exception classes (AssertionError / ValueError / ZeroDivisionError);
  * `solution_to_netlist` refusing a never-placed module (`Exception`), `get_netlist` with a netlist file.
"""
from __future__ import annotations

import contextlib
import copy
import io
import math
import os
import pickle
import re
import struct
import tempfile
from fractions import Fraction
from typing import Any

from vcheck import Ctx, f2hex, hex2f, REPO

from frame.geometry.geometry import Rectangle, Point, Shape
from frame.die.die import Die
from frame.allocation.allocation import Allocation, create_initial_allocation
from frame.netlist.netlist import Netlist
from frame.netlist.netlist_types import NamedHyperEdge
from frame.netlist.yaml_write_netlist import dump_yaml_namededges
from frame.utils.utils import read_yaml, write_yaml, valid_identifier

LEVEL = "proof"
DRIVERS = ["drv_prod"]
TRUSTED = [
    "Lean 4.33 kernel; Mathlib lemmas; axioms ⊆ {propext, Classical.choice, Quot.sound}",
    "hand-written tree-level models FV/Model/Producers.lean (+ the netlist reader model FV/Model/Netlist.lean of C04/C05) — "
    "fidelity to the Python checked by this correspondence run on every generated object, not proved",
    "text layer: ruamel.yaml dump / safe load and Python str(float) are exercised on every sample, not modelled "
    "(the model starts at the tree the text denotes)",
    "geometric self-checks of the readers (Die._check_rectangles, Allocation._check_no_overlap, hard-module overlap, "
    "create_stog) are outside the tree-level theorems: the theorems give 'the reader sees exactly the numbers of the source "
    "object'; the real readers (with those checks) are run on every sample",
    "allocation cells: the `fixed` mark is part of the document since fixes/C19_alloc_fixed_mark.diff (fourth entry `fixed`); the marks "
    "`hard` / STOG location of a cell's rectangle are not (no operation of Allocation reads them): theorem alloc_roundtrip_constructor "
    "states the re-read cells with these two reset (stripCell)",
    "FloorSet: the polygon decomposition of every block (strop_decomposition, property C15) is an input of the converter model; "
    "everything else the constructor does with the numpy arrays — the asserts on the arrays and the density, kinds from the placement "
    "constraints, die from the pins, alpha from density / weight_sum / compute_perimeter (sqrt = IEEE sqrt) — is modelled (fsOfRaw) and "
    "compared on every instance; numpy's pairwise summation inside np.sum is modelled as a left fold (compared at 1e-9)",
    "harness (Python) and compiled Lean driver: parsing, canonicalisation, comparison",
]

QUIET = io.StringIO()

# Private observation points of the implementation (underscore members, module-level names the harness patches) are
# OPTIONAL: a behaviour-preserving refactoring may rename them.  When one is missing the public route is used where it
# exists, otherwise that sub-stream is skipped; what was skipped is recorded here and copied to ctx.notes / ctx.extra.
MISSING: dict[str, str] = {}


def observation_missing(point: str, consequence: str) -> None:
    MISSING.setdefault(point, f"observation point {point} not available: {consequence}; public behaviour still compared")


def report_missing(ctx: Ctx) -> None:
    for msg in MISSING.values():
        if msg not in ctx.notes:
            ctx.notes.append(msg)
    if MISSING:
        ctx.extra["observation_points_unavailable"] = sorted(MISSING)


def area_epsilon_now() -> float:
    """the area tolerance in force, through the public accessors."""
    try:
        if Rectangle.epsilon_defined():
            return max(0.0, float(Rectangle.area_epsilon()))
    except Exception:      # noqa: BLE001
        observation_missing("Rectangle.epsilon_defined()/area_epsilon()", "reader model run with area tolerance 0")
    return 0.0
ZERO = f2hex(0.0)      # area tolerance handed to the netlist reader model (hard rectangles of the producers are exactly disjoint)


# =============================================================================== trees and the wire format
def plain(t: Any) -> Any:
    """ruamel / numpy / tuple containers → plain dict / list / scalars."""
    if isinstance(t, dict):
        return {plain(k): plain(v) for k, v in t.items()}
    if isinstance(t, (list, tuple)):
        return [plain(v) for v in t]
    if isinstance(t, bool) or t is None or isinstance(t, str):
        return t
    if isinstance(t, int):
        return int(t)
    if isinstance(t, float):
        return float(t)
    raise TypeError(f"unexpected node {type(t)}")


def _esc(s: str) -> str:
    return "'" + "".join(c if re.fullmatch(r"[A-Za-z0-9_#.\-]", c) else "%%%04x" % ord(c) for c in s)


def enc(t: Any) -> str:
    """tree → driver tokens (prefix code)."""
    if t is None:
        return "N"
    if isinstance(t, bool):
        return f"B {int(t)}"
    if isinstance(t, int):
        return f"I {t}"
    if isinstance(t, float):
        return f"F {f2hex(t)}"
    if isinstance(t, str):
        return f"S {_esc(t)}"
    if isinstance(t, (list, tuple)):
        return " ".join([f"L {len(t)}"] + [enc(v) for v in t])
    if isinstance(t, dict):
        return " ".join([f"M {len(t)}"] + [enc(k) + " " + enc(v) for k, v in t.items()])
    raise TypeError(f"unexpected node {type(t)}")


def _unesc(s: str) -> str:
    assert s.startswith("'")
    return re.sub(r"%([0-9a-f]{4})", lambda m: chr(int(m.group(1), 16)), s[1:])


def dec(tokens: list[str], pos: int = 0) -> tuple[Any, int]:
    k = tokens[pos]
    if k == "N":
        return None, pos + 1
    if k == "B":
        return tokens[pos + 1] == "1", pos + 2
    if k == "I":
        return int(tokens[pos + 1]), pos + 2
    if k == "F":
        return hex2f(tokens[pos + 1]), pos + 2
    if k == "S":
        return _unesc(tokens[pos + 1]), pos + 2
    if k == "L":
        n, pos, out = int(tokens[pos + 1]), pos + 2, []
        for _ in range(n):
            v, pos = dec(tokens, pos)
            out.append(v)
        return out, pos
    if k == "M":
        n, pos, out = int(tokens[pos + 1]), pos + 2, {}
        for _ in range(n):
            kk, pos = dec(tokens, pos)
            v, pos = dec(tokens, pos)
            out[kk] = v
        return out, pos
    raise ValueError(k)


def typed_eq(a: Any, b: Any) -> bool:
    """equality of plain trees including the int/float/bool tag and dict order."""
    if type(a) is not type(b):
        return False
    if isinstance(a, dict):
        return list(a.keys()) == list(b.keys()) and all(typed_eq(a[k], b[k]) for k in a)
    if isinstance(a, list):
        return len(a) == len(b) and all(typed_eq(x, y) for x, y in zip(a, b))
    if isinstance(a, float):
        return f2hex(a) == f2hex(b)
    return a == b


def close_tree(a: Any, b: Any, tol: float = 1e-9, floor: float = 1.0) -> bool:
    """equality of plain trees with numeric tolerance (numbers compared by value); `floor` = 0 makes it purely relative
    (needed for designs in very small units)."""
    if isinstance(a, bool) or isinstance(b, bool) or a is None or b is None or isinstance(a, str) or isinstance(b, str):
        return type(a) is type(b) and a == b
    if isinstance(a, (int, float)) and isinstance(b, (int, float)):
        return abs(a - b) <= tol * max(floor, abs(a), abs(b))
    if isinstance(a, dict) and isinstance(b, dict):
        return list(a.keys()) == list(b.keys()) and all(close_tree(a[k], b[k], tol, floor) for k in a)
    if isinstance(a, list) and isinstance(b, list):
        return len(a) == len(b) and all(close_tree(x, y, tol, floor) for x, y in zip(a, b))
    return False


def load_text(txt: str) -> Any:
    """the tree a document's text denotes (exactly what the readers load: ruamel `typ='safe'`)."""
    from ruamel.yaml import YAML
    return plain(YAML(typ="safe").load(txt))


class Batch:
    """Lean requests collected during the run; compared after one driver call."""

    def __init__(self):
        self.items: list[tuple[str, Any, str, Any, str]] = []
        self.fresh = FreshQueue()

    def add(self, line: str, expected: Any, op: str, inp: Any, how: str = "tree") -> None:
        self.items.append((line, expected, op, inp, how))

    def flush(self, ctx: Ctx) -> None:
        self.fresh.flush(ctx)
        if not self.items:
            return
        replies = ctx.model([it[0] for it in self.items])
        if replies is None:
            ctx.notes.append("model driver unavailable: correspondence not run")
            return
        for (line, expected, op, inp, how), rep in zip(self.items, replies):
            ctx.count("lean:" + op)
            if how == "str":
                if rep != expected:
                    ctx.disagree(op, inp, str(expected)[:600], rep[:600], size=_size(inp))
                continue
            if rep.startswith("err:") or rep == "bad-op":
                got: Any = rep
            else:
                try:
                    got, _ = dec(rep.split(" "))
                except Exception:
                    got = "undecodable:" + rep[:200]
            if isinstance(expected, str) or isinstance(got, str):
                ok = expected == got
            elif how == "tree":
                ok = typed_eq(expected, got)
            else:
                ok = close_tree(expected, got, floor=0.0 if how == "rel" else 1.0)
                if ok and not typed_eq(expected, got):
                    ctx.drift += 1
            if not ok:
                ctx.disagree(op, inp, _short(expected), _short(got), size=_size(inp))


def _short(t: Any) -> str:
    s = repr(t)
    return s if len(s) < 700 else s[:700] + "…"


def _size(inp: Any) -> int:
    return len(repr(inp))


def err_class(e: BaseException) -> str:
    return "err:Assert" if isinstance(e, AssertionError) else "err:" + type(e).__name__


# =============================================================================== re-reading in a fresh interpreter
class FreshServer:
    """A pristine copy of this interpreter, forked before this module executed any operation of the library (the parent
    has only IMPORTED it: class-wide tolerances undefined, no object ever built).  Every job sent to it is run in a process
    of its own forked from that pristine copy — "a fresh interpreter" without paying the import time per document — so a
    document written by the (long-lived, stateful) harness process is re-read where nothing of the writing process
    survives except the text."""

    def __init__(self) -> None:
        self.pristine_at_fork = not Rectangle.epsilon_defined()
        req_r, req_w = os.pipe()
        res_r, res_w = os.pipe()
        pid = os.fork()
        if pid == 0:
            try:
                os.close(req_w)
                os.close(res_r)
                self._serve(req_r, res_w)
            finally:
                os._exit(0)
        os.close(req_r)
        os.close(res_w)
        self.pid, self.req_w, self.res_r = pid, req_w, res_r

    @staticmethod
    def _send(fd: int, obj: Any) -> None:
        data = pickle.dumps(obj)
        os.write(fd, struct.pack(">Q", len(data)))
        view = memoryview(data)
        while view:
            n = os.write(fd, view[:1 << 16])
            view = view[n:]

    @staticmethod
    def _recv(fd: int) -> Any:
        def rd(n: int) -> bytes:
            out = b""
            while len(out) < n:
                chunk = os.read(fd, n - len(out))
                if not chunk:
                    raise EOFError
                out += chunk
            return out
        (n,) = struct.unpack(">Q", rd(8))
        return pickle.loads(rd(n))

    def _serve(self, req_r: int, res_w: int) -> None:
        import multiprocessing as mp
        while True:
            try:
                jobs = self._recv(req_r)
            except EOFError:
                return
            if jobs is None:
                return
            try:
                with mp.get_context("fork").Pool(processes=min(8, os.cpu_count() or 2), maxtasksperchild=1) as pool:
                    results = pool.map(fresh_job, jobs, chunksize=1)
            except Exception as e:      # noqa: BLE001
                results = [{"infrastructure": repr(e)[:300]} for _ in jobs]
            self._send(res_w, results)

    def map(self, jobs: list[dict]) -> list[dict]:
        self._send(self.req_w, jobs)
        return self._recv(self.res_r)

    def close(self) -> None:
        try:
            self._send(self.req_w, None)
            os.close(self.req_w)
            os.close(self.res_r)
            os.waitpid(self.pid, 0)
        except OSError:
            pass


FRESH: FreshServer | None = None
LIBRARY_USED = False          # set by the first case this module runs: a server forked later would not be pristine


def fresh_server() -> FreshServer | None:
    global FRESH
    if FRESH is None and not LIBRARY_USED and not Rectangle.epsilon_defined():
        import atexit
        FRESH = FreshServer()
        atexit.register(FRESH.close)
    return FRESH


def fresh_job(job: dict) -> dict:
    """runs in a fresh forked interpreter: optionally an earlier design's tolerance is in force (`preset`), then the
    document is read by its reader; returns a snapshot of what the reader built."""
    out: dict[str, Any] = {"pristine": not Rectangle.epsilon_defined()}
    try:
        if job.get("preset") is not None:
            Rectangle.set_epsilon(job["preset"])
        with contextlib.redirect_stdout(io.StringIO()):
            if job["kind"] == "alloc":
                a = Allocation(job["doc"])
                out["cells"] = plain(alloc_snapshot(a))
                mods = sorted({m for c in a.allocations for m in c.alloc})
                out["stats"] = [[m, a.area(m), a.center(m).x, a.center(m).y] for m in mods]
                out["rewrite"] = a.write_yaml()
            elif job["kind"] == "die":
                net = Netlist(job["netlist"]) if job["netlist"] else None
                d = Die(job["doc"], net)
                out["die"] = plain(die_snapshot(d))
                out["rewrite"] = d.write_yaml()
        out["eps"] = [Rectangle.distance_epsilon(), Rectangle.area_epsilon()]
    except BaseException as e:      # noqa: BLE001
        out["raised"] = f"{type(e).__name__}: {str(e)[:200]}"
    return out


class FreshQueue:
    """re-read jobs collected during the run; executed and compared after the in-process stream."""

    def __init__(self) -> None:
        self.items: list[tuple[dict, Any]] = []

    def add(self, job: dict, compare) -> None:
        self.items.append((job, compare))

    def flush(self, ctx: Ctx) -> None:
        if not self.items:
            return
        srv = fresh_server()
        if srv is None:
            ctx.notes.append("fresh-interpreter re-reads not run: no pristine interpreter could be forked (the library had "
                             "already been used in this process)")
            return
        results = srv.map([j for j, _ in self.items])
        for (job, compare), res in zip(self.items, results):
            if "infrastructure" in res:
                ctx.notes.append("fresh-interpreter re-read could not be run: " + res["infrastructure"])
                continue
            ctx.count("fresh:" + job["kind"] + (":preset" if job.get("preset") is not None else ":undefined-tolerance"))
            if not res.get("pristine"):
                ctx.notes.append("fresh-interpreter re-read: the forked interpreter was not pristine")
            compare(ctx, job, res)
        self.items = []


# =============================================================================== number families
def fam_coord(rng, fam: str, lo: float, hi: float) -> float:
    if fam == "int":
        return float(rng.randint(int(math.ceil(lo)), int(math.floor(hi))))
    if fam == "half":
        return rng.randint(int(math.ceil(2 * lo)), int(math.floor(2 * hi))) / 2
    if fam == "dyadic":
        return rng.randint(int(math.ceil(8 * lo)), int(math.floor(8 * hi))) / 8
    if fam == "dec":
        return rng.randint(int(math.ceil(10 * lo)), int(math.floor(10 * hi))) / 10
    if fam == "float":
        return rng.uniform(lo, hi)
    raise ValueError(fam)


EXACT = ("int", "half", "dyadic")


def cuts(rng, fam: str, total: float, k: int) -> list[float]:
    """0 = c0 < c1 < … < total, at most k inner cuts."""
    inner = set()
    for _ in range(k):
        c = fam_coord(rng, fam, 0, total)
        if 0 < c < total:
            inner.add(c)
    return [0.0] + sorted(inner) + [float(total)]


def maybe_int(rng, x: float, p: float = 0.5) -> int | float:
    """an integral float is sometimes handed over as a Python int (documents carry both)."""
    return int(x) if float(x).is_integer() and rng.random() < p else x


def pick_boxes(rng, nx: int, ny: int, k: int) -> list[tuple[int, int, int, int]]:
    """up to k pairwise disjoint grid-aligned boxes (i0, i1, j0, j1), half-open, on an nx × ny grid."""
    occ = [[False] * ny for _ in range(nx)]
    out = []
    for _ in range(k):
        i0 = rng.randrange(nx)
        j0 = rng.randrange(ny)
        i1 = min(nx, i0 + rng.choice([1, 1, 2, 3]))
        j1 = min(ny, j0 + rng.choice([1, 1, 2, 3]))
        if any(occ[i][j] for i in range(i0, i1) for j in range(j0, j1)):
            continue
        for i in range(i0, i1):
            for j in range(j0, j1):
                occ[i][j] = True
        out.append((i0, i1, j0, j1))
    return out


def box_rect(xs, ys, b) -> list[float]:
    i0, i1, j0, j1 = b
    x0, x1, y0, y1 = xs[i0], xs[i1], ys[j0], ys[j1]
    return [(x0 + x1) / 2, (y0 + y1) / 2, x1 - x0, y1 - y0]


TAGS = ["#", "#", "dsp", "bram", "LUT_2", "Z"]
MODS = ["A", "B", "C", "m_1", "Core0", "x"]


# =============================================================================== exact geometry on vector specs
def vs_bb(v) -> tuple[Fraction, Fraction, Fraction, Fraction]:
    cx, cy, w, h = (Fraction(x) for x in v[:4])
    return cx - w / 2, cy - h / 2, cx + w / 2, cy + h / 2


def vs_area(v) -> Fraction:
    return Fraction(v[2]) * Fraction(v[3])


def vs_overlap(a, b) -> Fraction:
    ax0, ay0, ax1, ay1 = vs_bb(a)
    bx0, by0, bx1, by1 = vs_bb(b)
    dx = min(ax1, bx1) - max(ax0, bx0)
    dy = min(ay1, by1) - max(ay0, by0)
    return dx * dy if dx > 0 and dy > 0 else Fraction(0)


def same_region(A: list, B: list, tol: Fraction) -> bool:
    """two internally disjoint rectangle sets cover the same point set (up to tol in area)."""
    aA = sum((vs_area(v) for v in A), Fraction(0))
    aB = sum((vs_area(v) for v in B), Fraction(0))
    common = sum((vs_overlap(a, b) for a in A for b in B), Fraction(0))
    return abs(aA - aB) <= tol and abs(aA - common) <= tol


def vspec(r: Rectangle) -> list:
    """what a rectangle IS — centre, shape, region read from its own attributes — in the layout of a vector spec.  (Not
    through `Rectangle.vector_spec`: that accessor is part of the writers under test; `vector_spec_faithful` compares it.)"""
    return [r.center.x, r.center.y, r.shape.w, r.shape.h, r.region]


def vector_spec_faithful(ctx: Ctx, clause: str, inp: Any, rects) -> None:
    """`Rectangle.vector_spec` (shared by Die.write_yaml and Allocation.write_yaml) must report the rectangle as it is,
    whatever its marks (fixed / hard) and region."""
    for r in rects:
        got = list(r.vector_spec)
        if not typed_eq(plain(got), plain(vspec(r))):
            ctx.spec_fail(clause, inp, {"vector_spec": got, "rectangle": vspec(r), "fixed": bool(r.fixed), "hard": bool(r.hard)}, _size(inp))
            return


# =============================================================================== producer: die
def gen_die(rng) -> dict:
    fam = rng.choice(["int", "int", "half", "dyadic", "dec", "float"])
    W = fam_coord(rng, fam, 2, 12) if fam != "float" else rng.uniform(2, 12)
    H = fam_coord(rng, fam, 2, 12) if fam != "float" else rng.uniform(2, 12)
    xs, ys = cuts(rng, fam, W, rng.randint(0, 4)), cuts(rng, fam, H, rng.randint(0, 4))
    nx, ny = len(xs) - 1, len(ys) - 1
    boxes = pick_boxes(rng, nx, ny, rng.choice([0, 0, 1, 2, 3, 5]))
    if len(boxes) == nx * ny and boxes:        # keep at least one refinable cell
        boxes.pop()
    regions, fixed = [], []
    for b in boxes:
        r = box_rect(xs, ys, b)
        if rng.random() < 0.15:
            fixed.append([maybe_int(rng, v) for v in r])
        else:
            regions.append([maybe_int(rng, v) for v in r] + [rng.choice(TAGS)])
    tree: dict[str, Any] = {"width": maybe_int(rng, W), "height": maybe_int(rng, H)}
    if regions:
        tree["regions"] = regions
    netlist = None
    if fixed or rng.random() < 0.1:
        mods = {f"F{i}": {"rectangles": [r], "fixed": True} for i, r in enumerate(fixed)}
        mods["S0"] = {"area": 1.0, "center": [W / 2, H / 2]}
        netlist = write_yaml({"Modules": mods, "Nets": []})
    clean = not regions and not fixed
    k = rng.random()
    if k < 0.35:
        op = ["none"]
    elif k < 0.85 or not clean:
        op = ["split", rng.choice([1.5, 2.0, 2.0, 3.0, 10.0]), rng.randint(1, 14)]
    else:
        op = ["grid", rng.randint(1, 4), rng.randint(2, 4)]
    return {"producer": "die", "fam": fam, "tree": tree, "netlist": netlist, "op": op,
            "tofile": rng.random() < 0.1, "reread": rng.choice(REREAD_FACTORS)}


# tolerance in force when a document is re-read in a fresh interpreter: None = undefined (nothing was loaded before);
# k = an earlier design left k × the tolerance this design would install itself (scales within ×1000, the band of C20)
REREAD_FACTORS = [None, None, None, 1e-3, 1e-2, 0.1, 10.0, 100.0, 1e3]


def die_snapshot(d: Die) -> Any:
    return {"w": d.width, "h": d.height, "wt": type(d.width).__name__, "ht": type(d.height).__name__,
            "blk": [vspec(r) for r in d.blockages], "spec": [vspec(r) for r in d.specialized_regions],
            "gnd": [vspec(r) for r in d.ground_regions], "fix": [vspec(r) for r in d.fixed_regions]}


def die_obj_wire(d: Die) -> str:
    """the part of a die the writer reads: width height blockages specialised."""
    def rl(rs):
        return " ".join([str(len(rs))] + [enc(vspec(r)) for r in rs])
    return f"{enc(d.width)} {enc(d.height)} {rl(d.blockages)} {rl(d.specialized_regions)}"


def run_die(ctx: Ctx, inp: dict, batch: Batch) -> None:
    Rectangle.undefine_epsilon()
    try:
        net = Netlist(inp["netlist"]) if inp["netlist"] else None
        d = Die(copy.deepcopy(inp["tree"]), net)
        op = inp["op"]
        if op[0] == "split":
            d.split_refinable_regions(op[1], op[2])
        elif op[0] == "grid":
            d.initial_grid(op[1], op[2])
    except (AssertionError, IndexError, ZeroDivisionError, ValueError):
        ctx.count("die:source-rejected")      # not a design (C01 territory): nothing was produced
        Rectangle.undefine_epsilon()
        return
    exact = inp["fam"] in EXACT and inp["op"][0] != "grid"     # w / ncols is inexact even on dyadic input
    before = die_snapshot(d)
    vector_spec_faithful(ctx, "die:vector-spec-is-the-rectangle", inp,
                         list(d.blockages) + list(d.specialized_regions) + list(d.ground_regions) + list(d.fixed_regions))
    try:
        s1 = d.write_yaml()
        s2 = d.write_yaml()
    except Exception as e:
        ctx.spec_fail("die:produce", inp, {"raised": repr(e)}, _size(inp))
        return
    if inp.get("tofile"):
        with tempfile.TemporaryDirectory() as td:
            fn = os.path.join(td, "die.yaml")
            ret = d.write_yaml(fn)
            s_file = open(fn).read()
        if ret is not None or s_file != s1:
            ctx.spec_fail("die:file-equals-string", inp, {"file": s_file[:300], "string": s1[:300]}, _size(inp))
    if s1 != s2:
        ctx.spec_fail("die:twice", inp, {"first": s1[:400], "second": s2[:400]}, _size(inp))
    after = die_snapshot(d)
    if not typed_eq(plain(before), plain(after)):
        ctx.spec_fail("die:pure", inp, {"before": before, "after": after}, _size(inp))
    nontrivial = bool(before["blk"] or before["spec"]) or inp["op"][0] != "none"
    ctx.case("die", ("die", s1), nontrivial, sample={"producer": "die", "op": inp["op"], "doc": s1[:300]})
    ctx.count("die:op:" + inp["op"][0])
    ctx.count("die:fam:" + inp["fam"])
    # ---- read back with the real reader
    try:
        d2 = Die(s1, net)
    except Exception as e:
        ctx.spec_fail("die:accepted", inp, {"document": s1[:600], "raised": repr(e)[:300]}, _size(inp))
        d2 = None
    if d2 is not None:
        a2 = die_snapshot(d2)
        for fld, clause in (("w", "width"), ("h", "height"), ("blk", "blockages"), ("spec", "specialised-regions"),
                            ("fix", "fixed")):
            if before[fld] != a2[fld]:
                ctx.spec_fail("die:same-" + clause, inp, {"written": before[fld], "read": a2[fld]}, _size(inp))
        if (before["wt"], before["ht"]) != (a2["wt"], a2["ht"]):
            ctx.count("die:int-float-tag-changed")
        scale = max(1.0, float(before["w"]) * float(before["h"]))
        tol = Fraction(0) if exact else Fraction(scale) / 10 ** 9
        if inp["op"][0] == "none":
            if before["gnd"] != a2["gnd"]:
                ctx.spec_fail("die:same-ground-list", inp, {"written": before["gnd"], "read": a2["gnd"]}, _size(inp))
        if not same_region(before["gnd"], a2["gnd"], tol):
            ctx.spec_fail("die:same-ground-region", inp, {"written": before["gnd"], "read": a2["gnd"]}, _size(inp))
        if d2.write_yaml() != s1:
            ctx.spec_fail("die:rewrite-stable", inp, {"first": s1[:300], "again": d2.write_yaml()[:300]}, _size(inp))
    # ---- read back in a FRESH interpreter, under no tolerance or the tolerance an earlier design of another scale left
    own = min(float(before["w"]), float(before["h"])) * 10e-12
    factor = inp.get("reread")
    preset = None if factor is None else own * factor
    coords_x = sorted({float(v) for r in before["blk"] + before["spec"] + before["fix"] for v in (vs_bb(r)[0], vs_bb(r)[2])} | {0.0, float(before["w"])})
    coords_y = sorted({float(v) for r in before["blk"] + before["spec"] + before["fix"] for v in (vs_bb(r)[1], vs_bb(r)[3])} | {0.0, float(before["h"])})
    gaps = [b - a for cs in (coords_x, coords_y) for a, b in zip(cs, cs[1:])]
    in_band = preset is None or not gaps or min(gaps) > 4 * preset

    def cmp_die(ctx: Ctx, job: dict, res: dict) -> None:
        if "raised" in res:
            if in_band:
                ctx.spec_fail("die:fresh-reread-accepted", inp, {"document": s1[:400], "preset_tolerance": job.get("preset"),
                                                                  "raised": res["raised"]}, _size(inp))
            else:
                ctx.count("fresh:die:outside-band")
            return
        got = res["die"]
        bad = [fld for fld in ("w", "h", "blk", "spec", "fix") if plain(before[fld]) != got[fld]]
        if inp["op"][0] == "none" and plain(before["gnd"]) != got["gnd"]:
            bad.append("gnd")
        scale = max(1.0, float(before["w"]) * float(before["h"]))
        tol = Fraction(0) if exact else Fraction(scale) / 10 ** 9
        if not same_region(before["gnd"], got["gnd"], tol):
            bad.append("ground-region")
        if res.get("rewrite") != s1:
            bad.append("rewrite")
        if bad:
            if in_band:
                ctx.spec_fail("die:fresh-reread-same", inp, {"differs": bad, "preset_tolerance": job.get("preset"),
                                                              "tolerance_in_force": res.get("eps")}, _size(inp))
            else:
                ctx.count("fresh:die:outside-band")
    batch.fresh.add({"kind": "die", "doc": s1, "netlist": inp["netlist"], "preset": preset}, cmp_die)
    # ---- Lean model: writer on the object, reader on the tree
    tree1 = load_text(s1)
    batch.add("F die_write " + die_obj_wire(d), tree1, "die_write", inp)
    try:
        from frame.die.yaml_parse_die import parse_yaml_die
        bbx, regs = parse_yaml_die(s1)
        blk = [vspec(r) for r in regs if r.region == "#"]
        spc = [vspec(r) for r in regs if r.region != "#"]
        exp: Any = [bbx.shape.w, bbx.shape.h, blk, spc]
    except AssertionError:
        exp = "err:Assert"
    batch.add("F die_read " + enc(tree1), exp, "die_read", inp)
    Rectangle.undefine_epsilon()


# =============================================================================== producer: allocation
def gen_alloc(rng) -> dict:
    """either a directly generated allocation tree, or die + netlist → create_initial_allocation → refinements."""
    fam = rng.choice(["int", "half", "dyadic", "dec", "float"])
    W = fam_coord(rng, fam, 2, 12) if fam != "float" else rng.uniform(2, 12)
    H = fam_coord(rng, fam, 2, 12) if fam != "float" else rng.uniform(2, 12)
    if rng.random() < 0.5:
        xs, ys = cuts(rng, fam, W, rng.randint(0, 3)), cuts(rng, fam, H, rng.randint(0, 3))
        nx, ny = len(xs) - 1, len(ys) - 1
        boxes = pick_boxes(rng, nx, ny, rng.randint(1, 8))
        cells = []
        for b in boxes:
            r = [maybe_int(rng, v, 0.3) for v in box_rect(xs, ys, b)]
            if rng.random() < 0.6:
                r.append(rng.choice(["_", "_", "dsp", "bram", "LUT_2"]))
            alloc = {}
            for m in rng.sample(MODS, rng.randint(0, 3)):
                alloc[m] = rng.choice([0.0, 1.0, 0.5, 0.25, 1, 0, rng.random(), rng.random(), 1e-05, 0.1 + 0.2])
            c = [r, alloc]
            if rng.random() < 0.5:
                c.append(rng.choice([0, 1, 2, 3, 7]))
            cells.append(c)
        # cells that are FIXED, at depth 0 and — the region the writer / reader must not special-case — at depth > 0:
        # (i) the document itself carries the four-entry form `[rect, alloc, depth, fixed]`;
        # (ii) the marks are set on the (already refined) object by `initial_allocation(netlist)` with fixed modules that
        #      coincide with some of its cells (`_detect_fixed_rectangles` marks the SOURCE object's rectangles)
        mode = rng.choice(["none", "none", "four-entry", "four-entry", "via-netlist"])
        marknet = None
        if mode == "four-entry":
            for c in rng.sample(cells, rng.randint(1, min(3, len(cells)))):
                if len(c) == 2:
                    c.append(rng.choice([0, 0, 1, 2, 3]))
                c.append("fixed")
        elif mode == "via-netlist":
            idx = rng.sample(range(len(cells)), rng.randint(1, min(2, len(cells))))
            for i in idx:
                if len(cells[i]) == 2:
                    cells[i].append(rng.choice([1, 2, 3]))
                elif cells[i][2] == 0 and rng.random() < 0.7:
                    cells[i][2] = rng.choice([1, 2])
            mods = {f"F{k}": {"rectangles": [[float(v) for v in cells[i][0][:4]]], "fixed": True} for k, i in enumerate(idx)}
            mods["S0"] = {"area": 0.25, "center": [W / 2, H / 2]}
            marknet = write_yaml({"Modules": mods, "Nets": []})
        ops = []
        for _ in range(rng.choice([0, 0, 1, 2])):
            ops.append(rng.choice([["refine", rng.choice([0.3, 0.6, 0.9, 1.0]), rng.randint(1, 3)], ["uniform"], ["griddify"]]))
        return {"producer": "alloc", "fam": fam, "kind": "tree", "cells": cells, "ops": ops, "tofile": rng.random() < 0.1,
                "reread": rng.choice(REREAD_FACTORS), "marknet": marknet}
    # pipeline
    xs, ys = cuts(rng, fam, W, rng.randint(0, 3)), cuts(rng, fam, H, rng.randint(0, 3))
    nx, ny = len(xs) - 1, len(ys) - 1
    boxes = pick_boxes(rng, nx, ny, rng.choice([0, 1, 2, 3]))
    if len(boxes) == nx * ny and boxes:
        boxes.pop()
    regions, mods = [], {}
    for b in boxes:
        r = box_rect(xs, ys, b)
        if rng.random() < 0.3:
            mods[f"F{len(mods)}"] = {"rectangles": [r], "fixed": True}
        else:
            regions.append(r + [rng.choice(["#", "dsp", "bram"])])
    for i in range(rng.randint(1, 3)):
        a = rng.choice([0.5, 1.0, 2.0, 4.0])
        s = math.sqrt(a)
        mods[f"S{i}"] = {"area": a, "center": [rng.uniform(s / 2, W - s / 2), rng.uniform(s / 2, H - s / 2)]}
    die: dict[str, Any] = {"width": W, "height": H}
    if regions:
        die["regions"] = regions
    ops = [["split", rng.choice([2.0, 3.0]), rng.randint(1, 8)]] if rng.random() < 0.5 else []
    ops2 = []
    for _ in range(rng.choice([0, 1, 1, 2])):
        ops2.append(rng.choice([["refine", rng.choice([0.3, 0.6, 0.9, 1.0]), rng.randint(1, 2)], ["uniform"], ["griddify"]]))
    return {"producer": "alloc", "fam": fam, "kind": "pipeline", "die": die, "netlist": write_yaml({"Modules": mods, "Nets": []}),
            "dieops": ops, "ops": ops2, "zero": rng.random() < 0.3, "tofile": rng.random() < 0.1,
            "reread": rng.choice(REREAD_FACTORS)}


MARK_CARRIED: bool | None = None


def mark_carried() -> bool:
    """does the implementation under test write the `fixed` mark of an allocation cell into the document
    (fixes/C19_alloc_fixed_mark.diff applied)?  Probed once, through the public API: a marked cell is written."""
    global MARK_CARRIED
    if MARK_CARRIED is None:
        try:
            Rectangle.undefine_epsilon()
            r = Rectangle(center=Point(1, 1), shape=Shape(2, 2), fixed=True)
            a = Allocation([(r, {"F": 1.0}, 0), (Rectangle(center=Point(3, 1), shape=Shape(2, 2)), {"S": 0.5}, 0)])
            tree = load_text(a.write_yaml())
            MARK_CARRIED = len(tree[0]) == 4
        except Exception:      # noqa: BLE001
            MARK_CARRIED = True        # cannot tell: judge against the repaired behaviour
        finally:
            Rectangle.undefine_epsilon()
    return MARK_CARRIED


def alloc_snapshot(a: Allocation) -> Any:
    return [[vspec(c.rect), bool(c.rect.fixed), [[k, v] for k, v in c.alloc.items()], c.depth] for c in a.allocations]


def alloc_obj_wire(a: Allocation) -> str:
    """the part of an allocation its writer reads: rectangle vector, ratio map, depth and the `fixed` mark of every cell."""
    cells = [[vspec(c.rect), dict(c.alloc), c.depth, bool(c.rect.fixed)] for c in a.allocations]
    return enc(cells)


def build_alloc(inp: dict) -> Allocation:
    if inp["kind"] == "tree":
        a = Allocation(copy.deepcopy(inp["cells"]))
        if inp.get("marknet"):
            # `initial_allocation` marks the rectangles of THIS object that fixed modules of the netlist cover (its result is
            # a new allocation; the object written below is the source, now carrying marks on cells of any depth)
            try:
                a.initial_allocation(Netlist(inp["marknet"]), True)
            except (AssertionError, ZeroDivisionError):
                pass
    else:
        net = Netlist(inp["netlist"])
        d = Die(copy.deepcopy(inp["die"]), net)
        for op in inp["dieops"]:
            d.split_refinable_regions(op[1], op[2])
        a = create_initial_allocation(d, inp["zero"])
    for op in inp["ops"]:
        n = len(a.allocations)
        depths = [c.depth for c in a.allocations]
        # keep the objects small: the readers check all pairs of cells (quadratic)
        if op[0] == "refine" and n * 2 ** op[2] <= 250:
            a = a.refine(op[1], op[2])
        elif op[0] == "uniform" and sum(2 ** (max(depths) - d) for d in depths) <= 250:
            a = a.uniform_refinement_depth()
        elif op[0] == "griddify" and n <= 40:
            a = a.griddify()
    return a


def alloc_parse_expected(tree1: Any, a2: Allocation | None) -> Any:
    """what the allocation reader's tree parser makes of a document.  Private route: `_parse_yaml_tree` on a bare
    object (parser only, like the Lean `readAlloc`); public route: the allocation the full constructor built."""
    parser = getattr(Allocation, "_parse_yaml_tree", None)
    if callable(parser):
        try:
            probe = Allocation.__new__(Allocation)
            parser(probe, copy.deepcopy(tree1))
            cells = getattr(probe, "_allocations", None)
            if cells is None:
                cells = probe.allocations
            return [[vspec(c.rect), dict(c.alloc), c.depth, bool(c.rect.fixed)] for c in cells]
        except AssertionError:
            return "err:Assert"
        except (AttributeError, TypeError):
            pass
    observation_missing("Allocation._parse_yaml_tree/_allocations",
                        "parser-only comparison replaced by the cells of Allocation(document).allocations "
                        "(skipped for documents the full constructor rejects)")
    if a2 is None:
        return None
    return [[vspec(c.rect), dict(c.alloc), c.depth, bool(c.rect.fixed)] for c in a2.allocations]


def same_after_ops(a: Allocation, b: Allocation) -> str | None:
    """the object read back must answer the public refinement operations as the object that was written (they look at
    the cells, the ratios, the depths and the `fixed` marks): None, or what differs."""
    for name, op in (("must_be_refined(0.6)", lambda x: x.must_be_refined(0.6)), ("must_be_refined(1.0)", lambda x: x.must_be_refined(1.0)),
                     ("max_refinement_depth()", lambda x: x.max_refinement_depth())):
        if op(a) != op(b):
            return name
    n = len(a.allocations)
    depths = [c.depth for c in a.allocations]
    ops = []
    if 2 * n <= 250:
        ops.append(("refine(1.0, 1)", lambda x: x.refine(1.0, 1)))
    if sum(2 ** (max(depths) - d) for d in depths) <= 250:
        ops.append(("uniform_refinement_depth()", lambda x: x.uniform_refinement_depth()))
    if n <= 30:
        ops.append(("griddify()", lambda x: x.griddify()))
    for name, op in ops:
        ra = rb = None
        try:
            with contextlib.redirect_stdout(QUIET):
                ra = alloc_snapshot(op(a))
        except (AssertionError, ZeroDivisionError, IndexError):
            ra = "raised"
        try:
            with contextlib.redirect_stdout(QUIET):
                rb = alloc_snapshot(op(b))
        except (AssertionError, ZeroDivisionError, IndexError):
            rb = "raised"
        if ra == "raised" or rb == "raised":
            if ra != rb:
                return name + " (one of them raised)"
            continue
        if not typed_eq(plain(ra), plain(rb)):
            return name
    return None


def run_alloc(ctx: Ctx, inp: dict, batch: Batch) -> Allocation | None:
    Rectangle.undefine_epsilon()
    try:
        with contextlib.redirect_stdout(QUIET):
            a = build_alloc(inp)
    except (AssertionError, IndexError, ZeroDivisionError, ValueError, TypeError):
        ctx.count("alloc:source-rejected")     # C01/C02/C12 territory: no object, nothing produced
        Rectangle.undefine_epsilon()
        return None
    before = alloc_snapshot(a)
    vector_spec_faithful(ctx, "alloc:vector-spec-is-the-rectangle", inp, [c.rect for c in a.allocations])
    if any(c[1] and c[0][4] != "_" for c in before):
        ctx.count("alloc:fixed-cell-in-specialised-region")
    try:
        s1 = a.write_yaml()
        s2 = a.write_yaml()
    except Exception as e:
        ctx.spec_fail("alloc:produce", inp, {"raised": repr(e)}, _size(inp))
        return None
    if s1 != s2:
        ctx.spec_fail("alloc:twice", inp, {"first": s1[:400], "second": s2[:400]}, _size(inp))
    if not typed_eq(plain(before), plain(alloc_snapshot(a))):
        ctx.spec_fail("alloc:pure", inp, {"before": before, "after": alloc_snapshot(a)}, _size(inp))
    nontrivial = any(c[2] for c in before)
    ctx.case("alloc", ("alloc", s1), nontrivial, sample={"producer": "alloc", "kind": inp["kind"], "ops": inp["ops"], "doc": s1[:300]})
    ctx.count("alloc:kind:" + inp["kind"])
    ctx.count("alloc:fam:" + inp["fam"])
    ctx.count("alloc:depth>0" if any(c[3] > 0 for c in before) else "alloc:depth=0")
    if any(c[1] and c[3] > 0 for c in before):
        ctx.count("alloc:fixed-and-refined-cell")
    if any(c[1] and c[3] == 0 for c in before):
        ctx.count("alloc:fixed-unrefined-cell")
    with tempfile.TemporaryDirectory() as td:
        fn = os.path.join(td, "alloc.yaml")
        # the document is handed back AS TEXT (`Allocation(a.write_yaml())`), always; a tenth of the cases also go through
        # a file.  A document in which no cell lists a module contains no ': ': on the unrepaired code `read_yaml` takes it
        # for a file name (finding C19-alloc-text-no-ratio, fixes/C19_alloc_text_no_ratio.diff) — that exact signature
        # (no ': ' in the text, OSError from open()) is attributed to the finding and the comparison goes on via a file
        if ": " not in s1:
            ctx.count("alloc:no-ratio-entry")
        a2 = None
        try:
            a2 = Allocation(s1)
        except OSError as e:
            if ": " not in s1:
                ctx.spec_fail("alloc:accepted-as-text", inp, {"document": s1[:300], "raised": repr(e)[:200]}, _size(inp),
                              finding="C19-alloc-text-no-ratio")
            else:
                ctx.spec_fail("alloc:accepted", inp, {"document": s1[:600], "raised": repr(e)[:300]}, _size(inp))
        except Exception as e:
            ctx.spec_fail("alloc:accepted", inp, {"document": s1[:600], "raised": repr(e)[:300]}, _size(inp))
        if inp.get("tofile") or (a2 is None and ": " not in s1):
            ret = a.write_yaml(fn)
            s_file = open(fn).read()
            if ret is not None or s_file != s1:
                ctx.spec_fail("alloc:file-equals-string", inp, {"file": s_file[:300], "string": s1[:300]}, _size(inp))
            Rectangle.undefine_epsilon()
            try:
                a2f = Allocation(fn)
                if a2 is not None and not typed_eq(plain(alloc_snapshot(a2f)), plain(alloc_snapshot(a2))):
                    ctx.spec_fail("alloc:file-and-text-read-alike", inp, {}, _size(inp))
                a2 = a2 or a2f
            except Exception as e:
                ctx.spec_fail("alloc:accepted-from-file", inp, {"document": s1[:600], "raised": repr(e)[:300]}, _size(inp))
    if a2 is not None:
        after = alloc_snapshot(a2)
        if any(c[1] for c in before):
            ctx.count("alloc:with-fixed-cells")
        marks_lost = [c[1] for c in before] != [c[1] for c in after]
        if marks_lost:
            # the `fixed` mark of a cell decides what refine / must_be_refined / uniform_refinement_depth / griddify do with
            # it: an allocation read back without it is not the design that was written.  The signature "every written
            # mark comes back False" is the defect fixes/C19_alloc_fixed_mark.diff repairs.
            lost_only = all(not m for m in [c[1] for c in after])
            if lost_only and not mark_carried():
                # the tree under test is the code AS FOUND (the repair is not applied yet): the known defect is announced
                # once in the notes and counted; it is judged against the as-found model (`writeAllocOrig`/`readAllocOrig`)
                ctx.count("alloc:fixed-mark-LOST(defect C19_alloc_fixed_mark present, repair pending)")
            else:
                ctx.spec_fail("alloc:same-fixed-marks", inp, {"written": [c[1] for c in before], "read": [c[1] for c in after],
                                                             "document": s1[:400]}, _size(inp),
                              finding="C19_alloc_fixed_mark" if lost_only else None)
        if [c[0] for c in before] != [c[0] for c in after]:
            ctx.spec_fail("alloc:same-cells", inp, {"written": [c[0] for c in before], "read": [c[0] for c in after]}, _size(inp))
        elif [c[2] for c in before] != [c[2] for c in after]:
            ctx.spec_fail("alloc:same-ratios", inp, {"written": [c[2] for c in before], "read": [c[2] for c in after]}, _size(inp))
        elif [c[3] for c in before] != [c[3] for c in after]:
            ctx.spec_fail("alloc:same-depths", inp, {"written": [c[3] for c in before], "read": [c[3] for c in after]}, _size(inp))
        else:
            mods = sorted({m for c in before for m, _ in c[2]})
            for m in mods:
                if a.area(m) != a2.area(m) or a.center(m) != a2.center(m):
                    ctx.spec_fail("alloc:same-module-area-centre", inp, {"module": m}, _size(inp))
        if a2.write_yaml() != s1:
            ctx.spec_fail("alloc:rewrite-stable", inp, {"first": s1[:300]}, _size(inp))
        if not marks_lost and [c[:1] + c[2:] for c in before] == [c[:1] + c[2:] for c in after]:
            diff = same_after_ops(a, a2)
            if diff:
                ctx.spec_fail("alloc:same-answers-after-reread", inp, {"operation": diff, "document": s1[:400]}, _size(inp))
        # ---- read back in a FRESH interpreter, under no tolerance or the tolerance an earlier design of another scale left
        bb = a.bounding_box.shape
        factor = inp.get("reread")
        preset = None if factor is None else 1e-12 * min(bb.w, bb.h) * factor
        stats = [[m, a.area(m), a.center(m).x, a.center(m).y] for m in sorted({m for c in before for m, _ in c[2]})]
        in_process_marks_ok = not marks_lost

        def cmp_alloc(ctx: Ctx, job: dict, res: dict) -> None:
            if "raised" in res:
                ctx.spec_fail("alloc:fresh-reread-accepted", inp, {"document": s1[:400], "preset_tolerance": job.get("preset"),
                                                                    "raised": res["raised"]}, _size(inp))
                return
            want = plain(before)
            got = res["cells"]
            if not in_process_marks_ok:          # already reported by alloc:same-fixed-marks
                want = [c[:1] + c[2:] for c in want]
                got = [c[:1] + c[2:] for c in got]
            if not typed_eq(want, got):
                ctx.spec_fail("alloc:fresh-reread-same-cells", inp, {"preset_tolerance": job.get("preset"), "written": want[:6], "read": got[:6]}, _size(inp))
            elif not typed_eq(plain(stats), res["stats"]):
                ctx.spec_fail("alloc:fresh-reread-same-module-area-centre", inp, {"written": stats, "read": res["stats"]}, _size(inp))
            elif in_process_marks_ok and res.get("rewrite") != s1:
                ctx.spec_fail("alloc:fresh-reread-rewrite-stable", inp, {"first": s1[:300], "again": str(res.get("rewrite"))[:300]}, _size(inp))
        batch.fresh.add({"kind": "alloc", "doc": s1, "preset": preset}, cmp_alloc)
    tree1 = load_text(s1)
    suffix = "" if mark_carried() else "_orig"
    batch.add(f"F alloc_write{suffix} " + alloc_obj_wire(a), tree1, "alloc_write" + suffix, inp)
    exp = alloc_parse_expected(tree1, a2)
    if exp is not None:
        batch.add(f"F alloc_read{suffix} " + enc(tree1), exp, "alloc_read" + suffix, inp)
    Rectangle.undefine_epsilon()
    return a


# =============================================================================== producer: netgen
NETGEN_MIN = {"chain": 1, "star": 1, "one-net": 2, "ring": 3, "ring-star": 4, "htree": 1, "grid": 1}


def mname(i: int, j: int = -1) -> str:
    return f"M{i}" if j < 0 else f"M{i}_{j}"


def htree_size(levels: int) -> int:
    return 1 if levels == 1 else 3 + 4 * htree_size(levels - 1)


def htree_spec(levels: int, first: int, w: float):
    """closed-form H-tree: sub-tree k of a node `first` with `levels` levels starts at first + 3 + k·size(levels-1)."""
    names, nets = [first], []
    if levels == 1:
        return names, nets
    left, right = first + 1, first + 2
    names += [left, right]
    nets += [([left, first], w), ([right, first], w)]
    cs = [first + 3 + k * htree_size(levels - 1) for k in range(4)]
    for c in cs:
        nets.append(([first, c], w))
        n2, e2 = htree_spec(levels - 1, c, 2 * w)
        names += n2
        nets += e2
    nets += [([left, cs[0]], w), ([left, cs[1]], w), ([right, cs[2]], w), ([right, cs[3]], w)]
    return names, nets


def topo_spec(kind: str, size: list[int]):
    """intended topology: (module names in order, [(member names, weight)])."""
    n = size[0]
    if kind == "grid":
        r_, c_ = size
        names = [mname(r, c) for r in range(r_) for c in range(c_)]
        nets = [([mname(r, c), mname(r, c + 1)], 1.0) for r in range(r_) for c in range(c_ - 1)]
        nets += [([mname(r, c), mname(r + 1, c)], 1.0) for r in range(r_ - 1) for c in range(c_)]
        return names, nets
    if kind == "htree":
        ns, es = htree_spec(n, 0, 1.0)
        return [mname(i) for i in ns], [([mname(a), mname(b)], w) for (a, b), w in es]
    names = [mname(i) for i in range(n)]
    if kind == "chain":
        pairs = [[i, i + 1] for i in range(n - 1)]
    elif kind == "ring":
        pairs = [[i, (i + 1) % n] for i in range(n)]
    elif kind == "star":
        pairs = [[0, i] for i in range(1, n)]
    elif kind == "ring-star":
        pairs = [[i, i + 1] for i in range(1, n - 1)] + [[n - 1, 1]] + [[0, i] for i in range(1, n)]
    elif kind == "one-net":
        pairs = [list(range(n))]
    else:
        raise ValueError(kind)
    return names, [([mname(i) for i in p], 1.0) for p in pairs]


def netgen_data(kind: str, size: list[int]):
    from tools.netgen import netgen
    f = {"grid": lambda: netgen.gen_grid(size[0], size[1], 1), "chain": lambda: netgen.gen_chain(size[0], 1),
         "ring": lambda: netgen.gen_ring(size[0], 1), "star": lambda: netgen.gen_star(size[0], 1),
         "ring-star": lambda: netgen.gen_ring_star(size[0], 1), "one-net": lambda: netgen.gen_one_net(size[0], 1),
         "htree": lambda: netgen.gen_htree(size[0], 1)}[kind]
    return f()


def netgen_dump(data) -> str:
    from ruamel.yaml import YAML
    yaml = YAML()
    yaml.default_flow_style = False
    s = io.StringIO()
    yaml.dump(data, s)
    return s.getvalue()


def netlist_summary(n: Netlist) -> dict:
    return {"modules": [{"name": m.name, "hard": m.is_hard, "fixed": m.is_fixed, "terminal": m.is_terminal,
                         "area": dict(m.area_regions), "center": None if m.center is None else [m.center.x, m.center.y],
                         "rects": [vspec(r) for r in m.rectangles]} for m in n.modules],
            "nets": [[[m.name for m in e.modules], e.weight] for e in n.edges]}


def run_netgen(ctx: Ctx, inp: dict, batch: Batch) -> None:
    kind, size = inp["kind"], inp["size"]
    defined = all(s >= NETGEN_MIN[kind] for s in size)
    Rectangle.undefine_epsilon()
    req = f"F netgen {kind} {size[0]} {size[1] if len(size) > 1 else 0}"
    try:
        d1 = netgen_data(kind, size)
        d2 = netgen_data(kind, size)
        s1, s1b, s2 = netgen_dump(d1), netgen_dump(d1), netgen_dump(d2)
    except AssertionError:
        if defined:
            ctx.spec_fail("netgen:produce", inp, {"raised": "AssertionError"}, sum(size))
        else:
            # below the generator's guard (h-tree with no level): the model must raise the same class
            ctx.case("netgen-undefined", ("netgen", kind, tuple(size)), False)
            ctx.count(f"netgen:undefined-size-generator-asserts:{kind}")
            batch.add(req, "err:Assert", "netgen:" + kind, inp)
        return
    if not defined:
        # sizes at which the topology is not defined (self-loops, one-pin nets, unknown modules, negative sizes): no claim
        # about the design, but the generator model and the reader model must still do what the code does — same tree,
        # same accept / reject verdict of the reader (and the same loaded netlist when it accepts)
        ctx.case("netgen-undefined", ("netgen", kind, tuple(size)), False)
        try:
            Netlist(s1)
            ctx.count(f"netgen:undefined-size-accepted:{kind}")
        except AssertionError:
            ctx.count(f"netgen:undefined-size-rejected:{kind}")
        except Exception as e:      # noqa: BLE001
            ctx.spec_fail("netgen:undefined-size-reader-raised", inp, {"raised": repr(e)[:200], "document": s1[:300]}, abs(sum(size)))
        if s1 != s1b or s1 != s2:
            ctx.spec_fail("netgen:twice", inp, {"first": s1[:300], "second": s2[:300]}, abs(sum(size)))
        batch.add(req, plain(d1), "netgen:" + kind, inp)
        nl_read_request(batch, s1, inp)
        Rectangle.undefine_epsilon()
        return
    if s1 != s1b or s1 != s2:
        ctx.spec_fail("netgen:twice", inp, {"first": s1[:300], "second": s2[:300]}, sum(size))
    names, nets = topo_spec(kind, size)
    ctx.case("netgen", ("netgen", kind, tuple(size)), len(nets) > 0, sample={"producer": "netgen", "kind": kind, "size": size})
    ctx.count("netgen:" + kind)
    if inp.get("cli"):
        from tools.netgen import netgen
        with tempfile.TemporaryDirectory() as td:
            fn = os.path.join(td, "n.yaml")
            netgen.main("netgen", ["-o", fn, "--type", kind, "--size"] + [str(s) for s in size])
            if open(fn).read() != s1:
                ctx.spec_fail("netgen:cli-equals-builder", inp, {}, sum(size))
    # clauses of the theorem, on the implementation's own output
    if len(set(names)) != len(names) or not all(valid_identifier(x) for x in names):
        ctx.spec_fail("netgen:names", inp, {"names": names[:20]}, sum(size))
    try:
        nl = Netlist(s1)
    except Exception as e:
        ctx.spec_fail("netgen:accepted", inp, {"document": s1[:400], "raised": repr(e)[:200]}, sum(size))
        nl = None
    if nl is not None:
        sm = netlist_summary(nl)
        if [m["name"] for m in sm["modules"]] != names:
            ctx.spec_fail("netgen:topology-modules", inp, {"read": [m["name"] for m in sm["modules"]][:30], "intended": names[:30]}, sum(size))
        if any(m["hard"] or m["fixed"] or m["terminal"] or m["area"] != {"_": 1.0} or m["rects"] for m in sm["modules"]):
            ctx.spec_fail("netgen:module-kind-area", inp, {}, sum(size))
        if sm["nets"] != [[a, w] for a, w in nets]:
            ctx.spec_fail("netgen:topology-nets", inp, {"read": sm["nets"][:30], "intended": nets[:30]}, sum(size))
        for mem, w in sm["nets"]:
            if len(set(mem)) < 2 or len(set(mem)) != len(mem) or not set(mem) <= set(names) or not w > 0:
                ctx.spec_fail("netgen:net-wellformed", inp, {"net": mem, "weight": w}, sum(size))
                break
    tree1 = load_text(s1)
    if not typed_eq(tree1, plain(d1)):
        ctx.spec_fail("netgen:text-denotes-data", inp, {}, sum(size))
    batch.add(req, plain(d1), "netgen:" + kind, inp)
    if sum(size) <= 14 or kind == "htree" and size[0] <= 2:
        nl_read_request(batch, s1, inp)
    Rectangle.undefine_epsilon()


def nl_read_request(batch: "Batch", doc: str, inp: Any) -> None:
    """queue the Lean reader model (C04/C05's `parseNetlist`) on a produced document, with the area tolerance the real
    reader was working with, against what the real reader makes of it."""
    exp, eps_a = _nl_expected(doc)
    batch.add("F nl_read " + f2hex(eps_a) + " " + enc(load_text(doc)), exp, "nl_read", inp, "tol")


def gen_netgen_centres(rng) -> dict:
    rows, cols = rng.randint(1, 5), rng.randint(1, 5)
    k = rng.random()
    if k < 0.12:            # below the guards: no rows (division by zero), no columns (chain names, no centres), negative
        rows, cols = rng.choice([(0, rng.randint(1, 3)), (rng.randint(0, 3), 0), (-1, 2), (2, -1), (0, 0), (-2, -2), (rng.randint(1, 3), 0)])
    fam = rng.choice(["int", "half", "dec", "float"])
    W = fam_coord(rng, fam, 1, 40) if fam != "float" else rng.uniform(1, 40)
    H = fam_coord(rng, fam, 1, 40) if fam != "float" else rng.uniform(1, 40)
    return {"producer": "netgenc", "rows": rows, "cols": cols, "W": float(W), "H": float(H), "nodie": rng.random() < 0.05,
            "sd": rng.choice([0, 0, 0.1, 0.5, 1e-3]), "seed": rng.randint(0, 10 ** 6), "cli": rng.random() < 0.15}


def run_netgen_centres(ctx: Ctx, inp: dict, batch: Batch) -> None:
    """`netgen --type grid --add-centers` (gen_grid / gen_modules with add_centers, optional gaussian noise)."""
    import random
    from tools.netgen import netgen
    rows, cols, W, H, sd, seed = inp["rows"], inp["cols"], inp["W"], inp["H"], inp["sd"], inp["seed"]
    nodie = bool(inp.get("nodie"))
    shape = None if nodie else Shape(W, H)
    sz = abs(rows * cols)
    Rectangle.undefine_epsilon()
    random.seed(seed)
    ndraws = 2 * rows * cols if rows > 0 and cols > 0 else 0
    draws = [random.gauss(0, sd) for _ in range(ndraws)]     # the draws, in the order gen_modules makes them
    req = f"F netgenc {rows} {cols} {0 if nodie else 1} {f2hex(W)} {f2hex(H)} {len(draws)} " + " ".join(f2hex(v) for v in draws)
    degenerate = rows < 1 or cols < 1 or nodie
    try:
        random.seed(seed)
        d1 = netgen.gen_grid(rows, cols, 1, True, sd, shape)
        random.seed(seed)
        d2 = netgen.gen_grid(rows, cols, 1, True, sd, shape)
    except (AssertionError, ZeroDivisionError) as e:
        if not degenerate:
            ctx.spec_fail("netgenc:produce", inp, {"raised": repr(e)[:200]}, sz)
            return
        ctx.case("netgen-undefined", ("netgenc", rows, cols, nodie), False)
        ctx.count("netgen:grid+centres:undefined:" + type(e).__name__)
        batch.add(req.rstrip(), err_class(e), "netgen:grid+centres", inp)
        return
    s1, s2 = netgen_dump(d1), netgen_dump(d2)
    if degenerate:
        ctx.case("netgen-undefined", ("netgenc", rows, cols, nodie), False)
        ctx.count("netgen:grid+centres:undefined:returns")
        batch.add(req.rstrip(), plain(d1), "netgen:grid+centres", inp, "tol")
        nl_read_request(batch, s1, inp)
        return
    ctx.case("netgen", ("netgenc", rows, cols, W, H, sd, seed), True,
             sample={"producer": "netgen --add-centers", "rows": rows, "cols": cols, "die": [W, H], "sd": sd})
    ctx.count("netgen:grid+centres" + (":noise" if sd else ":exact"))
    if s1 != s2:
        ctx.spec_fail("netgenc:twice-same-seed", inp, {}, sz)
    if inp.get("cli"):
        with tempfile.TemporaryDirectory() as td:
            fn = os.path.join(td, "n.yaml")
            args = ["-o", fn, "--type", "grid", "--size", str(rows), str(cols), "--add-centers", "--die", f"{W!r}x{H!r}",
                    "--seed", str(seed)] + (["--add-noise", repr(sd)] if sd else [])
            netgen.main("netgen", args)
            Rectangle.undefine_epsilon()
            if open(fn).read() != s1:
                ctx.spec_fail("netgenc:cli-equals-builder", inp, {}, sz)
    # the clause: the centre of M_r_c is the centre of cell (r, c) of the rows × cols grid on the W × H die (+ its draws)
    names, nets = topo_spec("grid", [rows, cols])
    for r in range(rows):
        for c in range(cols):
            k = r * cols + c
            want = (Fraction(2 * c + 1, 2 * cols) * Fraction(W) + Fraction(draws[2 * k]),
                    Fraction(2 * r + 1, 2 * rows) * Fraction(H) + Fraction(draws[2 * k + 1]))
            got = plain(d1)["Modules"].get(mname(r, c), {}).get("center")
            tol = Fraction(1, 10 ** 9) * max(Fraction(W), Fraction(H))
            if not (isinstance(got, list) and len(got) == 2 and abs(Fraction(got[0]) - want[0]) <= tol and abs(Fraction(got[1]) - want[1]) <= tol):
                ctx.spec_fail("netgenc:centre-is-cell-centre", inp, {"module": mname(r, c), "centre": got, "intended": [float(want[0]), float(want[1])]}, sz)
                break
            if not sd and not (Fraction(c, cols) * Fraction(W) < Fraction(got[0]) < Fraction(c + 1, cols) * Fraction(W)
                               and Fraction(r, rows) * Fraction(H) < Fraction(got[1]) < Fraction(r + 1, rows) * Fraction(H)):
                ctx.spec_fail("netgenc:centre-inside-its-cell", inp, {"module": mname(r, c), "centre": got}, sz)
                break
    try:
        nl = Netlist(s1)
    except Exception as e:
        ctx.spec_fail("netgenc:accepted", inp, {"document": s1[:400], "raised": repr(e)[:200]}, sz)
        nl = None
    Rectangle.undefine_epsilon()
    if nl is not None:
        sm = netlist_summary(nl)
        if [m["name"] for m in sm["modules"]] != names or sm["nets"] != [[a, w] for a, w in nets]:
            ctx.spec_fail("netgenc:topology", inp, {}, sz)
        for m in sm["modules"]:
            if m["hard"] or m["rects"] or m["area"] != {"_": 1.0} or m["center"] != [float(v) for v in plain(d1)["Modules"][m["name"]]["center"]]:
                ctx.spec_fail("netgenc:same-centre-area", inp, {"module": m["name"], "read": m}, sz)
                break
    batch.add(req.rstrip(), plain(d1), "netgen:grid+centres", inp, "tol")
    nl_read_request(batch, s1, inp)


# ------------------------------------------------------------------------------- netgen: the command line
NETGEN_TYPES = ["grid", "chain", "ring", "star", "ring-star", "one-net", "htree"]


def gen_netgen_main(rng) -> dict:
    if rng.random() < 0.3:
        # the command line the seed exists for: a grid with centres, a die, noise > 0 and every kind of legal seed
        return {"producer": "netgenmain", "type": "grid", "size": [rng.randint(1, 4), rng.randint(1, 4)], "add": True,
                "die": [float(rng.randint(2, 30)), float(rng.choice([rng.randint(2, 30), rng.randint(4, 60) / 2]))],
                "noise": rng.choice(["flag", 0.25, 1e-3, 0.5, 2.0]), "seed": rng.choice([0, 0, 0, 1, 7, None, rng.randint(2, 10 ** 6)])}
    kind = rng.choice(NETGEN_TYPES)
    nsz = 2 if kind == "grid" else 1
    if rng.random() < 0.25:
        nsz = rng.choice([1, 3, 3]) if kind == "grid" else rng.choice([2, 2, 3])          # wrong number of sizes
    size = [rng.choice([-2, -1, 0, 0, 1, 1, 2, 3, 4, 5]) for _ in range(nsz)]
    if kind == "htree":
        size = [min(s, 3) for s in size]
    add = rng.random() < (0.6 if kind == "grid" else 0.15)
    die = None if rng.random() < (0.15 if add else 0.6) else [float(rng.randint(1, 30)), float(rng.choice([rng.randint(1, 30), rng.randint(2, 60) / 2]))]
    noise = rng.choice([None, None, "flag", 0.0, 0.25, 1e-3, -0.5])
    if kind == "grid" and add and rng.random() < 0.6:
        noise = rng.choice(["flag", 0.25, 1e-3, 0.5, 2.0])          # a good share of the centred grids are noisy
    # every legal seed, 0 included (an int that is falsy), and no seed at all
    return {"producer": "netgenmain", "type": kind, "size": size, "add": add, "die": die, "noise": noise,
            "seed": rng.choice([None, 0, 0, 1, 7, rng.randint(0, 10 ** 6)])}


def run_netgen_main(ctx: Ctx, inp: dict, batch: Batch) -> None:
    """`netgen.main` — option checks, die, seed, dispatch — against the model `netgenMain`: the written document or the
    exception class."""
    import random
    from tools.netgen import netgen
    kind, size, add, die, noise, seed = inp["type"], inp["size"], inp["add"], inp["die"], inp["noise"], inp["seed"]
    Rectangle.undefine_epsilon()
    with tempfile.TemporaryDirectory() as td:
        fn = os.path.join(td, "n.yaml")
        args = ["-o", fn, "--type", kind, "--size"] + [str(v) for v in size]
        if add:
            args.append("--add-centers")
        if die is not None:
            args += ["--die", f"{die[0]!r}x{die[1]!r}"]
        if noise == "flag":
            args.append("--add-noise")
        elif noise is not None:
            args += ["--add-noise=" + repr(noise)]
        if seed is not None:
            args += ["--seed", str(seed)]
        sd = 0.1 if noise == "flag" else 0.0 if noise is None else float(noise)
        state = random.getstate()
        out: Any
        try:
            with contextlib.redirect_stdout(QUIET), contextlib.redirect_stderr(QUIET):
                rc = netgen.main("netgen", args)
            text = open(fn).read()
            out = load_text(text)
            if rc != 0:
                ctx.spec_fail("netgenmain:return-code", inp, {"rc": rc}, _size(inp))
            # producing twice gives identical documents: the SAME command line again, in a fresh state (tolerances undefined,
            # the random generator left wherever an unrelated earlier use put it), into another file.  Without --seed a
            # noisy grid is random by design: the clause is skipped there.
            if seed is not None or sd <= 0 or not add:
                Rectangle.undefine_epsilon()
                random.seed(987654321 + len(args))
                fn2 = os.path.join(td, "n2.yaml")
                with contextlib.redirect_stdout(QUIET), contextlib.redirect_stderr(QUIET):
                    netgen.main("netgen", [fn2 if a == fn else a for a in args])
                text2 = open(fn2).read()
                ctx.count("netgenmain:run-twice" + (":seeded-noise" if add and sd > 0 and kind == "grid" else ""))
                if text2 != text:
                    ctx.spec_fail("netgenmain:twice-identical-documents", inp, {"args": args[2:], "first": text[:300], "second": text2[:300]}, _size(inp))
        except (AssertionError, ZeroDivisionError) as e:
            out = err_class(e)
        except SystemExit:
            ctx.count("netgenmain:argparse-exit")
            return
        finally:
            Rectangle.undefine_epsilon()
        # the gaussian draws main's generator makes after `random.seed(options['seed'])`: reproducible only with a seed
        draws: list[float] = []
        if add and kind == "grid" and len(size) == 2 and size[0] > 0 and size[1] > 0 and die is not None and sd >= 0:
            if seed is None and sd > 0:
                random.setstate(state)
                ctx.count("netgenmain:unseeded-noise(not compared)")
                return
            random.seed(seed)
            draws = [random.gauss(0, sd) for _ in range(2 * size[0] * size[1])]
        random.setstate(state)
    ctx.case("netgen-cli", ("netgenmain", repr(inp)), not isinstance(out, str), sample={"producer": "netgen.main", "args": args[2:]})
    ctx.count("netgenmain:" + (out if isinstance(out, str) else "writes"))
    W, H = die if die is not None else (0.0, 0.0)
    req = (f"F netgen_main {kind} {len(size)} " + " ".join(str(v) for v in size) + f" {int(add)} {f2hex(sd)} {int(die is not None)} "
           f"{f2hex(W)} {f2hex(H)} {len(draws)} " + " ".join(f2hex(v) for v in draws)).rstrip()
    req = re.sub(r"  +", " ", req)
    batch.add(req, out, "netgen:main", inp, "tol" if not isinstance(out, str) else "tree")
    if not isinstance(out, str) and sum(abs(v) for v in size) <= 10:
        nl_read_request(batch, text, inp)


def _nl_expected(text_or_tree) -> tuple[Any, float]:
    """what the real netlist reader makes of a document, in the shape the Lean op `nl_read` prints, and the area
    tolerance that was in force while it checked the hard modules."""
    Rectangle.undefine_epsilon()
    eps_a = 0.0
    try:
        with contextlib.redirect_stdout(QUIET):
            n = Netlist(copy.deepcopy(text_or_tree))
        eps_a = area_epsilon_now()
    except AssertionError:
        eps_a = area_epsilon_now()
        return "err:Assert", eps_a
    finally:
        Rectangle.undefine_epsilon()
    mods = []
    for m in n.modules:
        rects = sorted([vspec(r) for r in m.rectangles], key=lambda r: [float(x) for x in r[:4]])
        mods.append([m.name, m.is_terminal, m.is_hard, m.is_fixed, [[k, float(v)] for k, v in m.area_regions.items()], rects])
    return [mods, [[[x.name for x in e.modules], float(e.weight)] for e in n.edges]], eps_a


# =============================================================================== producer: dump_yaml_namededges
def run_namededges(ctx: Ctx, inp: dict, batch: Batch) -> None:
    edges = [NamedHyperEdge(list(m), w) for m, w in inp["edges"]]
    before = [[list(e.modules), e.weight] for e in edges]
    t1 = plain(dump_yaml_namededges(edges))
    t1 = copy.deepcopy(t1)
    t2 = plain(dump_yaml_namededges(edges))
    after = [[list(e.modules), e.weight] for e in edges]
    ctx.case("namededges", ("ne", repr(inp["edges"])), any(w != 1 for _, w in inp["edges"]))
    if not typed_eq(t1, t2):
        ctx.spec_fail("namededges:twice", inp, {"first": t1, "second": t2}, _size(inp))
    if not typed_eq(plain(before), plain(after)):
        ctx.spec_fail("namededges:pure", inp, {"before": before, "after": after}, _size(inp))
    exp = [[list(m) + ([w] if w != 1 else []) for m, w in inp["edges"]], [[list(m), w] for m, w in inp["edges"]]]
    if not typed_eq(t1, plain(exp[0])):
        ctx.spec_fail("namededges:denotes-edges", inp, {"tree": t1}, _size(inp))
    batch.add("F namededges " + enc([[list(m), w] for m, w in inp["edges"]]), [t1, plain(after)], "namededges", inp)


def gen_namededges(rng) -> dict:
    es = []
    for _ in range(rng.randint(0, 5)):
        k = rng.choice([2, 2, 2, 3, 4])
        es.append([[rng.choice(["M0", "M1", "M2", "T0", "T1"]) for _ in range(k)], rng.choice([1, 1.0, 2.0, 0.5, 3, 1e-05, 2.5e+20])])
    return {"producer": "namededges", "edges": es}


# =============================================================================== producer: FloorSet converter
def _poly(rng, shape: str, a: float, b: float, u: float):
    """rectilinear single-trunk polygons inside [0,a]×[0,b]; u = grid unit."""
    def mid(lo, hi):
        k = int(round((hi - lo) / u))
        return lo + u * rng.randint(1, max(1, k - 1))
    if shape == "rect":
        return [(0, 0), (a, 0), (a, b), (0, b)]
    c, d = mid(0, b), mid(0, a)
    if shape == "L":
        return [(0, 0), (a, 0), (a, c), (d, c), (d, b), (0, b)]
    if shape == "T" or shape == "U":
        d1 = mid(0, a)
        d2 = mid(0, a)
        d1, d2 = min(d1, d2), max(d1, d2)
        if d1 == d2:
            return [(0, 0), (a, 0), (a, c), (d, c), (d, b), (0, b)]
        if shape == "T":
            return [(0, 0), (a, 0), (a, c), (d2, c), (d2, b), (d1, b), (d1, c), (0, c)]
        return [(0, 0), (a, 0), (a, b), (d2, b), (d2, c), (d1, c), (d1, b), (0, b)]
    if shape == "plus":
        x1, x2 = sorted([mid(0, a), mid(0, a)])
        y1, y2 = sorted([mid(0, b), mid(0, b)])
        if x1 == x2 or y1 == y2:
            return [(0, 0), (a, 0), (a, b), (0, b)]
        return [(x1, 0), (x2, 0), (x2, y1), (a, y1), (a, y2), (x2, y2), (x2, b), (x1, b), (x1, y2), (0, y2), (0, y1), (x1, y1)]
    raise ValueError(shape)


def gen_floorset(rng) -> dict:
    u = rng.choice([1.0, 1.0, 0.5])
    ncol, nrow = rng.randint(1, 3), rng.randint(1, 3)
    slot = 8.0
    W, H = ncol * slot + 2, nrow * slot + 2
    slots = [(i, j) for i in range(ncol) for j in range(nrow)]
    rng.shuffle(slots)
    nb = rng.randint(1, len(slots))
    polys, areas, cons = [], [], []
    for (i, j) in slots[:nb]:
        a = u * rng.randint(3, int(6 / u))
        b = u * rng.randint(3, int(6 / u))
        ox, oy = 1 + i * slot + u * rng.randint(0, int((7 - a) / u)), 1 + j * slot + u * rng.randint(0, int((7 - b) / u))
        p = [(ox + x, oy + y) for x, y in _poly(rng, rng.choice(["rect", "L", "T", "U", "plus", "L", "T"]), a, b, u)]
        if rng.random() < 0.5:
            p = p[::-1]
        k = rng.randrange(len(p))
        p = p[k:] + p[:k]
        if rng.random() < 0.3:
            p.append(p[0])
        polys.append([list(map(float, v)) for v in p])
        areas.append(float(rng.choice([rng.randint(1, 40), rng.uniform(1, 40)])))
        c = rng.random()
        cons.append([int(c < 0.25 or 0.4 <= c < 0.5), int(0.25 <= c < 0.5), 0, 0, 0])
    pins = []
    cand = [(0.0, 0.0), (W, H), (0.0, H), (W, 0.0), (0.0, rng.randint(1, int(H) - 1)), (W, rng.randint(1, int(H) - 1)),
            (rng.randint(1, int(W) - 1), 0.0), (rng.randint(1, int(W) - 1), H), (rng.uniform(0, W), 0.0),
            (0.0, rng.uniform(0, H)), (W, rng.uniform(0, H)), (rng.uniform(0, W), H)]
    if rng.random() < 0.2:
        cand.append((rng.uniform(1, W - 1), rng.uniform(1, H - 1)))   # a pin that is not on the border
    # pins within (and just beyond) EPSILON = 1e-3 of a border: both branches of the pin placement and their boundaries
    near = [4e-4, 5e-4, 9.99e-4, 1e-3, math.nextafter(1e-3, 0.0), math.nextafter(1e-3, 1.0), 1.0000001e-3, 1.4e-3, 1e-9]
    for _ in range(rng.choice([0, 1, 2, 3])):
        d, e = rng.choice(near), rng.choice(near)
        cand.append(rng.choice([(d, rng.uniform(1, H - 1)), (W - d, rng.uniform(1, H - 1)), (rng.uniform(1, W - 1), e),
                                (rng.uniform(1, W - 1), H - e), (d, e), (W - d, H - e), (d, H - e), (W - d, e)]))
    rng.shuffle(cand)
    pins = [list(map(float, p)) for p in cand[:rng.randint(1, len(cand))]]
    # the die of an instance is spanned by its pins (width = max x, height = max y): keep it non-degenerate
    if max(p[0] for p in pins) < W:
        pins.insert(rng.randint(0, len(pins)), [W, float(rng.choice([0.0, H, rng.randint(1, int(H) - 1)]))])
    if max(p[1] for p in pins) < H:
        pins.insert(rng.randint(0, len(pins)), [float(rng.choice([0.0, W, rng.randint(1, int(W) - 1)])), H])
    wchoice = [0.0, 1.0, 1.0, 2.0, 0.5, 3.0, 7.0]
    b2b = [[float(rng.randrange(nb)), float(rng.randrange(nb)), rng.choice(wchoice)] for _ in range(rng.randint(0, 6))]
    b2b = [e for e in b2b if e[0] != e[1]]
    p2b = [[float(rng.randrange(len(pins))), float(rng.randrange(nb)), rng.choice(wchoice)] for _ in range(rng.randint(0, 6))]
    if rng.random() < 0.04:      # an instance without pins: the converter raises ValueError (max() of an empty sequence)
        pins, p2b = [], []
    density = rng.choice([None, None, 0.25, 0.8, 1.0])
    k = rng.random()
    if k < 0.10:
        # what the constructor's own checks refuse (a negative entry in one of the checked arrays, a density outside
        # [0, 1]) and the degenerate densities (0.0 is "no density"; no positive weight makes the normalisation divide by 0)
        what = rng.choice(["neg-area", "neg-b2b", "neg-p2b", "neg-pin", "neg-cons", "density>1", "density<0", "density=0", "zero-weights"])
        if what == "neg-area":
            areas[rng.randrange(len(areas))] = -1.0
        elif what == "neg-b2b" and b2b:
            b2b[rng.randrange(len(b2b))][2] = -0.5
        elif what == "neg-p2b" and p2b:
            p2b[rng.randrange(len(p2b))][2] = -2.0
        elif what == "neg-pin" and pins:
            pins[rng.randrange(len(pins))][rng.randrange(2)] = -0.25
        elif what == "neg-cons":
            cons[rng.randrange(len(cons))][rng.randrange(5)] = -1
        elif what == "density>1":
            density = 1.5
        elif what == "density<0":
            density = -0.25
        elif what == "density=0":
            density = 0.0
        elif what == "zero-weights":
            density = 0.5
            b2b = [[a, b, 0.0] for a, b, _ in b2b]
            p2b = [[a, b, 0.0] for a, b, _ in p2b]
    return {"producer": "floorset", "polys": polys, "areas": areas, "cons": cons, "pins": pins, "b2b": b2b, "p2b": p2b,
            "density": density, "terminals": rng.random() < 0.5}


def floorset_instance(inp: dict):
    import numpy as np
    from tools.floorset_parser.floor_set_manager.manager import FloorSetInstance
    kmax = max(len(p) for p in inp["polys"]) + 2
    vb = np.full((len(inp["polys"]), kmax, 2), -1.0)
    for i, p in enumerate(inp["polys"]):
        vb[i, :len(p), :] = np.array(p)
    data = {
        "area_blocks": np.array(inp["areas"], dtype=float),
        "b2b_connectivity": np.array(inp["b2b"], dtype=float).reshape(-1, 3),
        "p2b_connectivity": np.array(inp["p2b"], dtype=float).reshape(-1, 3),
        "pins_pos": np.array(inp["pins"], dtype=float).reshape(-1, 2),
        "placement_constraints": np.array(inp["cons"], dtype=float).reshape(-1, 5),
        "vertex_blocks": vb,
        "metrics": np.array([len(inp["polys"]), len(inp["pins"]), 1, 1, 1, 1, 1, 1], dtype=float),
    }
    return FloorSetInstance(data, inp["density"], inp["terminals"]), data


def floorset_snapshot(fp, data) -> Any:
    return {"modules": copy.deepcopy(plain(fp.modules)), "nets": [[list(e.modules), e.weight] for e in fp.nets],
            "shape": list(fp.shape), "arrays": {k: v.tobytes().hex() for k, v in data.items()}}


def poly_area2(p) -> Fraction:
    s = Fraction(0)
    for i in range(len(p)):
        x0, y0 = map(Fraction, p[i])
        x1, y1 = map(Fraction, p[(i + 1) % len(p)])
        s += x0 * y1 - x1 * y0
    return abs(s)


def poly_inside(p, x: Fraction, y: Fraction) -> bool:
    inside = False
    for i in range(len(p)):
        x0, y0 = map(Fraction, p[i])
        x1, y1 = map(Fraction, p[(i + 1) % len(p)])
        if (y0 <= y < y1) or (y1 <= y < y0):
            if x < x0 + (y - y0) * (x1 - x0) / (y1 - y0):
                inside = not inside
    return inside


def rects_tile_polygon(rects: list, p: list) -> str | None:
    """the rectangles are pairwise disjoint, lie inside the polygon and have its area."""
    xs = sorted({Fraction(v[0]) for v in p})
    ys = sorted({Fraction(v[1]) for v in p})
    for i in range(len(rects)):
        for j in range(i + 1, len(rects)):
            if vs_overlap(rects[i], rects[j]) > 0:
                return "rectangles overlap"
    if 2 * sum((vs_area(r) for r in rects), Fraction(0)) != poly_area2(p):
        return "area differs from the polygon's"
    for r in rects:
        x0, y0, x1, y1 = vs_bb(r)
        gx = [x0] + [x for x in xs if x0 < x < x1] + [x1]
        gy = [y0] + [y for y in ys if y0 < y < y1] + [y1]
        for a, b in zip(gx, gx[1:]):
            for c, d in zip(gy, gy[1:]):
                if not poly_inside(p, (a + b) / 2, (c + d) / 2):
                    return "a rectangle sticks out of the polygon"
    return None


FS_EPS = 1e-3


def floorset_alpha(fp, inp: dict) -> float | None:
    """the weight normalisation factor of an instance: private `_alpha`; without it, 1 when no density was asked for."""
    alpha = getattr(fp, "_alpha", None)
    if isinstance(alpha, (int, float)):
        return alpha
    if not inp["density"]:
        return 1.0
    observation_missing("FloorSetInstance._alpha",
                        "instances converted with a density factor: weights compared with the instance's own nets, "
                        "model of the converter not run")
    return None


def floorset_raw_request(inp: dict) -> str | None:
    """the raw arrays of an instance (what `FloorSetInstance.__init__` is handed), with the polygon decomposition of every
    block computed by the implementation's own `strop_decomposition` (property C15: an input of the converter model)."""
    import numpy as np
    from tools.floorset_parser.floor_set_manager.utils.utils import strop_decomposition
    try:
        decomp = [plain(strop_decomposition(np.array(poly, dtype=float))) for poly in inp["polys"]]
    except Exception:      # noqa: BLE001
        return None
    kmax = max(len(p) for p in inp["polys"]) + 2
    verts = [[[float(x), float(y)] for x, y in p] + [[-1.0, -1.0]] * (kmax - len(p)) for p in inp["polys"]]
    metrics = [float(len(inp["polys"])), float(len(inp["pins"])), 1.0, 1.0, 1.0, 1.0, 1.0, 1.0]
    conn = lambda es: [[int(a), int(b), float(w)] for a, b, w in es]
    raw = [[float(a) for a in inp["areas"]], conn(inp["b2b"]), conn(inp["p2b"]), [[float(x), float(y)] for x, y in inp["pins"]],
           [[float(v) for v in row] for row in inp["cons"]], verts, metrics,
           None if inp["density"] is None else float(inp["density"]), bool(inp["terminals"]), decomp]
    return "F floorset_raw " + enc(raw)


def run_floorset(ctx: Ctx, inp: dict, batch: Batch) -> None:
    Rectangle.undefine_epsilon()
    sz = _size(inp)
    raw_req = floorset_raw_request(inp)
    try:
        with contextlib.redirect_stdout(QUIET):
            fp, data = floorset_instance(inp)
    except AssertionError:
        # refused by the constructor's own checks (negative entries, density outside [0, 1]): nothing is produced; the
        # converter model must refuse the same arrays
        ctx.case("floorset-refused", ("floorset-refused", repr(inp)), False)
        ctx.count("floorset:source-rejected(AssertionError)")
        if raw_req:
            batch.add(raw_req, "err:Assert", "floorset_raw", inp)
        return
    except ValueError as e:
        if inp["pins"]:
            ctx.spec_fail("floorset:convert", inp, {"raised": repr(e)[:300]}, sz)
            return
        # no pins: nothing is produced; the model must raise the same class
        ctx.case("floorset", ("floorset-nopins", repr(inp["polys"])), False)
        ctx.count("floorset:no-pins(ValueError)")
        import numpy as np
        from tools.floorset_parser.floor_set_manager.utils.utils import strop_decomposition
        mods_in = []
        for i, poly in enumerate(inp["polys"]):
            kind = 2 if inp["cons"][i][1] else 1 if inp["cons"][i][0] else 0
            mods_in.append([kind, inp["areas"][i], plain(strop_decomposition(np.array(poly, dtype=float)))])
        alpha = 1.0 if not inp["density"] else float(inp["density"])
        batch.add("F floorset " + enc([mods_in, [], inp["terminals"], alpha, inp["b2b"], []]), "err:ValueError", "floorset", inp)
        if raw_req:
            batch.add(raw_req, "err:ValueError", "floorset_raw", inp)
        return
    except ZeroDivisionError as e:
        if inp["density"] and not any(w > 0 for _, _, w in inp["b2b"] + inp["p2b"]):
            ctx.case("floorset-refused", ("floorset-zerodiv", repr(inp)), False)
            ctx.count("floorset:density-without-connections(degenerate)")
            if raw_req:
                batch.add(raw_req, "err:ZeroDivisionError", "floorset_raw", inp)
            return
        ctx.spec_fail("floorset:convert", inp, {"raised": repr(e)[:300]}, sz)
        return
    except Exception as e:
        ctx.spec_fail("floorset:convert", inp, {"raised": repr(e)[:300]}, sz)
        return
    before = floorset_snapshot(fp, data)
    s1, s2 = fp.write_yaml_FPEF(), fp.write_yaml_FPEF()
    d1, d2 = fp.write_yaml_DIEF(), fp.write_yaml_DIEF()
    ctx.case("floorset", ("floorset", s1), True, sample={"producer": "floorset", "terminals": inp["terminals"], "density": inp["density"], "doc": s1[:200]})
    ctx.count("floorset:terminals-as-modules" if inp["terminals"] else "floorset:terminal-flag")
    ctx.count("floorset:density" if inp["density"] else "floorset:no-density")
    if s1 != s2 or d1 != d2:
        ctx.spec_fail("floorset:twice", inp, {"first": s1[-300:], "second": s2[-300:]}, sz)
    if not typed_eq(before, floorset_snapshot(fp, data)):
        ctx.spec_fail("floorset:pure", inp, {"nets-before": before["nets"], "nets-after": [[list(e.modules), e.weight] for e in fp.nets]}, sz)
    W, H = max(p[0] for p in inp["pins"]), max(p[1] for p in inp["pins"])
    # ---- die document
    try:
        dd = Die(d1)
        if dd.width != W or dd.height != H:
            ctx.spec_fail("floorset:die-same-size", inp, {"read": [dd.width, dd.height], "pins-max": [W, H]}, sz)
    except Exception as e:
        ctx.spec_fail("floorset:die-accepted", inp, {"document": d1, "raised": repr(e)[:200]}, sz)
    Rectangle.undefine_epsilon()
    # ---- netlist document (both writes must be acceptable)
    nl = None
    for k, s in enumerate((s1, s2)):
        try:
            with contextlib.redirect_stdout(QUIET):
                nl_k = Netlist(s)
            nl = nl or nl_k
        except Exception as e:
            ctx.spec_fail("floorset:accepted" if k == 0 else "floorset:second-write-accepted", inp,
                          {"document-tail": s[-300:], "raised": repr(e)[:200]}, sz)
        Rectangle.undefine_epsilon()
    if nl is not None:
        sm = netlist_summary(nl)
        nb, npins = len(inp["polys"]), len(inp["pins"])
        want_names = [f"M{i}" for i in range(nb)] + [f"T{i}" for i in range(npins)]
        if [m["name"] for m in sm["modules"]] != want_names:
            ctx.spec_fail("floorset:same-modules", inp, {"read": [m["name"] for m in sm["modules"]], "source": want_names}, sz)
        else:
            for i in range(nb):
                m = sm["modules"][i]
                kind = "fixed" if inp["cons"][i][1] else "hard" if inp["cons"][i][0] else "soft"
                got = "fixed" if m["fixed"] else "hard" if m["hard"] else "soft"
                if kind != got or m["terminal"]:
                    ctx.spec_fail("floorset:same-kind", inp, {"module": m["name"], "read": got, "source": kind}, sz)
                if kind == "soft" and m["area"] != {"_": inp["areas"][i]}:
                    ctx.spec_fail("floorset:same-area", inp, {"module": m["name"], "read": m["area"], "source": inp["areas"][i]}, sz)
                why = rects_tile_polygon(m["rects"], inp["polys"][i])
                if why:
                    ctx.spec_fail("floorset:same-shape", inp, {"module": m["name"], "why": why, "rects": m["rects"]}, sz)
            for i in range(npins):
                m = sm["modules"][nb + i]
                px, py = inp["pins"][i]
                if not inp["terminals"]:
                    if not m["terminal"] or m["center"] != [px, py] or m["rects"]:
                        ctx.spec_fail("floorset:same-terminal", inp, {"module": m["name"], "read": m, "pin": [px, py]}, sz)
                else:
                    ok = m["fixed"] and len(m["rects"]) == 1
                    if ok:
                        cx, cy, w, h, _ = m["rects"][0]
                        ok = (w == FS_EPS and h == FS_EPS and abs(cx - px) <= FS_EPS * (1 + 1e-9) and abs(cy - py) <= FS_EPS * (1 + 1e-9)
                              and cx - w / 2 >= -1e-12 and cy - h / 2 >= -1e-12 and cx + w / 2 <= W + 1e-12 and cy + h / 2 <= H + 1e-12)
                    if not ok:
                        ctx.spec_fail("floorset:same-terminal", inp, {"module": m["name"], "read": m["rects"], "pin": [px, py]}, sz)
                        break
        alpha = floorset_alpha(fp, inp)
        if alpha is not None:
            if not inp["density"] and alpha != 1:
                ctx.spec_fail("floorset:alpha", inp, {"alpha": alpha}, sz)
            want = [[[f"M{int(a)}", f"M{int(b)}"], float(w * alpha) if float(w * alpha) > 0 else 1.0] for a, b, w in inp["b2b"]] + \
                   [[[f"T{int(a)}", f"M{int(b)}"], float(w * alpha) if float(w * alpha) > 0 else 1.0] for a, b, w in inp["p2b"]]
            if sm["nets"] != want:
                ctx.spec_fail("floorset:same-nets-weights", inp, {"read": sm["nets"], "source": want}, sz)
        else:
            # the density factor is not observable: the nets of the instance (public) are the source
            want = [[[str(x) for x in e[0]], float(e[1])] for e in before["nets"]]
            if sm["nets"] != want:
                ctx.spec_fail("floorset:same-nets-weights", inp, {"read": sm["nets"], "source": want}, sz)
            want_members = [[f"M{int(a)}", f"M{int(b)}"] for a, b, _ in inp["b2b"]] + [[f"T{int(a)}", f"M{int(b)}"] for a, b, _ in inp["p2b"]]
            if [e[0] for e in sm["nets"]] != want_members:
                ctx.spec_fail("floorset:same-nets", inp, {"read": sm["nets"], "source": want_members}, sz)
    # ---- Lean: the converter as a function of (decomposition, constraints, areas, pins, connections, alpha)
    mods_in = []
    for i in range(len(inp["polys"])):
        kind = 2 if inp["cons"][i][1] else 1 if inp["cons"][i][0] else 0
        mods_in.append([kind, inp["areas"][i], plain(before["modules"][f"M{i}"]["rectangles"])])
    alpha = floorset_alpha(fp, inp)
    if alpha is not None:
        req = enc([mods_in, inp["pins"], inp["terminals"], float(alpha), inp["b2b"], inp["p2b"]])
        batch.add("F floorset " + req, [load_text(s1), load_text(d1)], "floorset", inp, "tol")
    # ---- Lean: the converter from the RAW arrays (validation, kinds from the constraints, alpha from the density)
    if raw_req:
        batch.add(raw_req, [load_text(s1), load_text(d1)], "floorset_raw", inp, "tol")
        if alpha is not None:
            kinds = [2 if inp["cons"][i][1] else 1 if inp["cons"][i][0] else 0 for i in range(len(inp["polys"]))]
            batch.add(raw_req.replace("F floorset_raw ", "F floorset_alpha ", 1), [float(alpha), kinds], "floorset_alpha", inp, "tol")
    nl_read_request(batch, s1, inp)
    nl_read_request(batch, s2, inp)


# =============================================================================== producer: rect_io.get_netlist (string-built)
@contextlib.contextmanager
def capture_netlist_text(module):
    """the string-built emitters hand their text straight to `Netlist(...)`; record that text (the document)."""
    texts: list[str] = []
    real = getattr(module, "Netlist", None)
    if not callable(real):
        observation_missing(f"{module.__name__}.Netlist", "text of the string-built netlist not captured: text-level "
                            "sub-stream (text twice, Lean tree model, reader model on the text) skipped")
        yield texts
        return

    def spy(stream):
        if isinstance(stream, str):
            texts.append(stream)
        return real(stream)
    module.Netlist = spy
    try:
        yield texts
    finally:
        module.Netlist = real


def gen_rectio_scaled(rng) -> dict:
    """an allocation in small or large units (10^-6 … 10^3, dyadic 2^-20 … 2^10) whose modules are spread over at
    least two cells; no netlist file is passed, so the emitter derives every module from the allocation alone."""
    if rng.random() < 0.5:
        k = rng.randint(-6, 3)
        scale, label = 10.0 ** k, f"1e{k}"
    else:
        k = rng.randint(-20, 10)
        scale, label = 2.0 ** k, f"2^{k}"
    nx, ny = rng.randint(2, 4), rng.randint(1, 3)
    ux, uy = rng.choice([1, 1, 0.5, 1.5, 3]) * scale, rng.choice([1, 1, 0.5, 2]) * scale
    grid = [(i, j) for i in range(nx) for j in range(ny)]
    cells = [[[(i + 0.5) * ux, (j + 0.5) * uy, ux, uy] + ([rng.choice(["_", "dsp"])] if rng.random() < 0.5 else []), {}]
             for i, j in grid]
    for m in rng.sample(MODS, rng.randint(1, 3)):
        for idx in rng.sample(range(len(cells)), rng.randint(2, len(cells))):
            cells[idx][1][m] = rng.choice([0.5, 0.25, 0.125, 1.0, 0.1, 0.3, rng.random(), 0.0])
        if not any(cells[idx][1].get(m, 0) > 0 for idx in range(len(cells))):
            cells[0][1][m] = 0.5
    for c in cells:
        if rng.random() < 0.3:
            c.append(rng.choice([1, 2]))
    return {"producer": "rectio", "alloc": {"producer": "alloc", "fam": "scaled", "kind": "tree", "cells": cells, "ops": [],
                                            "tofile": False, "scale": label}}


def run_rectio(ctx: Ctx, inp: dict, batch: Batch) -> None:
    """inp is an allocation input (see gen_alloc); the emitter is run on the allocation document."""
    from tools.rect import rect_io
    Rectangle.undefine_epsilon()
    try:
        with contextlib.redirect_stdout(QUIET):
            a = build_alloc(inp["alloc"])
    except (AssertionError, IndexError, ZeroDivisionError, ValueError, TypeError):
        return
    cells = alloc_snapshot(a)
    if not any(c[2] for c in cells):
        return
    sz = _size(inp)
    with tempfile.TemporaryDirectory() as td:
        fn = os.path.join(td, "alloc.yaml")
        a.write_yaml(fn)
        doc0 = open(fn).read()
        Rectangle.undefine_epsilon()
        outs = []
        with capture_netlist_text(rect_io) as texts:
            for _ in range(2):
                try:
                    with contextlib.redirect_stdout(QUIET):
                        outs.append(rect_io.get_netlist(None, fn))
                except Exception as e:
                    outs.append(e)
                Rectangle.undefine_epsilon()
        doc1 = open(fn).read()
        # with a netlist FILE the function is not a producer: it returns that netlist as the reader loads it
        if not isinstance(outs[0], BaseException) and texts:
            nfn = os.path.join(td, "net.yaml")
            with open(nfn, "w") as fh:
                fh.write(texts[0])
            try:
                with contextlib.redirect_stdout(QUIET):
                    via_file = rect_io.get_netlist(nfn, fn)
                Rectangle.undefine_epsilon()
                if not typed_eq(plain(netlist_summary(via_file)), plain(netlist_summary(outs[0]))):
                    ctx.spec_fail("rectio:netlist-file-branch", inp, {}, sz)
            except Exception as e:      # noqa: BLE001
                ctx.spec_fail("rectio:netlist-file-branch", inp, {"raised": repr(e)[:200]}, sz)
            Rectangle.undefine_epsilon()
    ctx.case("rect_io.get_netlist", ("rectio", doc0), True, sample={"producer": "rect_io.get_netlist", "alloc": doc0[:200]})
    if inp["alloc"].get("scale") is not None:
        ctx.count("rectio:scale:" + inp["alloc"]["scale"])
    if doc0 != doc1:
        ctx.spec_fail("rectio:pure", inp, {}, sz)
    mods: dict[str, list] = {}
    for c in cells:
        for m, ratio in c[2]:
            mods.setdefault(m, []).append((c[0], ratio))
    tot = {m: sum((vs_area(v) * Fraction(r) for v, r in l), Fraction(0)) for m, l in mods.items()}
    if isinstance(outs[0], BaseException):
        # a module whose first cells carry ratio 0 divides 0/0 inside the emitter: recorded as its own clause
        ctx.spec_fail("rectio:accepted", inp, {"raised": repr(outs[0])[:300], "zero-area-modules": [m for m, t in tot.items() if t == 0]}, sz)
    else:
        sm = netlist_summary(outs[0])
        if not isinstance(outs[1], BaseException) and not typed_eq(plain(sm), plain(netlist_summary(outs[1]))):
            ctx.spec_fail("rectio:twice", inp, {}, sz)
        if [m["name"] for m in sm["modules"]] != list(mods) or sm["nets"]:
            ctx.spec_fail("rectio:same-modules", inp, {"read": [m["name"] for m in sm["modules"]], "source": list(mods)}, sz)
        else:
            for m in sm["modules"]:
                area = tot[m["name"]]
                cxs = sum((Fraction(v[0]) * vs_area(v) * Fraction(r) for v, r in mods[m["name"]]), Fraction(0)) / area
                cys = sum((Fraction(v[1]) * vs_area(v) * Fraction(r) for v, r in mods[m["name"]]), Fraction(0)) / area
                t = Fraction(1, 10 ** 9) * area                 # relative: designs come in units from 1e-6 to 1e3
                ext = max(max(vs_bb(c[0])[2], vs_bb(c[0])[3]) for c in cells)
                if m["hard"] or m["terminal"] or m["rects"] or list(m["area"]) != ["_"] or abs(Fraction(m["area"]["_"]) - area) > t:
                    ctx.spec_fail("rectio:same-area", inp, {"module": m["name"], "read": m["area"], "source": float(area)}, sz)
                elif abs(Fraction(m["center"][0]) - cxs) > ext / 10 ** 9 or abs(Fraction(m["center"][1]) - cys) > ext / 10 ** 9:
                    ctx.spec_fail("rectio:same-centre", inp, {"module": m["name"], "read": m["center"], "source": [float(cxs), float(cys)]}, sz)
        if len(texts) == 2 and texts[0] != texts[1]:
            ctx.spec_fail("rectio:twice", inp, {"first": texts[0][:300], "second": texts[1][:300]}, sz)
        if texts:
            batch.add("F rectio " + alloc_obj_wire(a), load_text(texts[0]), "rectio", inp, "rel")
            nl_read_request(batch, texts[0], inp)
        else:
            observation_missing("tools.rect.rect_io: text handed to Netlist(...)", "text-level sub-stream of get_netlist skipped")


# =============================================================================== producer: rect_io.solution_to_netlist
def gen_solnet(rng) -> dict:
    mods: dict[str, Any] = {}
    n = rng.randint(1, 6)
    result: dict[str, list] = {}
    for i in range(n):
        name = rng.choice(["A", "blk", "M", "u_"]) + str(i)
        k = rng.random()
        x, y = rng.randint(0, 20) + rng.choice([0, 0.5]), rng.randint(0, 20) + rng.choice([0, 0.25])
        w, h = rng.choice([1, 2, 2.5, 4]), rng.choice([1, 2, 3, 0.5])
        x, y = x + w / 2, y + h / 2
        if k < 0.03:
            mods[name] = {"area": rng.choice([4, 2.5])}       # never placed: no centre, no rectangle, not in the result
        elif k < 0.3:
            area: Any = rng.choice([4, 4.0, 2.5, rng.uniform(1, 9)])
            if rng.random() < 0.2:
                area = {"_": area, "dsp": rng.choice([1, 0.5])}
            mods[name] = {"area": area, "center": [x, y]}
            if rng.random() < 0.3:
                mods[name]["aspect_ratio"] = rng.choice([2, [0.5, 3]])
            if rng.random() < 0.8:
                result[name] = [[x, y, w, h]] + ([[x + w / 2 + 0.5, y, 1.0, h]] if rng.random() < 0.4 else [])
        elif k < 0.45:
            mods[name] = {"area": float(w * h), "rectangles": [[x, y, w, h]]}
            if rng.random() < 0.5:
                result[name] = [[float(x), float(y), float(w), float(h)]]
        elif k < 0.65:
            rs = [[x, y, w, h]] + ([[x + w / 2 + 0.5, y, 1, h]] if rng.random() < 0.5 else [])
            mods[name] = {"rectangles": rs, "hard": True}
        elif k < 0.8:
            mods[name] = {"rectangles": [[x, y, w, h]], "fixed": True}
        else:
            mods[name] = {"terminal": True, "center": [x, y]}
            if rng.random() < 0.3:
                mods[name] = {"fixed": True, "terminal": True, "center": [x, y]}
    names = list(mods)
    nets = []
    for _ in range(rng.randint(0, 5)):
        if len(names) < 2:
            break
        e: list[Any] = rng.sample(names, rng.randint(2, min(4, len(names))))
        if rng.random() < 0.5:
            e.append(rng.choice([2, 2.5, 0.5, 1, 1.0, 10]))
        nets.append(e)
    return {"producer": "solnet", "netlist": {"Modules": mods, "Nets": nets}, "result": result}


def solmod_wire(m, result) -> list:
    """what `solution_to_netlist` reads of a module."""
    if m.name in result:
        shape: Any = [0, [list(b) for b in result[m.name]]]
    elif len(m.rectangles) > 0:
        shape = [1, [[r.center.x, r.center.y, r.shape.w, r.shape.h] for r in m.rectangles]]
    else:
        shape = [2, [m.center.x, m.center.y]]
    return [m.name, shape, bool(m.is_hard), bool(m.is_fixed), bool(m.is_terminal),
            [[k, v] for k, v in m.area_regions.items()], m.area()]


def run_solnet(ctx: Ctx, inp: dict, batch: Batch) -> None:
    from tools.rect import rect_io
    Rectangle.undefine_epsilon()
    sz = _size(inp)
    try:
        with contextlib.redirect_stdout(QUIET):
            src = Netlist(copy.deepcopy(inp["netlist"]))
    except AssertionError:
        ctx.count("solnet:source-rejected")
        return
    result = {k: [tuple(b) for b in v] for k, v in inp["result"].items()}
    before = (plain(netlist_summary(src)), copy.deepcopy(result))
    unplaced = [m.name for m in src.modules if m.name not in result and len(m.rectangles) == 0 and not isinstance(m.center, Point)]
    try:
        s1 = rect_io.solution_to_netlist(src, result)
        s2 = rect_io.solution_to_netlist(src, result)
    except Exception as e:
        if unplaced and type(e) is Exception:
            # not a solution of the stage (a module was never placed): the emitter refuses, and so must the model
            ctx.case("solution_to_netlist-refused", ("solnet-refused", repr(inp)), False)
            ctx.count("solnet:unplaced-module(Exception)")
            mods_in0 = [None if m.name in unplaced else "placed" for m in src.modules]
            batch.add("F solnet " + enc([[None if x is None else solmod_wire(m, result) for x, m in zip(mods_in0, src.modules)],
                                         [[[x.name for x in e2.modules], e2.weight] for e2 in src.edges]]), "err:Exception", "solnet", inp)
            return
        ctx.spec_fail("solnet:produce", inp, {"raised": repr(e)[:200]}, sz)
        return
    if unplaced:
        ctx.spec_fail("solnet:unplaced-module-not-refused", inp, {"modules": unplaced}, sz)
    sm0 = before[0]
    has_term = any(m["terminal"] for m in sm0["modules"])
    has_w = any(w != 1 for _, w in sm0["nets"])
    ctx.case("solution_to_netlist", ("solnet", s1), True, sample={"producer": "solution_to_netlist", "doc": s1[:300]})
    ctx.count("solnet:with-terminal" if has_term else "solnet:no-terminal")
    ctx.count("solnet:weighted" if has_w else "solnet:unit-weights")
    if s1 != s2:
        ctx.spec_fail("solnet:twice", inp, {}, sz)
    if not typed_eq(before[0], plain(netlist_summary(src))) or before[1] != result:
        ctx.spec_fail("solnet:pure", inp, {}, sz)
    Rectangle.undefine_epsilon()
    try:
        with contextlib.redirect_stdout(QUIET):
            back = netlist_summary(Netlist(s1))
    except Exception as e:
        ctx.spec_fail("solnet:accepted", inp, {"document": s1[:500], "raised": repr(e)[:200]}, sz)
        back = None
    Rectangle.undefine_epsilon()
    if back is not None:
        if [m["name"] for m in back["modules"]] != [m["name"] for m in sm0["modules"]]:
            ctx.spec_fail("solnet:same-modules", inp, {}, sz)
        else:
            for m0, m1 in zip(sm0["modules"], back["modules"]):
                if (m0["hard"], m0["fixed"], m0["terminal"]) != (m1["hard"], m1["fixed"], m1["terminal"]):
                    ctx.spec_fail("solnet:same-kind", inp, {"module": m0["name"], "source": m0, "read": m1}, sz)
                    continue
                want = [list(b) + ["_"] for b in result[m0["name"]]] if m0["name"] in result else m0["rects"]
                key = lambda r: [float(v) for v in r[:4]]
                if sorted([r[:4] for r in want], key=key) != sorted([r[:4] for r in m1["rects"]], key=key):
                    ctx.spec_fail("solnet:same-shape", inp, {"module": m0["name"], "source": want, "read": m1["rects"]}, sz)
                if not m0["hard"] and m0["area"] != m1["area"]:
                    ctx.spec_fail("solnet:same-area", inp, {"module": m0["name"], "source": m0["area"], "read": m1["area"]}, sz)
                if m0["terminal"] and m0["center"] != m1["center"]:
                    ctx.spec_fail("solnet:same-terminal-position", inp, {"module": m0["name"]}, sz)
            if [e[0] for e in sm0["nets"]] != [e[0] for e in back["nets"]]:
                ctx.spec_fail("solnet:same-nets", inp, {"source": sm0["nets"], "read": back["nets"]}, sz)
            elif sm0["nets"] != back["nets"]:
                ctx.spec_fail("solnet:same-weights", inp, {"source": sm0["nets"], "read": back["nets"]}, sz)
    # Lean: the tree the emitted text denotes
    try:
        tree1: Any = load_text(s1)
    except Exception as e:
        ctx.spec_fail("solnet:text-is-yaml", inp, {"raised": repr(e)[:200], "document": s1[:300]}, sz)
        return
    mods_in = [solmod_wire(m, result) for m in src.modules]
    nets_in = [[[x.name for x in e.modules], e.weight] for e in src.edges]
    batch.add("F solnet " + enc([mods_in, nets_in]), tree1, "solnet", inp)
    nl_read_request(batch, s1, inp)


# =============================================================================== producer: legalfloor Model.get_netlist
def gen_legal(rng) -> dict:
    mods: dict[str, Any] = {}
    n = rng.randint(1, 4)
    for i in range(n):
        name = rng.choice(["A", "blk", "M"]) + str(i)
        x, y = 4.0 * i + rng.choice([1, 1.5]), rng.choice([1, 2, 2.5])
        w, h = rng.choice([1, 2, 1.5]), rng.choice([1, 2])
        rs = [[x + w / 2, y + h / 2, w, h]]
        k = rng.random()
        if rng.random() < 0.4:       # an east branch, fully adjacent
            rs.append([x + w + 0.25, y + h / 2, 0.5, h / 2])
        if rng.random() < 0.2:       # a north branch
            rs.append([x + w / 2, y + h + 0.25, w / 2, 0.5])
        if k < 0.45:
            mods[name] = {"area": float(sum(r[2] * r[3] for r in rs)) * rng.choice([1, 1, 0.9]), "rectangles": rs}
        elif k < 0.75:
            mods[name] = {"rectangles": rs, "hard": True}
        else:
            mods[name] = {"rectangles": rs, "fixed": True}
    names = list(mods)
    nets = []
    for _ in range(rng.randint(0, 4)):
        if len(names) < 2:
            break
        e: list[Any] = rng.sample(names, rng.randint(2, min(3, len(names))))
        if rng.random() < 0.5:
            e.append(rng.choice([2, 2.5, 0.5, 1.0, 10]))
        nets.append(e)
    moves = [[rng.choice([0.0, 0.125, -0.25, rng.uniform(-0.3, 0.3)]) for _ in range(2)] for _ in range(n)]
    return {"producer": "legalfloor", "netlist": {"Modules": mods, "Nets": nets}, "moves": moves,
            "die": [4.0 * n + 4, 8.0]}


def legal_state(m) -> Any:
    return {"names": list(m.og_names), "areas": list(m.og_area), "hyper": [[w, list(s)] for w, s in m.hyper],
            "mods": [[mm.degree, [[mm.x[j].evaluate(), mm.y[j].evaluate(), mm.w[j].evaluate(), mm.h[j].evaluate()]
                                  for j in range(len(mm.x))]] for mm in m.M]}


def run_legal(ctx: Ctx, inp: dict, batch: Batch) -> None:
    from tools.legalfloor import legalfloor as lf
    Rectangle.undefine_epsilon()
    sz = _size(inp)
    try:
        with contextlib.redirect_stdout(QUIET):
            src = Netlist(copy.deepcopy(inp["netlist"]))
            ml, al, xl, yl, wl, hl, hyper, og = lf.netlist_to_utils(src)
            m = lf.Model(ml, al, xl, yl, wl, hl, inp["die"][0], inp["die"][1], hyper, 3.0, og, 0.9, 0.3, 1.0, 1)
            # a "solution": soft / hard modules are moved rigidly (the values a solver run would leave in the variables)
            for i, mm in enumerate(m.M):
                if mm.degree < 2:
                    dx, dy = inp["moves"][i]
                    for j in range(len(mm.x)):
                        mm.x[j].value.value = [mm.x[j].evaluate() + dx]
                        mm.y[j].value.value = [mm.y[j].evaluate() + dy]
    except (AssertionError, ZeroDivisionError):
        ctx.count("legalfloor:source-rejected")
        Rectangle.undefine_epsilon()
        return
    before = legal_state(m)
    outs = []
    with capture_netlist_text(lf) as texts:
        for _ in range(2):
            Rectangle.undefine_epsilon()
            try:
                with contextlib.redirect_stdout(QUIET):
                    outs.append(m.get_netlist())
            except Exception as e:
                outs.append(e)
    Rectangle.undefine_epsilon()
    has_w = any(w != 1 for w, _ in before["hyper"])
    ctx.case("legalfloor.get_netlist", ("legal", repr(before)), True, sample={"producer": "legalfloor.get_netlist", "state": before})
    ctx.count("legalfloor:weighted" if has_w else "legalfloor:unit-weights")
    if not typed_eq(plain(before), plain(legal_state(m))):
        ctx.spec_fail("legalfloor:pure", inp, {}, sz)
    if isinstance(outs[0], BaseException):
        ctx.spec_fail("legalfloor:accepted", inp, {"raised": repr(outs[0])[:300]}, sz)
        return
    back = netlist_summary(outs[0])
    if isinstance(outs[1], BaseException) or not typed_eq(plain(back), plain(netlist_summary(outs[1]))):
        ctx.spec_fail("legalfloor:twice", inp, {}, sz)
    if [x["name"] for x in back["modules"]] != before["names"]:
        ctx.spec_fail("legalfloor:same-modules", inp, {}, sz)
    else:
        for i, mb in enumerate(back["modules"]):
            deg, rects = before["mods"][i]
            got = 2 if mb["fixed"] else 1 if mb["hard"] else 0
            if got != deg:
                ctx.spec_fail("legalfloor:same-kind", inp, {"module": mb["name"], "degree": deg, "read": got}, sz)
            key = lambda r: [float(v) for v in r[:4]]
            if sorted(rects, key=key) != sorted([r[:4] for r in mb["rects"]], key=key):
                ctx.spec_fail("legalfloor:same-shape", inp, {"module": mb["name"], "state": rects, "read": mb["rects"]}, sz)
            if deg == 0 and mb["area"] != {"_": float(before["areas"][i])}:
                ctx.spec_fail("legalfloor:same-area", inp, {"module": mb["name"], "state": before["areas"][i], "read": mb["area"]}, sz)
        want = [[[before["names"][k] for k in s], float(w)] for w, s in before["hyper"]]
        if [e[0] for e in want] != [e[0] for e in back["nets"]]:
            ctx.spec_fail("legalfloor:same-nets", inp, {"state": want, "read": back["nets"]}, sz)
        elif want != back["nets"]:
            ctx.spec_fail("legalfloor:same-weights", inp, {"state": want, "read": back["nets"]}, sz)
    mods_in = [[before["names"][i], before["mods"][i][0], before["areas"][i], before["mods"][i][1]] for i in range(len(before["names"]))]
    if len(texts) == 2 and texts[0] != texts[1]:
        ctx.spec_fail("legalfloor:twice", inp, {"first": texts[0][:300], "second": texts[1][:300]}, sz)
    if not texts:
        observation_missing("tools.legalfloor.legalfloor: text handed to Netlist(...)", "text-level sub-stream of Model.get_netlist skipped")
        return
    try:
        tree1 = load_text(texts[0])
    except Exception as e:
        ctx.spec_fail("legalfloor:text-is-yaml", inp, {"raised": repr(e)[:200], "document": texts[0][:300]}, sz)
        return
    batch.add("F legal " + enc([mods_in, before["hyper"]]), tree1, "legal", inp)
    nl_read_request(batch, texts[0], inp)


# =============================================================================== orchestration
RUNNERS = {"netgenc": run_netgen_centres, "netgenmain": run_netgen_main, "die": run_die, "alloc": run_alloc, "netgen": run_netgen, "namededges": run_namededges,
           "floorset": run_floorset, "rectio": run_rectio, "solnet": run_solnet, "legalfloor": run_legal}


def netgen_cases(ctx: Ctx) -> list[dict]:
    big = 12 if ctx.tier == "quick" else 40
    lv = 3 if ctx.tier == "quick" else 4
    out = []
    for kind in ("chain", "ring", "star", "ring-star", "one-net"):
        for n in range(-3, big + 1):
            out.append({"producer": "netgen", "kind": kind, "size": [n], "cli": n in (NETGEN_MIN[kind], 7)})
    for n in range(-1, lv + 1):
        out.append({"producer": "netgen", "kind": "htree", "size": [n], "cli": n == 2})
    for r, c in ((0, 0), (0, 1), (1, 0), (0, 3), (3, 0), (-1, 2), (2, -1), (-2, -2), (5, 0)):
        out.append({"producer": "netgen", "kind": "grid", "size": [r, c], "cli": False})
    g = 12 if ctx.tier == "quick" else 40
    for r in range(1, g + 1):
        for c in range(1, g + 1):
            if ctx.tier == "quick" and r > 4 and c > 4 and (r + c) % 5:
                continue
            if ctx.tier != "quick" and r > 12 and c > 12 and (r * 7 + c) % 11:
                continue
            out.append({"producer": "netgen", "kind": "grid", "size": [r, c], "cli": (r, c) == (2, 3)})
    return out


def safe(ctx: Ctx, producer: str, inp: dict, batch: "Batch") -> None:
    """run one case; an exception that escapes the case (implementation raising on a well-formed input at a place the
    case did not anticipate) is a property failure of that producer, never a harness crash."""
    global LIBRARY_USED
    LIBRARY_USED = True
    try:
        RUNNERS[producer](ctx, inp, batch)
    except Exception as e:        # noqa: BLE001
        import traceback
        tb = traceback.extract_tb(e.__traceback__)
        where = [f"{os.path.basename(fr.filename)}:{fr.lineno}:{fr.name}" for fr in tb[-4:]]
        if isinstance(e, (AttributeError, TypeError)) and tb and os.path.abspath(tb[-1].filename) == os.path.abspath(__file__):
            # raised by the harness's own access to an internal of the implementation (renamed / restructured member):
            # not a behaviour of the implementation
            observation_missing(f"{producer}: {type(e).__name__} at {where[-1]} ({str(e)[:80]})", "rest of this case skipped")
        else:
            ctx.spec_fail(f"{producer}:operation-raised", inp, {"raised": repr(e)[:300], "where": where}, _size(inp))
    finally:
        Rectangle.undefine_epsilon()


def run(ctx: Ctx) -> None:
    ctx.rule = ("one stream per producer. die: random dies on a random cut grid (5 number families, int/float tags mixed, "
                "blockages + tagged regions + fixed modules of a netlist), written unrefined, after split_refinable_regions "
                "or after initial_grid; alloc: random allocation trees (cells with/without region, ratio maps incl. 0/1/ints, "
                "depths) and die+netlist pipelines (create_initial_allocation, refine, uniform_refinement_depth, griddify); "
                "netgen: EVERY topology at EVERY size from -3 up to the tier bound (no sampling; below the guards model and code are compared on tree, reader verdict and exception class), plus grids with --add-centers (with and without noise, builder and CLI, no rows / no columns / no die), plus random command lines of netgen.main (wrong size counts, --add-centers on other types, no die, negative noise); namededges: random edge lists; "
                "floorset: synthetic numpy instances (rect/L/T/U/plus polygons in random orientation, soft/hard/pre-placed, "
                "pins on the four borders, in the corners and inside, both terminal modes, with/without density); "
                "rect_io.get_netlist on the allocation stream's objects and on allocations in units 1e-6…1e3 / 2^-20…2^10 whose modules span ≥ 2 cells (area and centre compared with exact sums at relative tolerance 1e-9); solution_to_netlist on random netlists (soft/hard/"
                "fixed/terminal modules, hyperedges, weights) with random results; legalfloor.Model.get_netlist on models "
                "built without solving, variables set to a rigid displacement. Every die and allocation document is re-read a second time in a fresh forked interpreter (tolerances undefined, or preset to k x the design's own, k in 1e-3..1e3). Non-trivial: a die with regions or refinement, "
                "an allocation with ratios, a topology with at least one net; distinct = distinct documents")
    ctx.assumptions += [
        "netgen sizes below chain 1, star 1, one-net 2, ring 3, ring-star 4, h-tree 1, grid 1×1 are 'topology not defined' "
        "(self-loops, one-pin nets, unknown modules): no claim about the design there, but generator tree, reader verdict and "
        "exception class are compared with the model (stream netgen-undefined)",
        "fresh-interpreter re-reads under a preset tolerance: a die whose smallest gap between boundary coordinates is below 4 x the "
        "preset tolerance is outside the separated band of die_roundtrip_any_state and only counted (fresh:die:outside-band)",
        "FloorSet density is None or a Python float (the isinstance check of the constructor is not modelled)",
        "a source object that the constructors themselves reject (C01/C02/C12 territory) produces no document and is skipped",
        "FloorSet-Lite inputs (one [w,h,x,y] row per block) cannot be converted at all (IndexError in _parse_modules): "
        "the property's quantifier is over instances with polygonal blocks (FloorSet-Prime)",
        "legalfloor cannot build a model for modules without rectangles (terminals): those netlists are not solutions "
        "of the stage",
        "a FloorSet instance has at least one pin (without pins the converter raises ValueError, in the model too) and "
        "spans a non-degenerate die (some pin has x > 0, some pin has y > 0); with a density factor, "
        "at least one connection has positive weight (otherwise the converter divides by zero before producing anything)",
    ]
    fresh_server()        # fork the pristine interpreter BEFORE the first operation of the library
    if not mark_carried():
        msg = ("DEFECT PRESENT (C19_alloc_fixed_mark, findings/C19_alloc_fixed_mark.py): this tree does not write the `fixed` mark of "
               "allocation cells, so an allocation read back answers refine / uniform_refinement_depth / griddify differently from the "
               "one written; repair = fixes/C19_alloc_fixed_mark.diff.  Until it is applied the allocation stream is judged against the "
               "AS-FOUND model (writeAllocOrig / readAllocOrig) and the lost marks are counted, not reported; the theorems "
               "alloc_roundtrip_constructor / reread_answers_alike are about the repaired code (alloc_orig_loses_mark is about this one)")
        if msg not in ctx.notes:
            ctx.notes.append(msg)
        ctx.extra["defect_present_repair_pending"] = "C19_alloc_fixed_mark"
    batch = Batch()
    rng = ctx.rng
    seeds = getattr(ctx, "seed_inputs", None) or []
    for inp in seeds:
        if isinstance(inp, dict) and inp.get("producer") in RUNNERS:
            safe(ctx, inp["producer"], inp, batch)
    for inp in netgen_cases(ctx):
        safe(ctx, "netgen", inp, batch)
    for _ in range(ctx.n(60, 600)):
        safe(ctx, "netgenc", gen_netgen_centres(rng), batch)
    for _ in range(ctx.n(80, 800)):
        safe(ctx, "netgenmain", gen_netgen_main(rng), batch)
    for _ in range(ctx.n(150, 2000)):
        safe(ctx, "die", gen_die(rng), batch)
    for _ in range(ctx.n(150, 1500)):
        inp = gen_alloc(rng)
        safe(ctx, "alloc", inp, batch)
        if rng.random() < 0.7:
            safe(ctx, "rectio", {"producer": "rectio", "alloc": inp}, batch)
    for _ in range(ctx.n(80, 1000)):
        safe(ctx, "rectio", gen_rectio_scaled(rng), batch)
    for _ in range(ctx.n(100, 2000)):
        safe(ctx, "namededges", gen_namededges(rng), batch)
    for _ in range(ctx.n(100, 1500)):
        safe(ctx, "floorset", gen_floorset(rng), batch)
    nopins = gen_floorset(rng)          # always at least one instance without pins (exception class compared)
    nopins["pins"], nopins["p2b"] = [], []
    safe(ctx, "floorset", nopins, batch)
    for _ in range(ctx.n(120, 2000)):
        safe(ctx, "solnet", gen_solnet(rng), batch)
    for _ in range(ctx.n(100, 1500)):
        safe(ctx, "legalfloor", gen_legal(rng), batch)
    batch.flush(ctx)
    report_missing(ctx)


def replay(ctx: Ctx, body: dict) -> None:
    inp = body["input"]
    fresh_server()
    batch = Batch()
    safe(ctx, inp["producer"], inp, batch)
    batch.flush(ctx)
    report_missing(ctx)

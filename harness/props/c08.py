"""C08 — the rectilinear shape search admits exactly the k-box single-trunk orthogons.

Anchors: tools/rect/rect.py (definecoords, enforce_bb, solve), tools/rect/rect_io.py (select_box),
SAT layer tools/rect/satmanager.py + pseudobool.py (its exactness is property C07; here it is *executed*).

Streams
  * structure (correspondence): every constraint the real `enforce_bb` / `solve` post through
    `SATManager.imply / heuleencoding / pseudoboolencoding / add_clause` is captured and compared, as a set of
    canonical abstract constraints, with the constraint list of the Lean model (`FV/Model/RectSearch.lean`);
    also `definecoords` and the value returned by `solve` for the solver's own model — both through the clause-level
    `solveResult` and, from the raw `sm.model` dictionary, through the C07 model's `value` / `evalexpr` (`solveReturn`);
    `rect_io.get_alloc` (records), `select_box` / `snap_coordinates` and `rect.area` against `FV/Model/RectIO.lean`
    (bit-exact doubles; exact rationals on dyadic data), and on dyadic allocations the whole chain
    allocation → select_box → definecoords → area → posted constraints inside the model.
  * spec on the implementation: ALL models of the real CNF (pysat, blocking clauses on the projected
    `b<i>_<cell>` variables) against a brute-force enumeration of the k-box single-trunk orthogons of the grid
    that meet the cost bound, and `rect.solve`'s return value (a shape meeting the bound iff one exists; the
    rectangles returned are the boxes of such a shape; the reported cost is its objective + 1).
"""
from __future__ import annotations

import contextlib
import io
import itertools
import math
import os
import re
import tempfile
import types
from fractions import Fraction

from vcheck import Ctx, q2s, load_known, ulp_nudge, f2hex, hex2f

import tools.rect.rect as rect
import tools.rect.satmanager as satmanager
import tools.rect.pseudobool as pseudobool
from tools.rect.rect_io import select_box, get_alloc
from pysat.solvers import Solver

LEVEL = "proof"
DRIVERS = ["drv_rect"]
TRUSTED = [
    "Lean 4.33 kernel; Mathlib order lemmas; axioms ⊆ {propext, Classical.choice, Quot.sound}",
    "hand-written model FV/Model/RectSearch.lean of definecoords / enforce_bb / solve at the clause level — fidelity "
    "checked by the structure stream of this harness (captured constraint sets compared), not proved",
    "SAT layer (satmanager.py / pseudobool.py): composed in Lean with the C07 model (FV/Proofs/RectSat.lean, theorems "
    "cnf_models_are_orthogons / solve_found_iff_cnf: statements about the CNF the C07 model generates); what remains "
    "trusted is the fidelity of the C07 model to the Python SAT layer (checked by C07's own harness) and the SAT solver "
    "(pysat/minisat22, hypothesis Sat.SolverOK); variable names: str() of distinct grid coordinates distinct (hypothesis)",
    "rect_io.get_alloc (record construction) / snap_coordinates / select_box and rect.area are modelled in FV/Model/RectIO.lean and "
    "compared on every run: bit for bit on doubles (F mode; the model's Float arithmetic is IEEE binary64 like CPython's), in exact "
    "rationals on dyadic data, the integer areas exactly except next to an integer (rounding tie); the theorems about them "
    "(snap_no_sliver, selectBox_one_box_per_record, selectBox_exact_grid, pipeline_found_iff) are exact-arithmetic statements; "
    "reading the YAML allocation (frame.allocation.Allocation) is property C02/C19, not modelled here",
    "the value rect.solve returns is modelled from the raw answers of the SAT layer (FV/Model/RectSat.lean: solveReturn over the "
    "C07 model's value / evalexpr) and compared on every run with the real return value (op retval); theorem solve_return_sound",
    "not modelled: fstr_to_tuple / findbestgreedy (the greedy helper is a Windows DLL; the cost bound dif is an input), min-area mode "
    "(ratio < 1), the informative quality figure, printing",
    "harness (Python) and compiled Lean driver: variable-name parsing, canonicalisation, brute-force orthogon enumerator",
]

FACTOR = 10000
LOW = -10 ** 12
MAX_MODELS = 400000


# ----------------------------------------------------------------------------- capture of posted constraints
class _Rec:
    active = False
    depth = 0
    items: list = []
    last_sm = None


def _wrap(name, kind):
    orig = getattr(satmanager.SATManager, name)
    if getattr(orig, "_c08_wrapped", False):
        return

    def wrapper(self, *a, **kw):
        if _Rec.active and _Rec.depth == 0:
            if kind == "imply":
                _Rec.items.append(("C", [(-l) for l in a[0]] + [a[1]]))
            elif kind == "amo":
                _Rec.items.append(("A", list(a[0])))
            elif kind == "pb":
                ineq = a[0]
                _Rec.items.append(("P", [(t.c, t.L) for t in ineq.lhs.t.values()], ineq.rhs, ineq.op))
            elif kind == "clause":
                _Rec.items.append(("C", list(a[0])))
        _Rec.depth += 1
        try:
            return orig(self, *a, **kw)
        finally:
            _Rec.depth -= 1
            if kind == "solve":
                _Rec.last_sm = self
    wrapper._c08_wrapped = True
    setattr(satmanager.SATManager, name, wrapper)


for _n, _k in (("imply", "imply"), ("heuleencoding", "amo"), ("quadraticencoding", "amo"), ("pseudoboolencoding", "pb"),
               ("add_clause", "clause"), ("solve", "solve")):
    _wrap(_n, _k)


@contextlib.contextmanager
def recording():
    _Rec.active, _Rec.depth, _Rec.items, _Rec.last_sm = True, 0, [], None
    try:
        with contextlib.redirect_stdout(io.StringIO()):
            yield _Rec
    finally:
        _Rec.active = False


class ImplRaised(Exception):
    """an implementation call raised on a well-formed input (reported as a spec failure, never a harness crash)."""


def call(what, fn, *a, **kw):
    try:
        return fn(*a, **kw)
    except Exception as e:  # noqa
        raise ImplRaised(what, type(e).__name__, str(e)[:200])


# ----------------------------------------------------------------------------- canonical abstract constraints
_VAR_RES = [
    (re.compile(r"^b_(\d+)$"), lambda m: f"s:{m.group(1)}"),
    (re.compile(r"^b(\d+)_(\d+)$"), lambda m: f"c:{m.group(1)}:{m.group(2)}"),
    (re.compile(r"^b(\d+)_([xXyY])_(.+)$"), lambda m: f"{m.group(2)}:{m.group(1)}:{q2s(Fraction(float(m.group(3))))}"),
    (re.compile(r"^b(\d+)_(north|south|east|west)$"), lambda m: f"d:{m.group(1)}:{m.group(2)[0].upper()}"),
]


def var_name(v: str) -> str:
    for rx, f in _VAR_RES:
        m = rx.match(v)
        if m:
            return f(m)
    return "?" + v


def lit_name(l) -> str:
    return ("+" if l.s else "-") + var_name(l.v)


def canon(kind: str, lits=None, terms=None, bound=None):
    """canonical form of an abstract constraint (semantics-preserving normalisations only)."""
    if kind == "C" or kind == "L":
        return ("C", tuple(sorted(set(lits))))            # a clause is the set of its literals
    if kind == "A":
        return ("A", tuple(sorted(lits)))
    # pseudo-Boolean  sum w·lit >= bound : signed weights on positive literals, zero weights dropped
    w: dict[str, int] = {}
    for c, l in terms:
        v, s = l[1:], l[0] == "+"
        if s:
            w[v] = w.get(v, 0) + c
        else:
            w[v] = w.get(v, 0) - c
            bound -= c
    w = {v: c for v, c in w.items() if c != 0}
    if bound == 1 and all(c == 1 for c in w.values()):
        return ("C", tuple(sorted("+" + v for v in w)))
    return ("P", bound, tuple(sorted(w.items())))


def _cnf_of(cs, vid):
    """clauses of the clause / at-most-one constraints of a canonical set (pseudo-Boolean ones are left out)."""
    def lit(l):
        v = vid.setdefault(l[1:], len(vid) + 1)
        return v if l[0] == "+" else -v
    out = []
    for c in cs:
        if c[0] == "C":
            out.append([lit(l) for l in c[1]])
        elif c[0] == "A":
            ls = [lit(l) for l in c[1]]
            out += [[-ls[a], -ls[b]] for a in range(len(ls)) for b in range(a + 1, len(ls))]
    return out


def equivalent_sets(a: set, b: set) -> bool:
    """the two canonical constraint sets have the same models: identical pseudo-Boolean constraints, and every
    clause / at-most-one constraint present on one side only is implied by the other side's clauses."""
    if {c for c in a if c[0] == "P"} != {c for c in b if c[0] == "P"}:
        return False
    vid: dict[str, int] = {}
    for base, extra in ((b, a - b), (a, b - a)):
        if not extra:
            continue
        cnf = _cnf_of(base, vid)
        goals = _cnf_of(extra, vid)
        with Solver(bootstrap_with=cnf + [[len(vid) + 1, -(len(vid) + 1)]]) as s:
            for g in goals:
                if not g:
                    if s.solve():
                        return False
                elif s.solve(assumptions=[-l for l in g]):
                    return False
    return True


def canon_impl(items) -> tuple[set, list]:
    out, bad = set(), []
    for it in items:
        if it[0] in ("C", "A"):
            lits = [lit_name(l) for l in it[1]]
            if any("?" in x for x in lits):
                bad.append(lits)
            out.add(canon(it[0], lits=lits))
        else:
            if it[3] != ">=":
                bad.append(("op", it[3]))
            terms = [(c, lit_name(l)) for c, l in it[1]]
            if any("?" in x for _, x in terms):
                bad.append(terms)
            out.add(canon("P", terms=terms, bound=it[2]))
    return out, bad


def canon_model(reply: str) -> set | str:
    if reply.startswith("err:") or reply == "bad-op":
        return reply
    parts = reply.split(" | ")
    out = set()
    for p in parts[1:]:
        toks = p.split()
        if toks[0] in ("C", "A", "L"):
            out.add(canon(toks[0], lits=toks[1:]))
        else:
            terms = []
            for t in toks[2:]:
                c, l = t.split("*", 1)
                terms.append((int(c), l))
            out.add(canon("P", terms=terms, bound=int(toks[1])))
    return out


# ----------------------------------------------------------------------------- problems
def grid_cells(xs, ys, order=None):
    cells = [(i, j) for j in range(len(ys) - 1) for i in range(len(xs) - 1)]
    if order is not None:
        cells = [cells[t] for t in order]
    return cells


MOD_KINDS = ("M", "M+other", "other+M", "other", "empty", "none", "dupM")


# the selected module and the other module of a case: names that share prefixes with each other (a match by prefix /
# substring instead of by name picks the other module's ratio)
NAME_PAIRS = [("M", "other"), ("M", "other"), ("M", "M2"), ("M", "M10"), ("M", "Mx"), ("M2", "M"), ("M10", "M1"), ("M1", "M10"),
              ("oth", "other"), ("other", "oth"), ("Mx", "M"), ("M", "aM"), ("aM", "M")]
_NAMES = {"sel": "M", "other": "other"}


def set_names(inp) -> None:
    sel, other = inp.get("names") or ("M", "other")
    _NAMES["sel"], _NAMES["other"] = sel, other


def mod_list(kind: str, p: float):
    """the per-cell module list of the parsed allocation (`ifile`) for a cell of the given kind (kinds are written with
    `M` = the selected module, `other` = the other one; their NAMES are the case's `names`)"""
    o = min(0.1, max(0.0, 1.0 - p))
    M, other = _NAMES["sel"], _NAMES["other"]
    return {"M": [{M: p}], "M+other": [{M: p}, {other: o}], "other+M": [{other: o}, {M: p}],
            "other": [{other: 0.3}], "empty": [], "none": None,
            # the module listed twice (only in a hand-built record list): the LAST entry is the one select_box keeps
            "dupM": [{M: 0.125}, {other: o}, {M: p}]}[kind]


def expected_occ(inp) -> list[float]:
    """occupancy of the selected module in every allocation cell: its value, 0 where the module is absent"""
    mods = inp.get("mods")
    if not mods:
        return list(inp["occ"])
    return [inp["occ"][t] if ("M" in mods[t].split("+") or mods[t] == "dupM") else 0.0 for t in range(len(mods))]


def yaml_num(v: float) -> str:
    r = repr(float(v))
    return r if "e" not in r and "inf" not in r and "nan" not in r else format(v, ".20f")


def alloc_through_file(dims, mods, occ):
    """write the allocation as a YAML file, read it back with the real get_alloc"""
    rows = []
    for t, d in enumerate(dims):
        ml = mod_list(mods[t] if mods[t] != "none" else "empty", occ[t]) or []
        # zero entries are left out: `Allocation` divides by a module's total area (a module listed with ratio 0
        # everywhere makes the allocation reader itself fail — outside this property)
        dct = ", ".join(f"{k}: {yaml_num(v)}" for m in ml for k, v in m.items() if v > 0)
        rows.append("[[" + ", ".join(yaml_num(v) for v in d) + "], {" + dct + "}]")
    fd, path = tempfile.mkstemp(suffix=".yaml", prefix="c08_alloc_")
    try:
        with os.fdopen(fd, "w") as f:
            f.write("[" + ",\n ".join(rows) + "]\n")
        ifile = call("get_alloc", get_alloc, path)
        try:        # the allocation object get_alloc read the records from (for the tie of get_alloc with its Lean model)
            from frame.allocation.allocation import Allocation
            a = Allocation(path)
            _LAST["alloc_cells"] = [([ra.rect.center.x, ra.rect.center.y, ra.rect.shape.w, ra.rect.shape.h], dict(ra.alloc))
                                    for ra in a.allocations]
        except Exception:
            _LAST["alloc_cells"] = None
        return ifile
    finally:
        os.unlink(path)


def make_ip(inp):
    """input_problem of a case description: grid corners directly, or through rect_io.select_box (from the parsed
    allocation `ifile` built here, or from a YAML allocation file read by the real get_alloc)."""
    xs, ys, occ = inp["xs"], inp["ys"], inp["occ"]
    cells = grid_cells(xs, ys, inp.get("order"))
    via = inp.get("via")
    _LAST["alloc_cells"] = None
    set_names(inp)
    if via in ("alloc", "select_box", "get_alloc"):
        if via == "alloc":      # cells given as an allocation stores them: [xc, yc, w, h], in listing order
            dims = [list(d) for d in inp["alloc"]]
        else:
            dims = [[xs[i] + (xs[i + 1] - xs[i]) / 2, ys[j] + (ys[j + 1] - ys[j]) / 2, xs[i + 1] - xs[i], ys[j + 1] - ys[j]]
                    for (i, j) in cells]
        mods = inp.get("mods") or (["M"] * len(dims) if via == "alloc" else ["M+other"] * len(dims))
        if via == "get_alloc" or inp.get("through_file"):
            ifile = alloc_through_file(dims, mods, occ)
        else:
            rects = [{f"b{t}": [{"dim": d}, {"mod": mod_list(mods[t], occ[t])}]} for t, d in enumerate(dims)]
            ifile = {"Width": 1.0, "Height": 1.0, "Rectangles": rects}
        ip, _ = call("select_box", select_box, _NAMES["sel"], ifile)
        _LAST["ifile"] = ifile
    else:
        _LAST["ifile"] = None
        ip = [(xs[i], ys[j], xs[i + 1], ys[j + 1], occ[t]) for t, (i, j) in enumerate(cells)]
    return ip, cells


_LAST = {"ifile": None}


def ifile_wire(ifile, enc) -> str:
    """the parsed allocation as the Lean model of select_box reads it"""
    out = [str(len(ifile["Rectangles"]))]
    for r in ifile["Rectangles"]:
        (rec,) = r.values()
        out += [enc(v) for v in rec[0]["dim"]]
        mods = rec[1]["mod"]
        if mods is None:
            out.append("N")
        else:
            out += ["M", str(len(mods))]
            for d in mods:
                out.append(str(len(d)))
                for kk, v in d.items():
                    out += [str(kk), enc(v)]
    return " ".join(out)


def boxes_equal(reply: str, ip, dec) -> bool:
    parts = reply.split(" | ")
    if not parts or parts[0] != str(len(ip)) or len(parts) != len(ip) + 1:
        return False
    for p, b in zip(parts[1:], ip):
        t = p.split()
        if len(t) != 5 or any(dec(x) != y for x, y in zip(t, b)):      # by value: 0.0 == -0.0
            return False
    return True


def _dyadic(v: float) -> bool:
    return Fraction(v).denominator <= 1 << 20


def boxes_close(reply: str, ip) -> bool:
    """same boxes up to rounding: every coordinate within 1e-9·extent and the same coincidence pattern of the
    coordinates (which sides share a grid line) — what a mathematically equivalent rewrite of the corner arithmetic may do"""
    parts = reply.split(" | ")
    if not parts or parts[0] != str(len(ip)) or len(parts) != len(ip) + 1:
        return False
    got = [[hex2f(x) for x in p.split()] for p in parts[1:]]
    if any(len(g) != 5 for g in got):
        return False
    flat_i = [v for b in ip for v in b[:4]]
    flat_g = [v for b in got for v in b[:4]]
    ext = max(max(flat_i) - min(flat_i), 1e-300)
    if any(abs(a - b) > 1e-9 * ext for a, b in zip(flat_i, flat_g)) or any(a[4] != b[4] for a, b in zip(ip, got)):
        return False
    for ax in (0, 1):
        ci = [b[ax + d] for b in ip for d in (0, 2)]
        cg = [b[ax + d] for b in got for d in (0, 2)]
        if [[x == y for y in ci] for x in ci] != [[x == y for y in cg] for x in cg]:
            return False
    return True


def area_is_tie(factor, b) -> bool:
    """the exact product sits next to an integer: truncation depends on the rounding of the float products"""
    x0, y0, x1, y1, p = (Fraction(v) for v in b)
    for v in (factor * p * (x1 - x0) * (y1 - y0), factor * (x1 - x0) * (y1 - y0)):
        if abs(v - round(v)) <= Fraction(1, 10 ** 6) * max(1, abs(v)) and v != round(v):
            return True
        if v == round(v) and not all(_dyadic(float(t)) for t in b):
            return True       # an exact integer reached through inexact products (0.1 · 0.3 · 1e4 …)
    return False


def select_box_tie(ctx: Ctx, inp, ip, size, reqs, todo) -> None:
    """rect_io.select_box (and get_alloc's records) and rect.area against the Lean model, bit for bit on doubles; on
    dyadic data also in exact rationals"""
    ifile = _LAST["ifile"]
    cells_a = _LAST.pop("alloc_cells", None)
    if ifile is not None and cells_a is not None:
        fx = lambda v: f2hex(float(v))
        reqs.append(f"F galloc {len(cells_a)} " + " ".join(
            " ".join(fx(v) for v in d) + f" {len(al)}" + "".join(f" {kk} {fx(v)}" for kk, v in al.items()) for d, al in cells_a))
        names = [list(r.keys()) for r in ifile["Rectangles"]]
        if names != [[f"b{t}"] for t in range(len(names))]:
            ctx.spec_fail("get_alloc:record-names", inp, {"names": names[:6]}, size)
        todo.append(("galloc", inp, ifile_wire(ifile, fx), size))
        ctx.count("get_alloc:records-compared")
    if ifile is not None:
        fx = lambda v: f2hex(float(v))
        reqs.append(f"F selbox {_NAMES['sel']} {ifile_wire(ifile, fx)}")
        todo.append(("selbox:F", inp, list(ip), size))
        if inp.get("via") in ("select_box", "get_alloc"):
            qx = lambda v: q2s(Fraction(v))
            reqs.append(f"Q selbox {_NAMES['sel']} {ifile_wire(ifile, qx)}")
            todo.append(("selbox:Q", inp, list(ip), size))
    c = types.SimpleNamespace(input_problem=list(ip), factor=FACTOR)
    sel = [int(call("area", rect.area, c, b, True)) for b in range(len(ip))]
    real = [int(call("area", rect.area, c, b, False)) for b in range(len(ip))]
    if ip:
        reqs.append(f"F areas {FACTOR} {len(ip)} " + " ".join(" ".join(f2hex(float(v)) for v in b) for b in ip))
        todo.append(("areas", inp, (sel, real, [area_is_tie(FACTOR, b) for b in ip]), size))


def gen_mods(rng, ncells: int, allow_none: bool = True) -> list[str]:
    """0–40 % truly empty cells (anywhere), the rest hosting the module alone, with another one, or only another"""
    frac = rng.choice([0.0, 0.1, 0.2, 0.3, 0.4])
    out = []
    for _ in range(ncells):
        if rng.random() < frac:
            out.append("none" if allow_none and rng.random() < 0.2 else "empty")
        else:
            out.append(rng.choice(["M", "M", "M+other", "other+M", "other"] + (["dupM"] if allow_none else [])))
    if frac > 0 and "empty" not in out:
        out[rng.randrange(ncells)] = "empty"
    return out


def carrier_of(ip):
    c = types.SimpleNamespace(input_problem=list(ip), factor=FACTOR, theoreticalBestArea=0, selbox="M",
                              inibox=(0, 0, 0, 0, 0))
    call("definecoords", rect.definecoords, c)
    for b in c.blocks:
        c.theoreticalBestArea += call("area", rect.area, c, b, True)
    return c


def ip_wire(ip) -> str:
    return f"{len(ip)} " + " ".join(" ".join(q2s(Fraction(v)) for v in b[:4]) for b in ip) if ip else "0"


def areas_wire(c) -> str:
    sel = [int(call("area", rect.area, c, b, True)) for b in c.blocks]
    real = [int(call("area", rect.area, c, b, False)) for b in c.blocks]
    return f"{len(sel)} " + " ".join(map(str, sel)) + f" {len(real)} " + " ".join(map(str, real)) if sel else "0 0"


# ----------------------------------------------------------------------------- brute-force specification
def all_rects(m, n):
    return [(i0, i1, j0, j1) for i0 in range(m) for i1 in range(i0, m) for j0 in range(n) for j1 in range(j0, n)]


def rect_cells(r):
    i0, i1, j0, j1 = r
    return frozenset((i, j) for i in range(i0, i1 + 1) for j in range(j0, j1 + 1))


def abuts(b, t) -> bool:
    """box b abuts the trunk t along one side, the shared side of b lying within the trunk's extent."""
    bi0, bi1, bj0, bj1 = b
    ti0, ti1, tj0, tj1 = t
    within_j = tj0 <= bj0 and bj1 <= tj1
    within_i = ti0 <= bi0 and bi1 <= ti1
    return ((bi0 == ti1 + 1 or bi1 + 1 == ti0) and within_j) or ((bj0 == tj1 + 1 or bj1 + 1 == tj0) and within_i)


def orthogons(m, n, k):
    """all k-box single-trunk orthogons of an m×n grid of cells (box 0 = trunk), as tuples of index rectangles."""
    rs = all_rects(m, n)
    cs = {r: rect_cells(r) for r in rs}
    out = []
    for t in rs:
        branches = [b for b in rs if abuts(b, t) and not (cs[b] & cs[t])]
        for combo in itertools.product(branches, repeat=k - 1):
            ok = True
            for a in range(len(combo)):
                for b in range(a + 1, len(combo)):
                    if cs[combo[a]] & cs[combo[b]]:
                        ok = False
                        break
                if not ok:
                    break
            if ok:
                out.append((t,) + combo)
    return out


def shape_blocks(shape, cell_to_block):
    return tuple(frozenset(cell_to_block[c] for c in rect_cells(r)) for r in shape)


# ----------------------------------------------------------------------------- model enumeration of the real CNF
def enumerate_models(sm, k, blocks):
    """all models of the real clause list, projected on the b<i>_<b> variables (blocking clauses)."""
    cl = [[(sm.ttable[l.v] if l.s != sm.isflipped(l.v) else -sm.ttable[l.v]) for l in c] for c in sm.clauses]
    names = [(i, b, f"b{i}_{b}") for i in range(k) for b in blocks]
    proj = [(i, b, sm.ttable[nm]) for i, b, nm in names if nm in sm.ttable]
    if len(proj) != len(names):
        return None
    res = set()
    with Solver(bootstrap_with=cl) as s:
        while s.solve():
            mod = set(v for v in s.get_model() if v > 0)
            boxes = [set() for _ in range(k)]
            block = []
            for i, b, v in proj:
                if v in mod:
                    boxes[i].add(b)
                    block.append(-v)
                else:
                    block.append(v)
            res.add(tuple(frozenset(x) for x in boxes))
            s.add_clause(block)
            if len(res) > MAX_MODELS:
                return None
    return res


def num(v) -> str:
    """wire form of a returned coordinate (exact), robust to inf / non-numbers."""
    try:
        return q2s(Fraction(v)) if math.isfinite(v) else str(v)
    except Exception:  # noqa
        return "?" + str(v)


def fs_list(shape):
    return [sorted(x) for x in shape]


# ----------------------------------------------------------------------------- one case
def grid_case(ctx: Ctx, inp: dict, reqs: list, todo: list) -> None:
    """kind = 'grid': product grid, real rect.solve with (ratio, dif0, k); all streams."""
    ip, cells = make_ip(inp)
    k, ratio, dif0 = inp["k"], inp["ratio"], inp["dif0"]
    xs, ys = inp["xs"], inp["ys"]
    m, n = len(xs) - 1, len(ys) - 1
    size = m * n * k
    c = carrier_of(ip)
    ifile = {"Width": xs[-1] - xs[0], "Height": ys[-1] - ys[0]}
    # 0b. select_box keeps one box per allocation cell, with occupancy 0 where the module is absent
    exp_occ = expected_occ(inp)
    if len(ip) != len(cells) or any(ip[t][4] != exp_occ[t] for t in range(len(cells))):
        ctx.spec_fail("select_box:one-box-per-cell", inp,
                      {"n_cells": len(cells), "n_boxes": len(ip), "occupancies": [b[4] for b in ip], "expected": exp_occ}, size)
        return
    if not _LAST.pop("tied", False):
        select_box_tie(ctx, inp, ip, size, reqs, todo)
    # 0. the grid the implementation sees (exact comparison; corners are shared by construction or, through
    #    select_box, recomputed from dyadic centres/sizes)
    if c.xcoords != sorted(set(xs)) or c.ycoords != sorted(set(ys)):
        ctx.spec_fail("grid:coordinates", inp, {"xcoords": c.xcoords, "ycoords": c.ycoords}, size)
        return
    cell_to_block = {cells[t]: t for t in range(len(cells))}
    weight = {b: int(ratio) * int(call("area", rect.area, c, b, True)) - int(call("area", rect.area, c, b, False))
              for b in c.blocks}
    with recording() as rec:
        ret = call("solve", rect.solve, c, ifile, ratio, (dif0, 1), k)
    items, sm = list(rec.items), rec.last_sm
    if sm is None or not (isinstance(ret, tuple) and len(ret) == 3):
        ctx.spec_fail("operation-raised:solve", inp, {"error": "solver never called / malformed return", "ret": str(ret)[:200]}, size)
        return
    # 1. structure stream
    impl_set, bad = canon_impl(items)
    if bad:
        ctx.disagree("solvec:unparsed-variable", inp, str(bad[:3]), "", size)
    reqs.append(f"Q solvec {k} {int(ratio)} {dif0} {ip_wire(ip)} {areas_wire(c)}")
    todo.append(("solvec", inp, impl_set, size))
    # 1b. the same constraint set from the parsed allocation alone: select_box, definecoords, area and solve all inside the
    #     model (exact rationals: dyadic data, where the float arithmetic of the implementation is exact)
    if inp.get("via") in ("select_box", "get_alloc") and _LAST.get("ifile") is not None and \
            all(_dyadic(float(v)) and abs(v) < 2 ** 30 for b in ip for v in b):
        reqs.append(f"Q chain {k} {int(ratio)} {dif0} {FACTOR} {_NAMES['sel']} {ifile_wire(_LAST['ifile'], lambda v: q2s(Fraction(v)))}")
        todo.append(("solvec", inp, impl_set, size))
        ctx.count("chain:allocation-to-constraints")
    # 2. every model of the real CNF  vs  brute force
    shapes = orthogons(m, n, k)
    expect = {}
    for sh in shapes:
        key = shape_blocks(sh, cell_to_block)
        cost = sum(weight[b] for box in key for b in box)
        expect[key] = cost
    meeting = {key for key, cost in expect.items() if cost >= dif0}
    got = call("satmanager-state", enumerate_models, sm, k, c.blocks)
    if got is None:
        ctx.notes.append("model enumeration skipped (too many models / missing variables)")
    else:
        spurious = got - meeting
        missing = meeting - got
        if spurious:
            s0 = min(spurious, key=lambda s: sum(len(x) for x in s))
            what = "not-an-orthogon" if s0 not in expect else "below-cost-bound"
            ctx.spec_fail("shape_exact:spurious:" + what, inp,
                          {"n_models": len(got), "n_expected": len(meeting), "example_blocks": fs_list(s0)}, size)
        if missing:
            s0 = min(missing, key=lambda s: sum(len(x) for x in s))
            ctx.spec_fail("shape_exact:missing", inp,
                          {"n_models": len(got), "n_expected": len(meeting), "example_blocks": fs_list(s0)}, size)
        ctx.count("models:%s" % ("0" if not got else "1-99" if len(got) < 100 else "100-9999" if len(got) < 10000 else "10000+"))
    # 3. the value returned by solve
    last, rects, quality = ret
    if not rects:
        if meeting:
            ctx.spec_fail("solve_iff:insat-but-shape-exists", inp, {"n_expected": len(meeting)}, size)
        if tuple(last) != (0, 1):
            ctx.spec_fail("solve_iff:insat-return", inp, {"last": list(last)}, size)
        reqs.append(f"Q insat {k} {int(ratio)} {ip_wire(ip)} {areas_wire(c)}")
        todo.append(("insat", inp, "insat", size))
    else:
        xi = {x: t for t, x in enumerate(xs)}
        yi = {y: t for t, y in enumerate(ys)}
        shape = []
        okc = len(rects) == k
        for r in rects:
            if isinstance(r, (tuple, list)) and len(r) == 4 and r[0] in xi and r[2] in xi and r[1] in yi and r[3] in yi and r[0] < r[2] and r[1] < r[3]:
                shape.append((xi[r[0]], xi[r[2]] - 1, yi[r[1]], yi[r[3]] - 1))
            else:
                okc = False
        detail = {"rects": [[num(v) for v in r] for r in rects], "last": list(last)}
        if not okc:
            ctx.spec_fail("solve_iff:returned-rect-not-on-grid", inp, detail, size)
        else:
            key = shape_blocks(shape, cell_to_block)
            if key not in expect:
                ctx.spec_fail("solve_iff:returned-not-an-orthogon", inp, detail, size)
            elif expect[key] < dif0:
                ctx.spec_fail("solve_iff:returned-below-bound", inp, dict(detail, cost=expect[key]), size)
            elif tuple(last) != (expect[key] + 1, 1):
                ctx.spec_fail("solve_iff:reported-cost", inp, dict(detail, cost=expect[key]), size)
            # the returned rectangles are the bounding boxes of the boxes of the solver's model = those boxes
            true_cells = [(i, b) for i in range(k) for b in c.blocks if sm.model.get(f"b{i}_{b}") == 1]
            mkey = tuple(frozenset(b for (i, b) in true_cells if i == t) for t in range(k))
            if mkey != key:
                ctx.spec_fail("solve_iff:rects-are-not-the-boxes", inp, dict(detail, model_boxes=fs_list(mkey)), size)
        true_cells = [(i, b) for i in range(k) for b in c.blocks if sm.model.get(f"b{i}_{b}") == 1]
        true_sel = [b for b in c.blocks if sm.model.get(f"b_{b}") == 1]
        reqs.append(f"Q result {k} {int(ratio)} {ip_wire(ip)} {areas_wire(c)} {len(true_cells)} "
                    + " ".join(f"{i} {b}" for i, b in true_cells) + f" {len(true_sel)} " + " ".join(map(str, true_sel)))
        impl = f"found {last[0]}" + "".join(" | " + " ".join(num(v) for v in r) for r in rects)
        todo.append(("result", inp, impl, size))
    # 3b. the same return value from the RAW answers of the SAT layer (sm.solve() as seen in sm.model, the dictionary
    #     sm.model itself) through the Lean model of value() / evalexpr() and of solve's post-processing (`solveReturn`)
    mdl = [(v, x) for v, x in sm.model.items() if re.match(r"^b\d*_\d+$", v)]
    reqs.append(f"Q retval {k} {int(ratio)} {ip_wire(ip)} {areas_wire(c)} {1 if sm.model else 0} {len(mdl)} "
                + " ".join(f"{v} {x}" for v, x in mdl))
    todo.append(("retval", inp, "insat" if not rects else
                 f"found {last[0]}" + "".join(" | " + " ".join(num(v) for v in r) for r in rects), size))
    nontrivial = bool(shapes) and k * m * n > 1
    ctx.case("grid", (tuple(xs), tuple(ys), tuple(inp.get("order") or ()), tuple(inp["occ"]), k, ratio, dif0, inp.get("via")),
             nontrivial, sample={"xs": xs, "ys": ys, "k": k, "dif0": dif0, "n_shapes": len(meeting),
                                 "returned": [[num(v) for v in r] for r in rects]})
    ctx.count(f"grid:{m}x{n}")
    ctx.count(f"k:{k}")
    ctx.count("bound:" + ("none" if dif0 == LOW else "unsat" if not meeting else "some" if len(meeting) < len(expect) else "all"))
    ctx.count("family:" + inp.get("family", "?"))


def raw_case(ctx: Ctx, inp: dict, reqs: list, todo: list) -> None:
    """kind = 'raw': arbitrary box list (non-product, degenerate), enforce_bb alone: structure stream only."""
    ip = [tuple(b) for b in inp["ip"]]
    i, cb = inp["i"], inp["c"]
    c = types.SimpleNamespace(input_problem=list(ip), factor=FACTOR)
    call("definecoords", rect.definecoords, c)
    xsr = [q2s(Fraction(v)) for v in c.xcoords]
    ysr = [q2s(Fraction(v)) for v in c.ycoords]

    def pairs(d):
        return "".join(f" {q2s(Fraction(a))}>{q2s(Fraction(b))}" for a, b in sorted(d.items()))
    impl_coords = (f"blocks {len(c.blocks)} | xs" + "".join(" " + v for v in xsr) + " | ys" + "".join(" " + v for v in ysr)
                   + " | px" + pairs(c.prev_x) + " | py" + pairs(c.prev_y) + " | nx" + pairs(c.next_x) + " | ny" + pairs(c.next_y))
    reqs.append(f"Q coords {ip_wire(ip)}")
    todo.append(("coords", inp, impl_coords, len(ip)))
    if c.blocks != list(range(len(ip))):
        ctx.spec_fail("definecoords:blocks", inp, {"blocks": c.blocks}, len(ip))
    W = (max(c.xcoords) - min(c.xcoords)) if c.xcoords else 0
    H = (max(c.ycoords) - min(c.ycoords)) if c.ycoords else 0
    sm = satmanager.SATManager()
    with recording() as rec:
        try:
            rect.enforce_bb(c, {"Width": W, "Height": H}, sm, f"b{i}_", f"b{cb}_")
            impl = None
        except (KeyError, IndexError):
            impl = "err:KeyError"
        except Exception as e:  # noqa
            raise ImplRaised("enforce_bb", type(e).__name__, str(e)[:200])
    if impl is None:
        impl, bad = canon_impl(rec.items)
        if bad:
            ctx.disagree("ebb:unparsed-variable", inp, str(bad[:3]), "", len(ip))
    reqs.append(f"Q ebb {i} {cb} {ip_wire(ip)}")
    todo.append(("ebb", inp, impl, len(ip)))
    ctx.case("raw", (tuple(ip), i, cb), nontrivial=len(ip) > 0)
    ctx.count("raw:" + ("keyerror" if impl == "err:KeyError" else "ok"))


SEAM_FINDING = "C08-selectbox-float-seams"


def seam_dims(inp):
    """row-major (centre, size) list of a uniform decimal-step grid; `noise` (optional) moves the centre / size of
    individual cells by a few units in the last place — the last-bit noise of values that were COMPUTED (0.1 + 0.05)
    instead of written (0.15) — so that the cells of one column / row disagree about their common side"""
    m, n, step, ox, oy = inp["m"], inp["n"], inp["step"], inp["ox"], inp["oy"]
    dims = [[round(ox + (i + 0.5) * step, 10), round(oy + (j + 0.5) * step, 10), step, step]
            for j in range(n) for i in range(m)]
    for (t, f, k) in inp.get("noise") or []:
        dims[t][f] = ulp_nudge(dims[t][f], k)
    return dims


def seam_case(ctx: Ctx, inp: dict, reqs: list, todo: list) -> None:
    """kind = 'seam': a uniform grid written the way an allocation file stores it (centre, size) with a decimal
    step; rect_io.select_box recomputes the corners as centre ± size/2 in floating point.  The cells handed to the
    search must still form the m×n grid (neighbouring cells share their corner coordinates exactly, coordinates within
    1e-8·extent of the ideal ones); if so the whole grid check is run on them."""
    m, n, step, ox, oy = inp["m"], inp["n"], inp["step"], inp["ox"], inp["oy"]
    perm = inp.get("perm") or list(range(m * n))
    rm = seam_dims(inp)
    dims = [rm[t] for t in perm]                       # the allocation lists its cells in this order
    ginp = {"kind": "grid", "alloc": dims, "order": perm, "occ": inp["occ"], "mods": inp.get("mods"), "k": inp["k"], "ratio": inp["ratio"],
            "dif0": inp.get("dif0", LOW), "family": "decimal-alloc/" + inp.get("perm_kind", "rowmajor") + ("/noisy" if inp.get("noise") else ""),
            "via": "alloc", "xs": [], "ys": [], "names": inp.get("names")}
    # through a YAML allocation file and the real get_alloc (allocation files only admit non-negative corners)
    if inp.get("through_file") and all(d[0] - d[2] / 2 >= 0 and d[1] - d[3] / 2 >= 0 for d in dims):
        ginp["through_file"] = True
        ginp["occ"] = [float(yaml_num(v)) for v in inp["occ"]]
        if ginp["mods"]:
            ginp["mods"] = ["empty" if k == "none" else "M" if k == "dupM" else k for k in ginp["mods"]]
    ip, cells = make_ip(dict(ginp, xs=list(range(m + 1)), ys=list(range(n + 1))))
    select_box_tie(ctx, inp, ip, m * n, reqs, todo)
    exp_occ = expected_occ(ginp)
    if len(ip) != len(cells) or any(ip[t][4] != exp_occ[t] for t in range(len(cells))):
        ctx.case("seam", (m, n, step, ox, oy, tuple(perm)), nontrivial=True)
        ctx.spec_fail("select_box:one-box-per-cell", inp,
                      {"n_cells": len(cells), "n_boxes": len(ip), "occupancies": [b[4] for b in ip], "expected": exp_occ}, m * n)
        return
    c = carrier_of(ip)
    scale = 1e-8 * max(m * step, n * step)
    # no two grid lines closer than 1e-9·extent: float noise must never survive as a sliver column / row
    ext = max(c.xcoords[-1] - c.xcoords[0], c.ycoords[-1] - c.ycoords[0])
    close = [(a, b) for cs in (c.xcoords, c.ycoords) for a, b in zip(cs, cs[1:]) if b - a <= 1e-9 * ext]
    if close:
        ctx.case("seam", (m, n, step, ox, oy, tuple(perm), repr(inp.get("noise"))), nontrivial=True)
        ctx.spec_fail("grid:sliver-between-grid-lines", inp, {"pairs": [[repr(a), repr(b)] for a, b in close[:4]],
                                                                "xcoords": c.xcoords, "ycoords": c.ycoords}, m * n)
        return
    ok = len(c.xcoords) == m + 1 and len(c.ycoords) == n + 1
    ok = ok and all(abs(c.xcoords[i] - (ox + i * step)) <= scale for i in range(m + 1))
    ok = ok and all(abs(c.ycoords[j] - (oy + j * step)) <= scale for j in range(n + 1))
    ok = ok and all(tuple(ip[t][:4]) == (c.xcoords[i], c.ycoords[j], c.xcoords[i + 1], c.ycoords[j + 1])
                    for t, (i, j) in enumerate(cells))
    ctx.count("seam:" + ("consistent" if ok else "split"))
    if not ok:
        ctx.case("seam", (m, n, step, ox, oy, tuple(perm)), nontrivial=True)
        ctx.spec_fail("grid:select_box-float-seam", inp, {"xcoords": c.xcoords, "ycoords": c.ycoords,
                                                          "expected_lines": [m + 1, n + 1]}, m * n)
        return
    ginp["xs"], ginp["ys"] = list(c.xcoords), list(c.ycoords)
    _LAST["tied"] = True
    grid_case(ctx, ginp, reqs, todo)


def snap_case(ctx: Ctx, inp: dict, reqs: list, todo: list) -> None:
    """kind = 'snap': cells whose sides miss each other by about the snapping tolerance (1e-9·extent): above it the input is
    not a grid and the property says nothing, so only the correspondence of select_box with its Lean model is checked"""
    dims, mods, occ = inp["alloc"], inp["mods"], inp["occ"]
    set_names(inp)
    rects = [{f"b{t}": [{"dim": d}, {"mod": mod_list(mods[t], occ[t])}]} for t, d in enumerate(dims)]
    ifile = {"Width": 1.0, "Height": 1.0, "Rectangles": rects}
    ip, _ = call("select_box", select_box, _NAMES["sel"], ifile)
    exp = [occ[t] if ("M" in mods[t].split("+") or mods[t] == "dupM") else 0.0 for t in range(len(dims))]
    if [b[4] for b in ip] != exp:
        ctx.spec_fail("select_box:one-box-per-cell", inp, {"occupancies": [b[4] for b in ip], "expected": exp,
                                                           "names": [_NAMES["sel"], _NAMES["other"]]}, len(dims))
    _LAST["ifile"] = ifile
    _LAST["alloc_cells"] = None
    select_box_tie(ctx, inp, ip, len(dims), reqs, todo)
    xs = sorted({v for b in ip for v in (b[0], b[2])})
    ctx.case("snap", repr(dims), nontrivial=len(dims) > 1)
    ctx.count("snap:xlines%d" % min(9, len(xs)))


def gen_snap(rng):
    m, n = rng.randint(1, 3), rng.randint(1, 3)
    step = rng.choice([0.1, 0.3, 1.0, 0.25, 2.5, 100.0])
    ox, oy = rng.choice([0.0, 1.0, -3.0, 0.2, 1000.0]), rng.choice([0.0, 0.4, -1.0])
    ext = max(m, n) * step
    dims = []
    for j in range(n):
        for i in range(m):
            d = [ox + (i + 0.5) * step, oy + (j + 0.5) * step, step, step]
            if rng.random() < 0.5:      # a side off by a multiple of the tolerance (below, at, just above, well above)
                d[rng.randrange(4)] += rng.choice([1, -1]) * rng.choice([2e-10, 8e-10, 9.9e-10, 1e-9, 1.01e-9, 1.2e-9, 2e-9, 5e-9, 1e-7]) * ext
            dims.append(d)
    rng.shuffle(dims)
    return {"kind": "snap", "alloc": dims, "mods": gen_mods(rng, m * n), "occ": gen_occ(rng, m * n),
            "names": list(rng.choice(NAME_PAIRS))}


def compare(ctx: Ctx, todo, replies) -> None:
    for (op, inp, impl, size), reply in zip(todo, replies):
        if op in ("solvec", "ebb"):
            mod = canon_model(reply)
            if mod == impl:
                continue
            if isinstance(mod, set) and isinstance(impl, set):
                if equivalent_sets(impl, mod):
                    # same constraint system up to redundant (implied) clauses: a rewrite, not a divergence
                    ctx.count("structure:equivalent-not-identical")
                    continue
                only_impl = sorted(map(str, impl - mod))[:4]
                only_model = sorted(map(str, mod - impl))[:4]
                ctx.disagree(op, inp, {"n": len(impl), "only_impl": only_impl}, {"n": len(mod), "only_model": only_model}, size)
            else:
                ctx.disagree(op, inp, impl if isinstance(impl, str) else f"{len(impl)} constraints",
                             mod if isinstance(mod, str) else f"{len(mod)} constraints", size)
        elif op == "galloc":
            def parse(w):       # records with their module dictionaries in a canonical order (a cell lists each module once)
                t = w.split()
                pos, out = 1, []
                for _ in range(int(t[0])):
                    dims, flag = t[pos:pos + 4], t[pos + 4]
                    pos += 5
                    mods = None
                    if flag == "M":
                        nd = int(t[pos]); pos += 1
                        mods = []
                        for _ in range(nd):
                            ni = int(t[pos]); pos += 1
                            mods.append(tuple(t[pos:pos + 2 * ni])); pos += 2 * ni
                        mods.sort()
                    out.append((dims, mods))
                return out
            try:
                same = parse(impl) == parse(reply)
            except Exception:
                same = False
            if not same:
                ctx.disagree(op, inp, impl[:600], reply[:600], size)
        elif op in ("selbox:F", "selbox:Q"):
            dec = hex2f if op.endswith("F") else (lambda x: Fraction(x))
            if not boxes_equal(reply, impl, dec):
                dy = all(_dyadic(float(v)) for b in impl for v in b)
                if op.endswith("F") and not dy and boxes_close(reply, impl):
                    ctx.drift += 1      # decimal data: equal up to the rounding of the corner arithmetic
                else:
                    ctx.disagree(op, inp, [[num(v) for v in b] for b in impl], reply[:600], size)
        elif op == "areas":
            sel, real, ties = impl
            try:
                a, b = reply.split(" | ")
                msel, mreal = [int(x) for x in a.split()], [int(x) for x in b.split()]
            except Exception:
                msel, mreal = None, None
            if msel is None or len(msel) != len(sel) or len(mreal) != len(real):
                ctx.disagree(op, inp, [sel, real], reply[:300], size)
            else:
                for t in range(len(sel)):
                    if (sel[t], real[t]) != (msel[t], mreal[t]):
                        if ties[t] and abs(sel[t] - msel[t]) <= 1 and abs(real[t] - mreal[t]) <= 1:
                            ctx.ties += 1
                        else:
                            ctx.disagree(op, inp, [sel, real], reply[:300], size)
                            break
        elif op == "coords":
            def norm(s):
                parts = s.split(" | ")
                return [parts[0]] + [p.split()[0] + " " + " ".join(sorted(p.split()[1:])) if p.split()[0] in ("px", "py", "nx", "ny") else p
                                     for p in parts[1:]]
            if norm(impl) != norm(reply):
                ctx.disagree(op, inp, impl, reply, size)
        else:
            if impl != reply:
                ctx.disagree(op, inp, impl, reply, size)


# ----------------------------------------------------------------------------- generation
STEP_FAMILIES = {
    "unit": [1.0],
    "int": [1.0, 2.0, 3.0, 5.0],
    "dyadic": [0.5, 0.25, 1.5, 2.5, 0.75],
    "decimal": [0.1, 0.3, 0.7, 1.1, 2.3],
    # large offset, small spacing: distinct grid lines agree in their first 6+ significant digits
    "bigoffset": [0.25, 0.5, 0.75],
    # coordinates whose decimal representation is long (17 significant digits)
    "thirds": [1 / 3, 2 / 3, 1 / 7, 0.1 + 0.2],
}
BIG_ORIGINS = [1e5, 250000.0, 1e6, 1e7, 123456.0, -1e5, -250000.0, -1e6, -1e7, 4194304.5, -99999.75]
ORIGINS = [0.0, 0.0, 1.0, -1.0, 2.5, -0.5, 7.0, 0.1, -3.25]


def cell_order(rng, m: int, n: int, kind: str | None = None) -> tuple[str, list[int]]:
    """a listing order of the m×n cells (indices into the row-major listing): as is, reversed (from the far corner
    backwards), column-major, column-major from the far corner, shuffled."""
    kind = kind or rng.choice(["rowmajor", "shuffled", "reversed", "colmajor", "colmajor-reversed", "shuffled"])
    rm = list(range(m * n))
    if kind == "reversed":
        return kind, rm[::-1]
    if kind in ("colmajor", "colmajor-reversed"):
        cm = [j * m + i for i in range(m) for j in range(n)]
        return kind, cm[::-1] if kind == "colmajor-reversed" else cm
    if kind == "shuffled":
        rng.shuffle(rm)
    return kind, rm


def gen_axis(rng, ncell: int, fam: str, origin: float):
    xs = [origin]
    for _ in range(ncell):
        xs.append(xs[-1] + rng.choice(STEP_FAMILIES[fam]))
    return xs


def gen_occ(rng, ncells: int) -> list[float]:
    """occupancy values: arbitrary, incl. all zero (module absent), all one, tiny (integer area 0)"""
    r = rng.random()
    if r < 0.08:
        return [0.0] * ncells
    if r < 0.12:
        return [rng.choice([0.0, 1e-7, 1e-5]) for _ in range(ncells)]
    if r < 0.16:
        return [1.0] * ncells
    return [rng.choice([0.0, 1.0, 0.5, 0.9, 0.25, round(rng.random(), 3)]) for _ in range(ncells)]


def gen_grid_input(rng, m, n, k, fam=None, bound_mode=None, via=None):
    fam = fam or rng.choice(list(STEP_FAMILIES))
    ox, oy = rng.choice(ORIGINS), rng.choice(ORIGINS)
    if rng.random() < 0.3:
        ox, oy = 0.0, 0.0
    if via == "select_box":   # centre ± size/2 must be exact: dyadic data only
        fam = rng.choice(["unit", "int", "dyadic", "bigoffset"])
        ox, oy = rng.choice([0.0, 1.0, -1.0, 2.5, -0.5]), rng.choice([0.0, 1.0, -1.0, 2.5, -0.5])
    if fam == "bigoffset":
        ox, oy = rng.choice(BIG_ORIGINS), rng.choice(BIG_ORIGINS + [0.0, 1.0])
        if rng.random() < 0.5:
            ox, oy = oy, ox
    elif fam == "thirds" and rng.random() < 0.5:
        ox, oy = rng.choice([1 / 3, -2 / 3, 1e3 + 1 / 3, 0.0]), rng.choice([1 / 3, -1 / 7, 0.0, 12345.678])
    xs, ys = gen_axis(rng, m, fam, ox), gen_axis(rng, n, fam, oy)
    _, order = cell_order(rng, m, n)
    occ = gen_occ(rng, m * n)
    ratio = rng.choice([2.0, 2.0, 3.0, 1.0])
    inp = {"kind": "grid", "xs": xs, "ys": ys, "order": order, "occ": occ, "k": k, "ratio": ratio, "dif0": LOW,
           "family": fam + ("/origin0" if ox == 0 and oy == 0 else "/shifted"), "via": via}
    if via == "select_box":
        inp["names"] = list(rng.choice(NAME_PAIRS))
        if rng.random() < 0.6 and xs[0] >= 0 and ys[0] >= 0:   # through a YAML allocation file and the real get_alloc
            # (allocation files only admit non-negative rectangle coordinates)
            inp["via"] = "get_alloc"
            inp["occ"] = [float(yaml_num(v)) for v in occ]
        if rng.random() < 0.7:
            inp["mods"] = gen_mods(rng, m * n, allow_none=inp["via"] == "select_box")
    if bound_mode:
        inp["bound_mode"] = bound_mode
    return inp


def choose_bound(rng, inp, mode):
    """a cost bound relative to the achievable costs of the grid's orthogons (brute force)."""
    try:
        ip, cells = make_ip(inp)
        c = carrier_of(ip)
        w = [int(inp["ratio"]) * int(call("area", rect.area, c, b, True)) - int(call("area", rect.area, c, b, False))
             for b in c.blocks]
    except ImplRaised:
        return LOW          # the case itself reports the exception
    if len(ip) != len(cells):
        return LOW          # the case itself reports the missing boxes
    m, n = len(inp["xs"]) - 1, len(inp["ys"]) - 1
    cb = {cells[t]: t for t in range(len(cells))}
    costs = sorted(sum(w[cb[cc]] for r in sh for cc in rect_cells(r)) for sh in orthogons(m, n, inp["k"]))
    if not costs:
        return 0
    if mode == "max":
        return costs[-1]
    if mode == "unsat":
        return costs[-1] + 1
    if mode == "min":
        return costs[0]
    return costs[rng.randrange(len(costs))] + rng.choice([0, 0, 1, -1])


def run_cases(ctx: Ctx, inputs: list[dict]) -> None:
    reqs, todo = [], []
    for inp in inputs:
        nreq = len(reqs)
        try:
            if inp["kind"] == "grid":
                grid_case(ctx, inp, reqs, todo)
            elif inp["kind"] == "seam":
                seam_case(ctx, inp, reqs, todo)
            elif inp["kind"] == "snap":
                snap_case(ctx, inp, reqs, todo)
            else:
                raw_case(ctx, inp, reqs, todo)
        except ImplRaised as e:
            del reqs[nreq:], todo[nreq:]
            ctx.spec_fail("operation-raised:" + e.args[0], inp, {"error": e.args[1], "message": e.args[2]},
                          len(inp.get("occ", inp.get("ip", []))))
    replies = ctx.model(reqs)
    if replies is None:
        ctx.notes.append("model driver unavailable: correspondence not run")
        return
    compare(ctx, todo, replies)


def gen_raw(rng):
    kind = rng.randrange(5)
    vals = rng.choice([[0.0, 1.0, 2.0, 3.0], [0.0, 0.5, 1.5, 4.0], [-1.0, 0.0, 2.5, 3.0, 7.0], [0.1, 0.3, 0.7, 1.1]])
    nb = rng.randint(0, 5)
    ip = []
    for _ in range(nb):
        if kind == 0:      # arbitrary, possibly degenerate / inverted boxes
            b = (rng.choice(vals), rng.choice(vals), rng.choice(vals), rng.choice(vals), 0.5)
        else:              # proper boxes, possibly overlapping / non-product (quad-tree like)
            x0, x1 = sorted(rng.sample(vals, 2))
            y0, y1 = sorted(rng.sample(vals, 2))
            b = (x0, y0, x1, y1, 0.5)
        ip.append(b)
    if kind == 4 and ip:
        ip.append(ip[0])
    i = rng.choice([0, 1, 2])
    return {"kind": "raw", "ip": [list(b) for b in ip], "i": i, "c": rng.choice([0, 0, 0, i, 1])}


def run(ctx: Ctx) -> None:
    ctx.rule = ("product grids m×n of cells with coordinates origin + cumulative steps from 6 step families (unit, integer, "
                "dyadic fractions incl. 2.5, decimal fractions, 'bigoffset' = steps .25/.5/.75 from origins ±1e5…±1e7 so that distinct "
                "grid lines share their first 6+ significant digits, 'thirds' = steps 1/3, 2/3, 1/7 with 17-digit coordinates) and 9 "
                "origins (0, positive, negative, fractional), cells listed "
                "row-major / reversed / column-major / column-major reversed / shuffled, occupancies in {0, 1, .5, .9, .25, random} or all 0 / all 1 / tiny, ratio 1, 2 or 3, k boxes; the real "
                "rect.solve is run with a cost bound (none / max achievable / max+1 / random achievable±1); part of the grids "
                "go through rect_io.select_box (dyadic data), half of those through a YAML allocation file and the real get_alloc, "
                "with 0–40 % truly empty cells ({}), cells hosting only another module, the module with another one; the two module NAMES of a case "
                "share prefixes / suffixes (M/M2, M/M10, M10/M1, M/Mx, oth/other, M/aM, … in either role). quick: every shape ≤ 3×3 with k ≤ 3 (5 grids per shape for k ≤ 2, "
                "2 for k = 3), each with and without a cost bound, + 60 random ≤ 3×3 / 2×4 with bounds; thorough: every shape ≤ 3×3 "
                "and 2×4, 4×2 with k ≤ 3 (12 grids each) and 1500 random ≤ 4×4 with cost bounds.  'seam' cases: uniform decimal-step "
                "grids given as (centre, size) like an allocation file, through rect_io.select_box; 120 (thorough 1500) of them with the centre / "
                "size of ~45 % of the cells moved by 1–3 ulps (values that were computed rather than written), 60 % anchored at the origin "
                "(a side exactly at 0.0 next to sides carrying noise), half through a YAML file and the real get_alloc; no two grid lines "
                "may be closer than 1e-9·extent.  'snap' cases (300 / 3000): cells whose sides miss each other by 0.2…100 × the snapping "
                "tolerance, select_box against its Lean model only.  'raw' cases: arbitrary box lists "
                "(overlapping, degenerate, non-product) for the structure stream of enforce_bb/definecoords alone.  A grid "
                "case is non-trivial when the grid has at least one k-box orthogon and more than one (box, cell) variable")
    ctx.assumptions += [
        "min-error mode only (ratio >= 1, integer-valued: 1.0 = --sf 1, 2.0 = --minerr, 3.0 = --maxdiff); occupancies are "
        "arbitrary, including all zero (the reported quality, a float printed and returned third, is not part of the property)",
        "input_problem is a full product grid (every cell spans consecutive coordinates in x and in y and every combination is "
        "present); quad-tree-like allocations are outside the property (structure stream only)",
        "grid corners shared by neighbouring cells are equal as floats (select_box recomputes them as centre ± size/2: exact for "
        "dyadic data only)",
    ]
    rng = ctx.rng
    inputs: list[dict] = []
    if hasattr(ctx, "seed_inputs"):
        inputs += [i for i in ctx.seed_inputs if isinstance(i, dict) and "kind" in i]
    quick = ctx.tier == "quick"
    shapes = [(m, n) for m in (1, 2, 3) for n in (1, 2, 3)]
    if not quick:
        shapes += [(2, 4), (4, 2)]
    fams = list(STEP_FAMILIES)
    reps = ctx.n(5, 12)
    for (m, n) in shapes:
        for k in (1, 2, 3):
            for r in range(reps if (k < 3 or not quick) else 2):
                for via in (None, "select_box") if (m * n <= 4 or not quick) else (None,):
                    inp = gen_grid_input(rng, m, n, k, fam=fams[(m + n + k + r) % len(fams)] if via is None else None, via=via)
                    inputs.append(inp)
                    # the same grid with a cost bound
                    mode = rng.choice(["max", "unsat", "rand", "rand"])
                    inp2 = dict(inp)
                    inp2["dif0"] = choose_bound(rng, inp, mode)
                    inp2["bound_mode"] = mode
                    inputs.append(inp2)
    # a few k = 3 cases in the quick tier, shifted origins / fractional sizes first
    for _ in range(ctx.n(6, 0) if quick else 0):
        m, n = rng.choice([(2, 2), (2, 3), (3, 2), (1, 3)])
        inputs.append(gen_grid_input(rng, m, n, 3))
    # random larger grids with cost bounds
    for _ in range(ctx.n(60, 1500)):
        m, n = rng.choice([(2, 3), (3, 3), (3, 4), (4, 3), (4, 4), (2, 4), (4, 2), (1, 4), (4, 1)] if not quick
                          else [(2, 3), (3, 2), (3, 3), (1, 4), (4, 1), (2, 4)])
        k = rng.choice([1, 2, 2, 3]) if (not quick and m * n <= 12) else rng.choice([1, 2, 2])
        inp = gen_grid_input(rng, m, n, k, via=rng.choice([None, None, "select_box"]))
        mode = rng.choice(["max", "unsat", "rand", "rand", "min"])
        inp["dif0"] = choose_bound(rng, inp, mode)
        inp["bound_mode"] = mode
        inputs.append(inp)
    for _ in range(ctx.n(200, 1500)):
        inputs.append(gen_raw(rng))
    for _ in range(ctx.n(40, 300)):
        m, n = rng.randint(1, 4), rng.randint(1, 4)
        if m * n == 1:
            m = 3
        pk, perm = cell_order(rng, m, n)
        inputs.append({"kind": "seam", "m": m, "n": n, "step": rng.choice([0.1, 0.3, 0.7, 0.05, 1.1, 0.5, 2.0]),
                       "ox": rng.choice([0.0, 1.0, 0.2]), "oy": rng.choice([0.0, -1.0, 0.4]), "perm": perm, "perm_kind": pk,
                       "occ": gen_occ(rng, m * n), "mods": gen_mods(rng, m * n) if rng.random() < 0.6 else None,
                       "k": rng.choice([1, 2, 2]) if quick or m * n > 9 else rng.choice([1, 2, 3]),
                       "ratio": rng.choice([2.0, 3.0, 1.0]), "names": list(rng.choice(NAME_PAIRS))})
    # computed-looking centres / sizes: individual cells off by a few ulps, grids anchored at the origin (a side exactly at
    # 0.0 next to sides carrying noise), at other decimal origins, listed in any order, half of them through a YAML file
    for _ in range(ctx.n(120, 1500)):
        m, n = rng.randint(1, 4), rng.randint(1, 4)
        if m * n == 1:
            n = 3
        pk, perm = cell_order(rng, m, n)
        nz = []
        for t in range(m * n):
            if rng.random() < 0.45:
                nz.append([t, rng.choice([0, 1, 0, 1, 2, 3]), rng.choice([1, -1, 1, 2, -2, 3])])
        step = rng.choice([0.1, 0.3, 0.7, 0.05, 1.1, 0.15, 0.9])
        k = rng.choice([1, 2, 2]) if quick or m * n > 9 else rng.choice([1, 2, 3])
        inp = {"kind": "seam", "m": m, "n": n, "step": step, "ox": rng.choice([0.0, 0.0, 0.0, 1.0, 0.2]),
               "oy": rng.choice([0.0, 0.0, 0.4, 2.0]), "perm": perm, "perm_kind": pk, "noise": nz,
               "occ": gen_occ(rng, m * n), "mods": gen_mods(rng, m * n) if rng.random() < 0.4 else None,
               "k": k, "ratio": rng.choice([2.0, 3.0, 1.0]), "through_file": rng.random() < 0.5,
               "names": list(rng.choice(NAME_PAIRS))}
        inputs.append(inp)
    for _ in range(ctx.n(300, 3000)):
        inputs.append(gen_snap(rng))
    run_cases(ctx, inputs)


def replay(ctx: Ctx, body: dict) -> None:
    run_cases(ctx, [body["input"]])

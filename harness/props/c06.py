"""C06 — Single-trunk orthogon (STOG) recognition is sound and complete.

Correspondence: `create_stog` (reached directly, through `Module.create_stog` and through `Netlist` loading) and
`Rectangle.find_location` vs the Lean model `FV/Model/Stog.lean` (ops `stog`, `findloc` of `drv_stog`): verdict, final
ORDER of the list and the role of every rectangle.  'Q' stream: dyadic coordinates and tolerances (float arithmetic is
exact, compared with the model run at `Rat`); 'F' stream: decimal coordinates, the tolerance chosen by `Netlist`
(compared with the model run at `Float`; near-ties are not binding).

Spec on the implementation (exact `Fraction` arithmetic on what the implementation returned), clauses named after the
theorems of `FV/Props/C06.lean`: verdict ⇔ some rectangle has every other one abutting one of its sides within the
extent without overlap; trunk first / every other rectangle carries its side; no roles on failure; the list is a
re-ordering of the very same, unaltered objects.
"""
from __future__ import annotations

import itertools
from fractions import Fraction

from vcheck import Ctx
import geo
from geo import sc, rect_in, rects_out, bb, exact_overlap, rect_dict, LOC
from frame.geometry.geometry import Rectangle, create_stog
from frame.netlist.module import Module
from frame.netlist.netlist import Netlist

LEVEL = "proof"
DRIVERS = ["drv_stog", "drv_netlist"]
TRUSTED = [
    "Lean 4.33 kernel; Mathlib lemmas; axioms ⊆ {propext, Classical.choice, Quot.sound}",
    "hand-written model FV/Model/Stog.lean (+ FV/Model/Geom.lean) — fidelity to create_stog / find_location checked by this "
    "correspondence run (verdict, order and roles on every generated list and its permutations), not proved",
    "a Python list of distinct Rectangle objects is modelled as a Lean list (identity = position); lists that contain the "
    "same object twice are outside the model",
    "theorems are over exact ordered fields; IEEE rounding is executed (F stream), never proved",
    "Module.create_stog / Module.has_stog / the call site in Netlist loading: model Mod.createStog, hasStog, finish "
    "(FV/Model/NetlistStog.lean, FV/Model/Netlist.lean); theorems module_createStog, netlist_load_createStog, "
    "netlist_load_only_reorders, netlist_hasStog_iff, netlist_flip_has_stog; tie: route `module` also against drv_netlist op "
    "`modstog` (returned value, has_stog, order and roles), the netlist route through C04 / C05 (`S` field = has_stog)",
    "harness (Python) and compiled Lean driver: parsing, canonicalisation, comparison",
]

SIDES = ("N", "S", "E", "W")


# ------------------------------------------------------------------ exact specification
class Margin:
    """collects how close the decisive comparisons are to their thresholds (F stream: near-ties are skipped)."""

    def __init__(self):
        self.m = None

    def lt(self, a: Fraction, b: Fraction) -> bool:
        d = abs(a - b)
        self.m = d if self.m is None or d < self.m else self.m
        return a < b


def abuts(side: str, t, r, eps: Fraction, mg: Margin) -> bool:
    """`Abuts ε side t r` of FV/Props/C06.lean: the facing sides are closer than ε and r stays within the extent
    of that side of t (ε slack)."""
    tx0, ty0, tx1, ty1 = t
    rx0, ry0, rx1, ry1 = r
    if side == "N":
        return mg.lt(abs(ty1 - ry0), eps) & mg.lt(tx0 - eps, rx0) & mg.lt(rx1, tx1 + eps)
    if side == "S":
        return mg.lt(abs(ty0 - ry1), eps) & mg.lt(tx0 - eps, rx0) & mg.lt(rx1, tx1 + eps)
    if side == "E":
        return mg.lt(abs(tx1 - rx0), eps) & mg.lt(ty0 - eps, ry0) & mg.lt(ry1, ty1 + eps)
    return mg.lt(abs(tx0 - rx1), eps) & mg.lt(ty0 - eps, ry0) & mg.lt(ry1, ty1 + eps)


def box_overlap(a, b) -> Fraction:
    dx = min(a[2], b[2]) - max(a[0], b[0])
    dy = min(a[3], b[3]) - max(a[1], b[1])
    return dx * dy if dx > 0 and dy > 0 else Fraction(0)


def spec_location(t, r, eps, epsA, mg: Margin, mgA: Margin):
    """the side of t that r abuts (without overlapping t), None if there is none; 'AMBIG' if more than one."""
    if mgA.lt(epsA, box_overlap(t, r)):
        return None
    sides = [s for s in SIDES if abuts(s, t, r, eps, mg)]
    if len(sides) > 1:
        return "AMBIG"
    return sides[0] if sides else None


def well_formed(boxes, eps: Fraction) -> bool:
    return eps > 0 and all(b[2] - b[0] > 2 * eps and b[3] - b[1] > 2 * eps for b in boxes)


def spec_on_impl(ctx: Ctx, inp, mode: str, eps, epsA, before, boxes_in, ids_in, ret, rects_after) -> bool:
    """returns True when the case is a near-tie (F stream) and nothing could be concluded."""
    eps, epsA = Fraction(eps), Fraction(epsA)
    n = len(before)
    size = n
    # --- createStog_perm: the same objects, none altered
    if sorted(id(r) for r in rects_after) != sorted(ids_in):
        ctx.spec_fail("createStog_perm:same-objects", inp, {"n_in": n, "n_out": len(rects_after)}, size)
        return False
    for r in rects_after:
        k = ids_in.index(id(r))
        d = rect_dict(r)
        if any(d[f] != before[k][f] for f in ("cx", "cy", "w", "h", "region", "fixed", "hard")):
            ctx.spec_fail("createStog_perm:unaltered", inp, {"before": before[k], "after": d}, size)
            return False
    if not well_formed(boxes_in, eps):
        ctx.count("spec:not-WF")
        return False
    scale = max([Fraction(1)] + [abs(v) for b in boxes_in for v in b])
    tol = scale / 2 ** 50 if mode == "F" else Fraction(-1)
    tolA = scale * scale / 2 ** 48 if mode == "F" else Fraction(-1)
    mg, mgA = Margin(), Margin()
    loc = [[None if i == j else spec_location(boxes_in[i], boxes_in[j], eps, epsA, mg, mgA) for j in range(n)] for i in range(n)]
    if (mg.m is not None and mg.m <= tol) or (mgA.m is not None and mgA.m <= tolA):
        ctx.ties += 1
        return True
    if any("AMBIG" in row for row in loc):
        ctx.spec_fail("findLocation_iff:unique-side", inp, {"loc": loc}, size)
        return False
    trunks = [i for i in range(n) if all(loc[i][j] is not None for j in range(n) if j != i)]
    # --- createStog_true_iff
    if bool(ret) != bool(trunks):
        ctx.spec_fail("createStog_true_iff", inp, {"returned": ret, "valid_trunks": trunks}, size)
        return False
    roles = [LOC[r.location.name] for r in rects_after]
    # --- createStog_roles
    if ret:
        pos = [ids_in.index(id(r)) for r in rects_after]
        if roles[0] != "T" or pos[0] not in trunks:
            ctx.spec_fail("createStog_roles:trunk-first", inp, {"roles": roles, "head": pos[0], "valid_trunks": trunks}, size)
            return False
        for k in range(1, n):
            if roles[k] != loc[pos[0]][pos[k]]:
                ctx.spec_fail("createStog_roles:branch-side", inp,
                              {"roles": roles, "k": k, "expected": loc[pos[0]][pos[k]]}, size)
                return False
    elif any(x != "X" for x in roles):
        ctx.spec_fail("createStog_roles:none-on-failure", inp, {"roles": roles}, size)
    return False


# ------------------------------------------------------------------ running the implementation
def _mk(d) -> Rectangle:
    return geo.mk_rect(d["cx"], d["cy"], d["w"], d["h"], d["region"], d["fixed"], d["hard"])


def run_impl(route: str, rdicts, eps, epsA):
    """returns (returned value | 'err:Assert', list after, (eps, epsA) in force, the input objects)."""
    Rectangle.undefine_epsilon()
    try:
        if route == "netlist":
            if eps is not None:
                Rectangle.set_epsilon(eps, epsA)
            rows = ", ".join(f"[{d['cx']!r}, {d['cy']!r}, {d['w']!r}, {d['h']!r}]" for d in rdicts)
            area = sum(d["w"] * d["h"] for d in rdicts)
            y = f"Modules:\n  M:\n    area: {area!r}\n    rectangles: [{rows}]\nNets: []\n"
            net = Netlist(y)
            m = net.modules[0]
            rs = m.rectangles
            e = (Rectangle.distance_epsilon(), Rectangle.area_epsilon())
            # the load already ran create_stog; observe has_stog, then run it again on fresh, known objects
            first = (m.has_stog, [LOC[r.location.name] for r in rs], [rect_dict(r) for r in rs])
            return first, None, e, None
        Rectangle.set_epsilon(eps, epsA)
        objs = [_mk(d) for d in rdicts]
        for o, d in zip(objs, rdicts):          # stale roles from an earlier recognition must not survive
            o.location = next(l for l in Rectangle.StogLocation if LOC[l.name] == d.get("loc", "X"))
        lst = list(objs)
        if route == "module":
            m = Module("M", area=1.0)
            for r in lst:
                m.add_rectangle(r)
            try:
                ret = m.create_stog()
            except AssertionError:
                return "err:Assert", m.rectangles, (eps, epsA), objs
            except Exception as ex:  # anything else is never allowed
                return ("raised", type(ex).__name__), m.rectangles, (eps, epsA), objs
            if ret != m.has_stog and len(lst) > 0:
                return ("has_stog-mismatch", ret), m.rectangles, (eps, epsA), objs
            return ret, m.rectangles, (eps, epsA), objs
        try:
            ret = create_stog(lst)
        except AssertionError:
            return "err:Assert", lst, (eps, epsA), objs
        except Exception as ex:  # anything else is never allowed
            return ("raised", type(ex).__name__), lst, (eps, epsA), objs
        return ret, lst, (eps, epsA), objs
    finally:
        Rectangle.undefine_epsilon()


def request(mode, eps, epsA, rdicts) -> str:
    rs = " ".join(f"{sc(d['cx'], mode)} {sc(d['cy'], mode)} {sc(d['w'], mode)} {sc(d['h'], mode)} {d['region']} "
                  f"{int(d['fixed'])} {int(d['hard'])}" for d in rdicts)
    return f"{mode} stog {sc(eps, mode)} {sc(epsA, mode)} {len(rdicts)} {rs}".rstrip()


def one_list(ctx: Ctx, mode: str, route: str, eps, epsA, rdicts, reqs, todo, kind="") -> None:
    inp = {"mode": mode, "route": route, "eps": eps, "epsA": epsA, "rects": rdicts, "kind": kind}
    n = len(rdicts)
    if route == "netlist":
        try:
            first, _, (e, ea), _ = run_impl(route, rdicts, eps, epsA)
        except Exception as ex:
            ctx.spec_fail("operation-raised", inp, {"raised": type(ex).__name__, "where": "Netlist load"}, n)
            return
        has, roles, after = first
        # objects are created by the YAML reader: identity cannot be observed; compare values + roles with the model
        impl = f"{int(has)} " + str(n) + "".join(
            " | " + f"{sc(d['cx'], mode)} {sc(d['cy'], mode)} {sc(d['w'], mode)} {sc(d['h'], mode)} {d['region']} "
                    f"{int(d['fixed'])} {int(d['hard'])} {role}" for d, role in zip(after, roles))
        reqs.append(request(mode, e, ea, rdicts))
        # spec: evaluate on value level (multiset of rectangles + roles)
        boxes = [bb(d) for d in rdicts]
        tie = _spec_values(ctx, inp, mode, e, ea, rdicts, boxes, has, after, roles)
        todo.append((inp, impl, tie))
    else:
        ret, after, (e, ea), objs = run_impl(route, rdicts, eps, epsA)
        if ret == "err:Assert":
            impl = "err:Assert"
            tie = False
            if n > 0:
                ctx.spec_fail("operation-raised", inp, {"raised": "AssertionError"}, n)
        elif isinstance(ret, tuple) and ret[0] == "raised":
            ctx.spec_fail("operation-raised", inp, {"raised": ret[1]}, n)
            return
        elif isinstance(ret, tuple):
            ctx.spec_fail("Module.has_stog-vs-create_stog", inp, {"create_stog": ret[1]}, n)
            return
        else:
            impl = f"{int(ret)} {rects_out(after, mode)}"
            tie = spec_on_impl(ctx, inp, mode, e, ea, rdicts, [bb(d) for d in rdicts], [id(o) for o in objs], ret, after)
            if route == "module":
                module_model_request(ctx, inp, mode, e, ea, rdicts, ret, after, tie)
        reqs.append(request(mode, e, ea, rdicts))
        todo.append((inp, impl, tie))
    ctx.count("route:" + route)
    ctx.count("len:" + str(n))
    ctx.count("verdict:" + impl[:1])
    ctx.case(mode, (route, eps, epsA, [tuple(sorted(d.items())) for d in rdicts]), nontrivial=n >= 2,
             sample={"mode": mode, "route": route, "eps": eps, "epsA": epsA, "rects": rdicts, "impl": impl})


def module_model_request(ctx: Ctx, inp, mode, eps, epsA, rdicts, ret, after, tie) -> None:
    """`Module.create_stog()` / `has_stog` against `Mod.createStog` / `hasStog` of the NETLIST model (drv_netlist, op
    `modstog`: the tagged rectangles of a module, `FV/Model/NetlistStog.lean`) — the model the C06 netlist-level theorems
    (`module_createStog`, `netlist_load_createStog`) are about."""
    import netlist_common as nc
    flags = {(bool(d["fixed"]), bool(d["hard"])) for d in rdicts}
    if len(flags) > 1 or any(d["cx"] < 0 or d["cy"] < 0 for d in rdicts):
        return                  # the reader gives every rectangle of a module the module's flags / refuses negative centres
    fx, hd = next(iter(flags)) if flags else (False, False)
    if (fx or hd) and any(d["region"] != "_" for d in rdicts):
        return
    tree = [[float(d["cx"]), float(d["cy"]), float(d["w"]), float(d["h"])] + ([d["region"]] if d["region"] != "_" else [])
            for d in rdicts]
    req = f"{mode} modstog E {nc.sc(eps, mode)} {nc.sc(epsA, mode)} {int(fx)} {int(hd)} {nc.enc_tree(tree, mode)}"
    has = bool(after) and after[0].location == Rectangle.StogLocation.TRUNK      # what `Module.has_stog` reads
    impl = f"ok {int(ret)} {int(has)} R {len(after)}" + "".join(" " + nc.render_rect(r, mode) for r in after)
    if not hasattr(ctx, "_modstog"):
        ctx._modstog = []
    ctx._modstog.append((req, inp, impl, tie))


def compare_modstog(ctx: Ctx) -> None:
    items = getattr(ctx, "_modstog", [])
    if not items:
        return
    replies = ctx.model([r for r, _, _, _ in items], exe="drv_netlist")
    if replies is None:
        ctx.notes.append("drv_netlist unavailable: Module.create_stog not compared with the netlist model")
        return
    for (req, inp, impl, tie), model in zip(items, replies):
        ctx.count("modstog:compared")
        if impl == model or (inp["mode"] == "F" and tie):
            continue
        ctx.disagree("Module.create_stog", inp, impl, model, size=len(inp["rects"]))
    ctx._modstog = []


def _spec_values(ctx, inp, mode, eps, epsA, rdicts, boxes, has, after, roles) -> bool:
    """netlist route: rectangles are re-created by the reader, so work with values; wraps spec_on_impl by giving
    every input rectangle a stand-in object matched by value (first unused equal one)."""
    class Obj:  # stand-in carrying what spec_on_impl reads
        pass
    used = [False] * len(rdicts)
    objs_after = []
    ids = [None] * len(rdicts)
    for d, role in zip(after, roles):
        o = geo.mk_rect(d["cx"], d["cy"], d["w"], d["h"], d["region"], d["fixed"], d["hard"])
        o.location = next(l for l in Rectangle.StogLocation if LOC[l.name] == role)
        k = next((k for k, (u, s) in enumerate(zip(used, rdicts)) if not u and all(
            float(s[f]) == float(d[f]) for f in ("cx", "cy", "w", "h"))), None)
        if k is None:
            ctx.spec_fail("createStog_perm:same-objects", inp, {"unmatched": d}, len(rdicts))
            return False
        used[k] = True
        ids[k] = id(o)
        objs_after.append(o)
    if not all(used):
        ctx.spec_fail("createStog_perm:same-objects", inp, {"dropped": True}, len(rdicts))
        return False
    before = [dict(d, fixed=a["fixed"], hard=a["hard"], region=a["region"]) for d, a in zip(rdicts, rdicts)]
    return spec_on_impl(ctx, inp, mode, eps, epsA, before, boxes, ids, has, objs_after)


# ------------------------------------------------------------------ generation
def _rd(x0, y0, x1, y1, region="_", fixed=False, hard=False):
    return {"cx": (x0 + x1) / 2, "cy": (y0 + y1) / 2, "w": x1 - x0, "h": y1 - y0, "region": region, "fixed": fixed,
            "hard": hard, "loc": "X"}


def gen_list(rng, mode: str, eps: float):
    """a list 'by construction' (trunk + branches, some perturbed) or random; returns (rects, kind)."""
    u = 0.125 if mode == "Q" else 0.1          # coordinate unit
    q = lambda lo, hi: rng.randint(int(lo / u), int(hi / u)) * u
    kind = rng.choice(["stog", "stog", "stog", "near", "near", "near", "dup", "twotrunks", "random", "chain"])
    if kind == "random":
        k = rng.choice([1, 2, 2, 3, 3, 4])
        out = []
        for _ in range(k):
            x0, y0 = q(0, 4), q(0, 4)
            out.append(_rd(x0, y0, x0 + rng.randint(1, 3), y0 + rng.randint(1, 3)))
        return out, kind
    tx0, ty0 = q(3, 5), q(3, 5)
    tw, th = q(1, 3) + u, q(1, 3) + u
    tx1, ty1 = tx0 + tw, ty0 + th
    trunk = _rd(tx0, ty0, tx1, ty1)
    out = [trunk]
    nb = rng.choice([0, 1, 1, 2, 2, 3, 3, 4])
    bad = rng.randrange(nb) if (kind == "near" and nb) else -1
    deltas = [eps / 2, eps, 2 * eps, u, 3 * u]
    for b in range(nb):
        side = rng.choice(SIDES)
        horizontal = side in "NS"
        span = tw if horizontal else th
        lo = tx0 if horizontal else ty0
        blen = max(u, min(span, rng.choice([span, span, q(u, span), q(u, span)])))   # along the side
        off = rng.choice([0.0, span - blen, q(0, span - blen)])                      # flush with a corner or inside
        depth = q(u, 2.0) + u
        a0 = lo + off
        a1 = a0 + blen
        shift = 0.0
        if b == bad:
            pert = rng.choice(["gap", "overlap", "overhang-lo", "overhang-hi", "wide", "corner"])
            d = rng.choice(deltas)
            if pert == "gap":
                shift = d
            elif pert == "overlap":
                shift = -d
            elif pert == "overhang-lo":
                a0, a1 = a0 - off - d, a1 - off - d
            elif pert == "overhang-hi":
                a0, a1 = lo + span - blen + d, lo + span + d
            elif pert == "wide":
                a0, a1 = lo - d, lo + span + d
            else:
                a0, a1 = lo + span, lo + span + blen
        if side == "N":
            r = _rd(a0, ty1 + shift, a1, ty1 + shift + depth)
        elif side == "S":
            r = _rd(a0, ty0 - shift - depth, a1, ty0 - shift)
        elif side == "E":
            r = _rd(tx1 + shift, a0, tx1 + shift + depth, a1)
        else:
            r = _rd(tx0 - shift - depth, a0, tx0 - shift, a1)
        out.append(r)
    if kind == "dup" and out:
        out.append(dict(rng.choice(out)))
    if kind == "twotrunks":
        # a second rectangle that can serve as trunk as well: same extent along the common side
        depth = q(u, 3.0) + u
        out = [trunk, _rd(tx0, ty1, tx1, ty1 + depth)] if rng.random() < 0.5 else [trunk, _rd(tx1, ty0, tx1 + depth, ty1)]
        if rng.random() < 0.4:
            out.append(_rd(tx0, ty0 - 1.0, tx0 + u, ty0))  # a branch that fits only the first
    if kind == "twotrunks" and rng.random() < 0.5:
        # twins: two rectangles of the same size side by side (equal areas: the `break` of the candidate loop decides)
        out = [trunk, _rd(tx1, ty0, tx1 + tw, ty1)] if rng.random() < 0.5 else [trunk, _rd(tx0, ty1, tx1, ty1 + th)]
        kind = "twins"
    if kind == "chain":
        out = [trunk, _rd(tx0, ty1, tx1, ty1 + 1.0), _rd(tx0, ty1 + 1.0, tx1, ty1 + 2.0)]
    if kind == "stog" and len(out) > 1 and rng.random() < 0.25:     # by destruction: drop / move one
        k = rng.randrange(len(out))
        if rng.random() < 0.5:
            out.pop(k)
        else:
            out[k] = dict(out[k], cx=out[k]["cx"] + rng.choice([-u, u, 2 * u]))
        kind = "destroyed"
    return out, kind


def orders(rng, rects, max_full: int):
    n = len(rects)
    if n <= max_full:
        seen = set()
        for p in itertools.permutations(range(n)):
            key = tuple(tuple(sorted(rects[i].items())) for i in p)
            if key in seen:
                continue
            seen.add(key)
            yield [rects[i] for i in p]
    else:
        for _ in range(6):
            p = list(range(n))
            rng.shuffle(p)
            yield [rects[i] for i in p]


def findloc_cases(ctx: Ctx, reqs, todo) -> None:
    """`find_location` alone: trunk vs a rectangle sliding around it at ε-resolution (Q stream)."""
    rng = ctx.rng
    for _ in range(_n(ctx, 5000, 100000)):
        eps = rng.choice([0.125, 0.03125, 0.25])
        epsA = rng.choice([0.0, 0.015625, 0.25, 1.0])
        g = eps / 2
        t = _rd(2.0, 2.0, 2.0 + rng.randint(2, 4), 2.0 + rng.randint(2, 4))
        w, h = rng.choice([0.5, 1.0, 2.0, t["w"], t["w"] + g, 3 * eps, 2 * eps]), rng.choice([0.5, 1.0, 2.0, t["h"], 3 * eps, 2 * eps])
        tb = [float(v) for v in bb(t)]
        side = rng.choice(SIDES + ("?",))
        along = lambda lo, hi, ln: rng.choice([lo - ln, lo, lo, hi - ln, hi - ln, hi, lo + (hi - lo - ln) / 2, lo + rng.randint(-2, 6) * 0.5])
        if side == "N":
            ax, ay = along(tb[0], tb[2], w), tb[3]
        elif side == "S":
            ax, ay = along(tb[0], tb[2], w), tb[1] - h
        elif side == "E":
            ax, ay = tb[2], along(tb[1], tb[3], h)
        elif side == "W":
            ax, ay = tb[0] - w, along(tb[1], tb[3], h)
        else:
            ax, ay = 2.0 + rng.randint(-4, 8) * 0.5, 2.0 + rng.randint(-4, 8) * 0.5
        x0 = ax + rng.choice([0, 0, 0, -3, -2, -1, 1, 2, 3]) * g
        y0 = ay + rng.choice([0, 0, 0, -3, -2, -1, 1, 2, 3]) * g
        r = _rd(x0, y0, x0 + w, y0 + h)
        inp = {"mode": "Q", "route": "findloc", "eps": eps, "epsA": epsA, "rects": [t, r], "kind": "slide"}
        Rectangle.set_epsilon(eps, epsA)
        try:
            got = LOC[_mk(t).find_location(_mk(r)).name]
        except Exception as ex:
            ctx.spec_fail("operation-raised", inp, {"raised": type(ex).__name__, "where": "find_location"}, 2)
            continue
        finally:
            Rectangle.undefine_epsilon()
        boxes = [bb(t), bb(r)]
        if well_formed(boxes, Fraction(eps)):
            exp = spec_location(boxes[0], boxes[1], Fraction(eps), Fraction(epsA), Margin(), Margin())
            if (exp or "X") != got:
                ctx.spec_fail("findLocation_iff", inp, {"impl": got, "spec": exp}, 2)
        reqs.append(f"Q findloc {sc(eps, 'Q')} {sc(epsA, 'Q')} {rect_in(_mk(t), 'Q')} {rect_in(_mk(r), 'Q')}")
        todo.append((inp, got, False))
        ctx.case("Q", ("findloc", eps, epsA, tuple(boxes[0]), tuple(boxes[1])), True)
        ctx.count("findloc:" + got)


def _n(ctx: Ctx, quick: int, thorough: int) -> int:
    """case count; the ×20 extended-search multiplier is capped at ×5 (the base counts already fill the budget)."""
    base = quick if ctx.tier == "quick" else thorough
    return min(ctx.n(quick, thorough), 5 * base)


def run(ctx: Ctx) -> None:
    ctx.rule = ("lists built by construction (trunk + 0..4 branches on random sides, flush with corners or inside the extent), "
                "near misses (one branch with a gap / overlap / overhang / too wide / diagonal at distances ε/2, ε, 2ε, …), "
                "destruction (a branch dropped or moved), repeated rectangles, two possible trunks, chains and random lattice lists; "
                "every distinct permutation for length ≤ 4 (≤ 5 thorough), 6 random orders beyond; ε, εA dyadic on the Q stream, "
                "Netlist's own ε on part of the F stream; routes: create_stog, Module.create_stog, Netlist load; plus find_location "
                "alone on a rectangle sliding around a trunk in ε/2 steps.  Non-trivial = at least two rectangles")
    ctx.assumptions.append("the rectangle list contains pairwise distinct objects (no aliasing)")
    rng = ctx.rng
    reqs, todo = [], []
    seeds = getattr(ctx, "seed_inputs", None) or []
    for inp in seeds[:50]:
        if inp.get("route") in ("func", "module", "netlist"):
            one_list(ctx, inp["mode"], inp["route"], inp["eps"], inp["epsA"], inp["rects"], reqs, todo, "seed")
    max_full = 4 if ctx.tier == "quick" else 5
    for i in range(_n(ctx, 2200, 14000)):
        mode = "Q" if i % 3 != 2 else "F"
        if mode == "Q":
            eps = rng.choice([0.125, 0.125, 0.03125, 0.0009765625])
            epsA = rng.choice([0.0, 0.015625, 0.015625, 0.25])
        else:
            eps = rng.choice([1e-9, 1e-12, 0.05])
            epsA = rng.choice([1e-6, 1e-6, 0.01, 0.0])
        rects, kind = gen_list(rng, mode, eps)
        ctx.count("kind:" + kind)
        for order in orders(rng, rects, max_full):
            route = rng.choice(["func", "func", "module", "netlist"])
            if route == "netlist" and (len(order) == 0 or any(d["cx"] < 0 or d["cy"] < 0 for d in order)):
                route = "func"
            e, ea = eps, epsA
            if route == "netlist" and mode == "F" and rng.random() < 0.5:
                e = ea = None           # let Netlist define the tolerances
            lst = [dict(d) for d in order]
            if route != "netlist" and rng.random() < 0.3:
                for d in lst:
                    d["loc"] = rng.choice("TNSEWX")
            one_list(ctx, mode, route, e, ea, lst, reqs, todo, kind)
    one_list(ctx, "Q", "func", 0.125, 0.25, [], reqs, todo, "empty")
    findloc_cases(ctx, reqs, todo)
    replies = ctx.model(reqs)
    if replies is None:
        ctx.notes.append("model driver unavailable: correspondence not run")
        return
    compare(ctx, todo, replies)
    compare_modstog(ctx)


def compare(ctx: Ctx, todo, replies) -> None:
    for (inp, impl, tie), model in zip(todo, replies):
        if impl == model:
            continue
        if inp["mode"] == "F" and tie:
            continue
        ctx.disagree("findloc" if inp["route"] == "findloc" else "stog", inp, impl, model, size=len(inp["rects"]))


def replay(ctx: Ctx, body: dict) -> None:
    inp = body["input"]
    reqs, todo = [], []
    if inp["route"] == "findloc":
        t, r = inp["rects"]
        Rectangle.set_epsilon(inp["eps"], inp["epsA"])
        try:
            got = LOC[_mk(t).find_location(_mk(r)).name]
        finally:
            Rectangle.undefine_epsilon()
        boxes = [bb(t), bb(r)]
        if well_formed(boxes, Fraction(inp["eps"])):
            exp = spec_location(boxes[0], boxes[1], Fraction(inp["eps"]), Fraction(inp["epsA"]), Margin(), Margin())
            if (exp or "X") != got:
                ctx.spec_fail("findLocation_iff", inp, {"impl": got, "spec": exp}, 2)
        reqs.append(f"Q findloc {sc(inp['eps'], 'Q')} {sc(inp['epsA'], 'Q')} {rect_in(_mk(t), 'Q')} {rect_in(_mk(r), 'Q')}")
        todo.append((inp, got, False))
    else:
        one_list(ctx, inp["mode"], inp["route"], inp["eps"], inp["epsA"], inp["rects"], reqs, todo, inp.get("kind", ""))
    replies = ctx.model(reqs)
    if replies:
        compare(ctx, todo, replies)
    compare_modstog(ctx)

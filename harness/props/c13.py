"""C13 — Force-directed relocation: fixed modules stay, centres stay in the die.

Anchors: tools/force/fruchterman_reingold.py (fruchterman_reingold_layout, total_intersection_area,
force_algorithm), HyperEdge.wire_length / Netlist.wire_length.

Correspondence (implementation vs the Lean model FV/Model/Force.lean run at Float with libm sqrt/pow):
  * `layout`  — fruchterman_reingold_layout at arbitrary states, max_iter = 1 (single step) and 2..5 (short
                runs), every centre compared to 1e-9*size;
  * `wl`, `tia`, `cost` — wire length, total disc overlap, cost at arbitrary states;
  * `force`   — force_algorithm on short runs: selected kappa and returned centres;
  * `argmin`  — the first-strict-minimum choice on the cost table recomputed from the implementation;
  * `clamp`   — exact (Q) and float clamp on scalar triples;
  * `visualize` — fruchterman_reingold_layout / force_algorithm with `visualize` set (centres written back before the loop and
                after every iteration, then plotted; the plot re-assigns the centre of modules with rectangles): every frame
                and the result vs the model (`layoutvis` / `forcevis`), result bit-identical to the plain run, with the real
                get_floorplan_plot on part of the cases and a recording stand-in on the others;
  * `tia`     — total_intersection_area at arbitrary states (missing centres, coincident / tangent discs) vs the model, whose
                disc-overlap function is the C17 model itself (composition of the two models).
Spec on the implementation's own output (long runs, no model involved): every centre finite and inside the
die, fixed modules not moved (<= 4 ulp of max(|c|, size/2): `c - s + s`), nothing but centres changed,
determinism (two runs bit-identical), and for force_algorithm: returned layout = layout(kappa*) where kappa*
is the first strict minimum of the recomputed costs.
"""
from __future__ import annotations

import math
from copy import deepcopy
from fractions import Fraction

from vcheck import Ctx, f2hex, hex2f, q2s
from frame.geometry.geometry import Point, Rectangle
from frame.netlist.netlist import Netlist
from frame.die.die import Die
from tools.force import fruchterman_reingold as FR

LEVEL = "proof (exact arithmetic; floats by search: partial)"
DRIVERS = ["drv_place"]
TRUSTED = [
    "Lean 4.33 kernel; Mathlib lemmas; axioms ⊆ {propext, Classical.choice, Quot.sound}",
    "hand-written model FV/Model/Force.lean — fidelity to tools/force/fruchterman_reingold.py and HyperEdge.wire_length "
    "checked by this correspondence run (single step at arbitrary states, short runs, cost, argmin), not proved",
    "theorems are over exact ordered fields with sqrt / ** / the disc-overlap function as uninterpreted parameters; "
    "IEEE rounding, finiteness and the <= 1 ulp drift of c - s + s are searched (long runs), never proved",
    "circle_circle_intersection_area is an opaque parameter of the theorems (C17 owns it; composed with the real lens area in "
    "C17.total_intersection_nonneg / total_intersection_twice_pairs); the driver instantiates it with the C17 model FV/Model/Disc.lean; "
    "copy.deepcopy is assumed faithful (checked: two runs bit-identical)",
    "get_floorplan_plot (tools/draw) is a parameter `plot` of the visualising model: assumed to change nothing but module centres "
    "(it re-assigns the centre of modules with rectangles); runs with the real plot are checked through the clauses only",
    "harness (Python) and compiled Lean driver: parsing, canonicalisation, comparison",
]

KAPPAS = [i / 10 for i in range(4, 16)]


# ------------------------------------------------------------------ building instances
def build(inp: dict):
    """netlist + die from the JSON description; centres then overridden by inp['centers'] (arbitrary state)."""
    Rectangle.undefine_epsilon()
    lines = []
    for m in inp["mods"]:
        k = m["kind"]
        if k == "soft":
            c = "" if m.get("center") is None else f", center: [{m['center'][0]!r}, {m['center'][1]!r}]"
            lines.append(f"  {m['name']}: {{area: {m['area']!r}{c}}}")
        elif k in ("fixed", "hard"):
            lines.append(f"  {m['name']}: {{{k}: true, rectangles: {[[float(v) for v in r] for r in m['rects']]!r}}}")
        elif k == "terminal":
            lines.append(f"  {m['name']}: {{terminal: true, center: [{m['center'][0]!r}, {m['center'][1]!r}]}}")
        elif k == "fterminal":
            lines.append(f"  {m['name']}: {{terminal: true, fixed: true, center: [{m['center'][0]!r}, {m['center'][1]!r}]}}")
        else:
            raise ValueError(k)
    nets = ", ".join("[" + ", ".join(str(x) if isinstance(x, str) else repr(float(x)) for x in e) + "]" for e in inp["nets"])
    text = "Modules: {\n" + ",\n".join(lines) + "\n}\n" + (f"Nets: [{nets}]\n" if inp["nets"] else "")
    nl = Netlist(text)
    die = Die(f"{inp['W']!r}x{inp['H']!r}", nl)
    for m, c in zip(nl.modules, inp.get("centers") or []):
        if c == "keep":
            continue
        m.center = None if c is None else Point(float(c[0]), float(c[1]))
    apply_history(inp, nl)
    return die


def apply_history(inp: dict, nl) -> None:
    """object histories that leave a centre Point shared by reference (all through the public API):
       squares  — the die is built first, default squares are created afterwards (Module.create_square hands the
                  module's centre Point to its rectangle);
       pin      — a soft module's initial centre is the very Point object of a fixed module / terminal;
       shared   — two movable modules were given the same Point object (coincident centres)."""
    h = inp.get("history", "yaml")
    mods = nl.modules
    if h == "squares":
        if all(m.center is not None and m.area() > 0 for m in mods):
            nl.create_squares()
        else:
            for m in mods:
                if m.num_rectangles == 0 and m.center is not None and m.area() > 0:
                    m.create_square()
    elif h in ("pin", "shared"):
        want_fixed = h == "pin"
        src = [m for m in mods if m.center is not None and m.is_fixed == want_fixed]
        dst = [m for m in mods if not m.is_hard]
        k = inp.get("history_pick", 0)
        if src and dst:
            a, b = src[k % len(src)], dst[(k // 7) % len(dst)]
            if a is not b:
                b.center = a.center


def gen_instance(rng, big: bool = False) -> dict:
    W = rng.choice([4.0, 6.0, 8.0, 10.0, 12.0, 16.0, 20.0])
    H = rng.choice([4.0, 6.0, 8.0, 10.0, 12.0, 16.0, 20.0])
    if rng.random() < 0.25:  # non-integer sizes (no fixed rectangles then: die self-check has no tolerance, C01)
        W, H = round(rng.uniform(3, 25), rng.choice([1, 2, 6])), round(rng.uniform(3, 25), rng.choice([1, 2, 6]))
    integral = W == int(W) and H == int(H)
    n = rng.randint(1, 12 if big else 8)
    mods, blocks = [], set()
    for i in range(n):
        r = rng.random()
        if r < 0.5 or (not integral and r < 0.7):
            mods.append({"name": f"M{i}", "kind": "soft", "area": round(rng.uniform(0.2, max(0.3, W * H / n)), rng.choice([0, 2, 9])) or 1.0,
                         "center": [rng.uniform(0, W), rng.uniform(0, H)]})
        elif r < 0.7:
            bi, bj = rng.randrange(int(W) // 2), rng.randrange(int(H) // 2)
            if (bi, bj) in blocks:
                mods.append({"name": f"M{i}", "kind": "soft", "area": 1.5, "center": [rng.uniform(0, W), rng.uniform(0, H)]})
                continue
            blocks.add((bi, bj))
            w, h = rng.choice([1.0, 2.0, 0.5]), rng.choice([1.0, 2.0, 0.5])
            rects = [[2 * bi + w / 2, 2 * bj + h / 2, w, h]]
            if w == 2.0 and h <= 1.0 and rng.random() < 0.5:  # an L/T shaped fixed module
                rects.append([2 * bi + 0.5, 2 * bj + h + 0.5, 1.0, 1.0])
            mods.append({"name": f"F{i}", "kind": "fixed", "rects": rects})
        elif r < 0.85:
            on_border = rng.random() < 0.7
            x, y = rng.uniform(0, W), rng.uniform(0, H)
            if on_border:
                side = rng.randrange(4)
                x, y = [(0.0, y), (W, y), (x, 0.0), (x, H)][side]
            mods.append({"name": f"T{i}", "kind": rng.choice(["terminal", "terminal", "fterminal"]), "center": [x, y]})
        else:
            x, y = rng.uniform(1, W - 1), rng.uniform(1, H - 2)
            rects = [[x, y, 2.0, 2.0]]
            if rng.random() < 0.5:
                rects.append([x, y + 1.5, 1.0, 1.0])
            mods.append({"name": f"H{i}", "kind": "hard", "rects": rects})
    names = [m["name"] for m in mods]
    nets = []
    if n >= 2:
        for _ in range(rng.randint(0, 2 * n)):
            k = rng.choice([2, 2, 2, 3, 4, min(n, 6)])
            pins = rng.sample(names, min(k, n))
            if len(pins) < 2:
                continue
            if rng.random() < 0.5:
                nets.append(pins)  # default weight 1
            else:
                nets.append(pins + [rng.choice([0.5, 1.0, 2.0, 3.0, round(rng.uniform(0.01, 20), 3)])])
    # arbitrary state: override centres
    centers = []
    for i, m in enumerate(mods):
        r = rng.random()
        ro = rng.random()
        if ro < (0.05 if m["kind"] in ("fixed", "fterminal") else 0.14):
            # OUTSIDE the die (also negative coordinates): a movable module must be clamped back by the first iteration;
            # a fixed one (and anything with max_iter = 0) is left where it is
            ox = rng.choice([-rng.uniform(0.01, W), W + rng.uniform(0.01, W), -1.0, W + 3.0, rng.uniform(0, W)])
            oy = rng.choice([-rng.uniform(0.01, H), H + rng.uniform(0.01, H), -0.5, H + 1.5, rng.uniform(0, H)])
            if 0 <= ox <= W and 0 <= oy <= H:
                ox = W + 1.0
            centers.append([ox, oy])
        elif m["kind"] in ("fixed", "fterminal") and r < 0.8:
            centers.append("keep")
        elif r < 0.45:
            centers.append("keep")
        elif r < 0.6:
            centers.append([rng.uniform(0, W), rng.uniform(0, H)])
        elif r < 0.68:  # on the border / corner
            centers.append([rng.choice([0.0, W, rng.uniform(0, W)]), rng.choice([0.0, H])])
        elif r < 0.72:  # exactly on the threshold of the wall repulsion (10% of the size from a side)
            centers.append([rng.choice([W / 2 - (W / 2 - W / 10), W / 2 + (W / 2 - W / 10), rng.uniform(0, W)]),
                            rng.choice([H / 2 - (H / 2 - H / 10), H / 2 + (H / 2 - H / 10), rng.uniform(0, H)])])
        elif r < 0.86 and i > 0:  # coincident / nearly coincident with an earlier module
            j = rng.randrange(i)
            c = centers[j] if isinstance(centers[j], list) else None
            if c is None:
                centers.append("keep")
            else:
                d = rng.choice([0.0, 0.0, 1e-12, 1e-7, 1e-3])
                centers.append([c[0] + d, c[1]])
        elif r < 0.9 and m["kind"] == "soft":
            centers.append(None)  # a module without centre: Point()
        else:
            centers.append([rng.uniform(0, W), rng.uniform(0, H)])
    r = rng.random()
    history = "yaml" if r < 0.55 else ("squares" if r < 0.8 else ("pin" if r < 0.92 else "shared"))
    return {"W": W, "H": H, "mods": mods, "nets": nets, "centers": centers, "history": history,
            "history_pick": rng.randrange(1000)}


# ------------------------------------------------------------------ wire format
def inst_line(die) -> str:
    nl = die.netlist
    idx = {m.name: i for i, m in enumerate(nl.modules)}
    t = [f2hex(die.width), f2hex(die.height), str(nl.num_modules)]
    for m in nl.modules:
        c = m.center
        t += ["1" if c is not None else "0", f2hex(c.x if c is not None else 0.0), f2hex(c.y if c is not None else 0.0),
              f2hex(m.area()), "1" if m.is_fixed else "0"]
    t.append(str(len(nl.edges)))
    for e in nl.edges:
        t.append(str(len(e.modules)))
        t += [str(idx[b.name]) for b in e.modules]
        t.append(f2hex(e.weight))
    return " ".join(t)


def centres(die) -> list:
    return [None if m.center is None else (m.center.x, m.center.y) for m in die.netlist.modules]


def parse_centres(s: str) -> list:
    t = s.split()
    out = []
    for i in range(0, len(t), 2):
        out.append(None if t[i] == "N" else (hex2f(t[i]), hex2f(t[i + 1])))
    return out


def close(a, b, tol) -> bool:
    if a is None or b is None:
        return a is b
    return all((x == y) or (math.isfinite(x) and math.isfinite(y) and abs(x - y) <= tol) for x, y in zip(a, b))


def snapshot(die):
    nl = die.netlist
    mods = [(m.name, sorted(m.area_regions.items()), m.area(), m.is_fixed, m.is_hard, m.is_terminal, m.flip,
             None if m.aspect_ratio is None else (m.aspect_ratio.min_wh, m.aspect_ratio.max_wh),
             [(r.center.x, r.center.y, r.shape.w, r.shape.h, r.region, r.fixed, r.hard, str(r.location)) for r in m.rectangles])
            for m in nl.modules]
    nets = [([b.name for b in e.modules], e.weight) for e in nl.edges]
    # NB: `nl.rectangles` is deliberately not read: it may rebuild the list and re-assign centres (new Point objects)
    return (die.width, die.height, mods, nets, sum(len(m.rectangles) for m in nl.modules))


def ulps(a: float, b: float, scale: float) -> float:
    u = math.ulp(max(abs(a), abs(b), scale))
    return abs(a - b) / u


# ------------------------------------------------------------------ one case
def pre_read(die, inp: dict) -> None:
    """what a caller may have looked at on the very object before relocating it: public READ-ONLY properties (a report of
    the wire length, sizes, areas).  None of them may influence a later run."""
    if not inp.get("pre_reads"):
        return
    nl = die.netlist
    for what in inp["pre_reads"]:
        try:
            if what == "wire_length":
                _ = nl.wire_length
            elif what == "edges":
                _ = [e.wire_length for e in nl.edges]
            elif what == "counts":
                _ = (nl.num_modules, nl.num_edges)   # not num_rectangles: Netlist.rectangles rebuilds its list and re-assigns centres
            elif what == "areas":
                _ = [m.area() for m in nl.modules]
            elif what == "die":
                _ = (die.width, die.height, die.bounding_box.shape.w)
            elif what == "tia":
                _ = FR.total_intersection_area(die)
        except Exception:  # a missing centre makes wire_length / tia assert: that is not what is under test here
            pass


def exact_wire_length(die) -> float | None:
    """Netlist.wire_length from the CURRENT centres (star model of HyperEdge.wire_length), independently."""
    tot = []
    for e in die.netlist.edges:
        cs = [m.center for m in e.modules]
        if any(c is None for c in cs):
            return None
        ix, iy = math.fsum(c.x for c in cs) / len(cs), math.fsum(c.y for c in cs) / len(cs)
        tot.append(math.fsum(math.hypot(ix - c.x, iy - c.y) for c in cs) * e.weight)
    return math.fsum(tot)


def py_cost(d):
    return FR.total_intersection_area(d) + d.netlist.wire_length / 2


def check_layout_corr(ctx: Ctx, inp: dict) -> None:
    """single step / short run correspondence + wl / tia at the resulting state."""
    try:
        die = build(inp)
    except Exception as ex:  # Netlist / Die construction is not C13's code: counted, not judged
        ctx.count("build-rejected:" + type(ex).__name__)
        return
    kappa, iters = inp["kappa"], inp["iters"]
    size = max(die.width, die.height)
    line0 = inst_line(die)
    has_all = all(m.center is not None for m in die.netlist.modules)
    snap0, cen0 = snapshot(die), centres(die)
    try:
        d2, _ = FR.fruchterman_reingold_layout(deepcopy(die), kappa, max_iter=iters)
    except Exception as ex:  # the layout has no failing path for kappa > 0
        if kappa > 0:
            ctx.spec_fail("operation-raised", inp, {"op": "fruchterman_reingold_layout", "exception": type(ex).__name__, "msg": str(ex)[:100]},
                          size=len(inp["mods"]))
            return
        # kappa = 0 is outside the property (k = 0 divides by zero): the model must raise the same exception class
        rep = ctx.model([f"F layout {f2hex(kappa)} {iters} {line0}"])
        ctx.case("layout-kappa0", (kappa, iters, line0), True)
        ctx.count("kappa0-raised-" + type(ex).__name__)
        if rep is not None and rep[0] != "err:" + type(ex).__name__:
            ctx.disagree("layout-kappa0", inp, "err:" + type(ex).__name__, rep[0][:200], size=len(inp["mods"]))
        return
    got = centres(d2)
    if snapshot(die) != snap0 or centres(die) != cen0:
        ctx.spec_fail("layout:copy-isolated", inp, {"what": "running on a deepcopy changed the original die"}, size=len(inp["mods"]))
    spec_on_output(ctx, inp, snap0, cen0, d2, d2, "layout")
    reqs = [f"F layout {f2hex(kappa)} {iters} {line0}", f"F wl {inst_line(d2)}"]
    tia_ok = True
    try:
        impl_wl = d2.netlist.wire_length
        wl0 = die.netlist.wire_length if has_all else None
        try:
            impl_tia = FR.total_intersection_area(d2)
            reqs.append(f"F tia {inst_line(d2)}")
        except ValueError:  # acos domain error near tangency: C17's matter
            tia_ok = False
            ctx.count("tia-ValueError(C17)")
    except Exception as ex:
        ctx.spec_fail("operation-raised", inp, {"op": "wire_length/total_intersection_area", "exception": type(ex).__name__,
                                                "msg": str(ex)[:100]}, size=len(inp["mods"]))
        return
    if has_all:
        reqs.append(f"F wl {line0}")
    out = ctx.model(reqs)
    nontriv = iters >= 1 and any(not m.is_fixed for m in die.netlist.modules)
    ctx.case("layout", (inp["W"], inp["H"], kappa, iters, line0), nontriv,
             sample={"n": len(inp["mods"]), "iters": iters, "kappa": kappa})
    if out is None:
        return
    if out[0].startswith("err"):
        ctx.disagree("layout", inp, "returned", out[0], size=len(inp["mods"]))
        return
    mod = parse_centres(out[0])
    tol = 1e-9 * size
    if len(mod) != len(got) or not all(close(a, b, tol) for a, b in zip(got, mod)):
        ctx.disagree("layout", inp, [list(c) if c else None for c in got], [list(c) if c else None for c in mod], size=len(inp["mods"]) * 10 + iters)
    elif any(a != b for a, b in zip(got, mod)):
        ctx.drift += 1
    # wire length / overlap at the final state
    def cmp_scalar(op, impl, reply):
        if reply.startswith("err"):
            ctx.disagree(op, inp, impl, reply, size=len(inp["mods"]))
            return
        v = hex2f(reply)
        if not (v == impl or abs(v - impl) <= 1e-9 * max(1.0, abs(impl))):
            ctx.disagree(op, inp, impl, v, size=len(inp["mods"]))
        elif v != impl:
            ctx.drift += 1
    cmp_scalar("wl", float(impl_wl), out[1])
    k = 2
    if tia_ok:
        cmp_scalar("tia", float(impl_tia), out[k])
        k += 1
    if has_all:
        cmp_scalar("wl0", float(wl0), out[k])


def spec_on_output(ctx: Ctx, inp: dict, before, before_c, die, out_die, what: str) -> bool:
    """the property's clauses on what the implementation returned."""
    ok = True
    n = len(inp["mods"])
    W, H = die.width, die.height
    if out_die is not die:
        ctx.spec_fail(f"{what}:returns-same-die", inp, {}, size=n)
        ok = False
    try:
        wl_now, wl_ref = float(out_die.netlist.wire_length), exact_wire_length(out_die)
        if wl_ref is not None and abs(wl_now - wl_ref) > 1e-9 * max(1.0, abs(wl_ref)):
            ctx.spec_fail(f"{what}:wire-length-of-current-centres", inp, {"netlist.wire_length": wl_now, "from_centres": wl_ref,
                                                                          "pre_reads": inp.get("pre_reads")}, size=n)
            ok = False
    except AssertionError:
        pass
    after = snapshot(out_die)
    if after != before:
        ctx.spec_fail(f"{what}:only-centres", inp, {"before": str(before)[:300], "after": str(after)[:300]}, size=n)
        ok = False
    for m, c0 in zip(out_die.netlist.modules, before_c):
        c = m.center
        if c is None or not (isinstance(c.x, (int, float)) and isinstance(c.y, (int, float))) or \
                not (math.isfinite(c.x) and math.isfinite(c.y)):
            ctx.spec_fail(f"{what}:finite", inp, {"module": m.name, "center": str(c)}, size=n)
            ok = False
            continue
        if m.is_fixed:
            if c0 is None:
                continue
            ux, uy = ulps(c.x, c0[0], W / 2), ulps(c.y, c0[1], H / 2)
            ctx.extra["max_fixed_drift_ulp"] = max(ctx.extra.get("max_fixed_drift_ulp", 0.0), ux, uy)
            if (ux, uy) != (0.0, 0.0):
                ctx.count("fixed-centre-drifted-last-bits")
            if ux > 4 or uy > 4:
                ctx.spec_fail(f"{what}:fixed-unmoved", inp, {"module": m.name, "before": list(c0), "after": [c.x, c.y]}, size=n)
                ok = False
        else:
            tx, ty = 1e-9 * W, 1e-9 * H
            started_inside = c0 is None or (0 <= c0[0] <= W and 0 <= c0[1] <= H)
            if c0 is not None and not started_inside:
                ctx.count("movable-start-outside-die" + ("(max_iter=0: not clamped)" if inp.get("iters", 1) == 0 else ""))
            if inp.get("iters", 1) == 0 and not started_inside:
                # max_iter = 0: nothing is clamped; the centre is the input centre (c - s + s)
                if ulps(c.x, c0[0], W / 2) > 4 or ulps(c.y, c0[1], H / 2) > 4:
                    ctx.spec_fail(f"{what}:zero-iterations-unmoved", inp, {"module": m.name, "before": list(c0), "after": [c.x, c.y]}, size=n)
                    ok = False
            elif not (-tx <= c.x <= W + tx and -ty <= c.y <= H + ty):
                ctx.spec_fail(f"{what}:inside-die", inp, {"module": m.name, "center": [c.x, c.y]}, size=n)
                ok = False
    return ok


def check_long_run(ctx: Ctx, inp: dict) -> None:
    """clauses on fruchterman_reingold_layout (any kappa > 0, any iteration count): no model involved."""
    try:
        die = build(inp)
    except Exception as ex:  # Netlist / Die construction is not C13's code: counted, not judged
        ctx.count("build-rejected:" + type(ex).__name__)
        return
    n = len(inp["mods"])
    before, before_c = snapshot(die), centres(die)
    twin = deepcopy(die)
    pre_read(die, inp)
    try:
        if inp.get("verbose"):  # the progress report must not change anything
            import contextlib
            import io
            with contextlib.redirect_stdout(io.StringIO()):
                out, imgs = FR.fruchterman_reingold_layout(die, inp["kappa"], verbose=True, max_iter=inp["iters"])
        else:
            out, imgs = FR.fruchterman_reingold_layout(die, inp["kappa"], max_iter=inp["iters"])
    except Exception as ex:
        ctx.spec_fail("operation-raised", inp, {"op": "fruchterman_reingold_layout", "exception": type(ex).__name__, "msg": str(ex)[:100]}, size=n)
        return
    ctx.case("long-run", (inst_line(twin), inp["kappa"], inp["iters"]), any(not m.is_fixed for m in die.netlist.modules))
    spec_on_output(ctx, inp, before, before_c, die, out, "layout")
    try:
        out2, _ = FR.fruchterman_reingold_layout(twin, inp["kappa"], max_iter=inp["iters"])
    except Exception as ex:
        ctx.spec_fail("operation-raised", inp, {"op": "fruchterman_reingold_layout (2nd run)", "exception": type(ex).__name__}, size=n)
        return
    if centres(out2) != centres(out):
        ctx.spec_fail("layout:deterministic", inp, {"run1": str(centres(out))[:200], "run2": str(centres(out2))[:200]}, size=n)
    # fixed and terminal modules inside the die to start with stay inside: every centre inside
    for m, c0 in zip(out.netlist.modules, before_c):
        if m.is_fixed and c0 is not None and m.center is not None:
            inside0 = 0 <= c0[0] <= die.width and 0 <= c0[1] <= die.height
            t = 1e-9 * max(die.width, die.height)
            if inside0 and not (-t <= m.center.x <= die.width + t and -t <= m.center.y <= die.height + t):
                ctx.spec_fail("layout:inside-die", inp, {"module": m.name, "center": [m.center.x, m.center.y]}, size=n)


def check_force(ctx: Ctx, inp: dict, corr: bool) -> None:
    """force_algorithm: clauses + best-kappa by recomputation; correspondence with the model on short runs."""
    try:
        die = build(inp)
    except Exception as ex:  # Netlist / Die construction is not C13's code: counted, not judged
        ctx.count("build-rejected:" + type(ex).__name__)
        return
    if any(m.center is None for m in die.netlist.modules):
        ctx.count("force-skipped-missing-centre")  # total_intersection_area asserts centres: all set by the layout anyway
    n, iters = len(inp["mods"]), inp["iters"]
    before, before_c = snapshot(die), centres(die)
    line0 = inst_line(die)
    # recompute the table the algorithm goes through
    table, layouts = [], []
    try:
        for kp in KAPPAS:
            d, _ = FR.fruchterman_reingold_layout(deepcopy(die), kp, max_iter=iters)
            layouts.append(centres(d))
            table.append(py_cost(d))
    except ValueError:
        ctx.count("tia-ValueError(C17)")
        return
    except Exception as ex:
        ctx.spec_fail("operation-raised", inp, {"op": "layout/cost table", "exception": type(ex).__name__, "msg": str(ex)[:100]}, size=n)
        return
    twin = deepcopy(die)
    pre_read(die, inp)   # AFTER the twin was taken: the twin is the run without any earlier read
    try:
        if inp.get("verbose"):
            import contextlib
            import io
            with contextlib.redirect_stdout(io.StringIO()):
                out, _ = FR.force_algorithm(die, verbose=True, max_iter=iters)
        else:
            out, _ = FR.force_algorithm(die, max_iter=iters)
    except ValueError:
        ctx.count("tia-ValueError(C17)")
        return
    except Exception as ex:
        ctx.spec_fail("operation-raised", inp, {"op": "force_algorithm", "exception": type(ex).__name__, "msg": str(ex)[:100]}, size=n)
        return
    ctx.case("force", (line0, iters), any(not m.is_fixed for m in die.netlist.modules),
             sample={"n": n, "iters": iters, "costs": [round(c, 6) for c in table[:4]]})
    spec_on_output(ctx, inp, before, before_c, die, out, "force")
    if not all(math.isfinite(c) for c in table):
        ctx.spec_fail("force:cost-finite", inp, {"costs": table}, size=n)
        return
    # first strict minimum
    best = 0
    for i, c in enumerate(table):
        if c < table[best]:
            best = i
    srt = sorted(table)
    near_tie = len(srt) > 1 and (srt[1] - srt[0]) <= 1e-9 * max(1.0, abs(srt[0])) and len(set(map(str, layouts))) > 1
    got = centres(out)
    if got != layouts[best]:
        # which layout is it?
        which = [i for i, l in enumerate(layouts) if l == got]
        ctx.spec_fail("force:best-kappa", inp, {"costs": table, "expected_index": best, "returned_index": which}, size=n)
    if any(table[best] > c for c in table):
        ctx.spec_fail("force:best-kappa-minimal", inp, {"costs": table}, size=n)
    try:
        out2, _ = FR.force_algorithm(twin, max_iter=iters)
    except Exception as ex:
        ctx.spec_fail("operation-raised", inp, {"op": "force_algorithm (2nd run)", "exception": type(ex).__name__}, size=n)
        return
    if centres(out2) != got:
        ctx.spec_fail("force:deterministic" if not inp.get("pre_reads") else "force:same-as-object-never-read", inp,
                      {"pre_reads": inp.get("pre_reads"), "this_object": str(got)[:200], "fresh_object": str(centres(out2))[:200]}, size=n)
    # model side
    reqs = ["F argmin " + f2hex(math.inf) + " " + str(len(table)) + " " + " ".join(f2hex(c) for c in table)]
    if corr:
        reqs.append(f"F force {iters} {line0}")
    rep = ctx.model(reqs)
    if rep is None:
        return
    if rep[0] != str(best):
        ctx.disagree("argmin", inp, best, rep[0], size=n)
    if corr:
        if near_tie:
            ctx.ties += 1
            return
        t = rep[1].split()
        if t[0].startswith("err"):
            ctx.disagree("force", inp, "returned", rep[1], size=n)
            return
        mk, mc = hex2f(t[0]), hex2f(t[1])
        mcs = parse_centres(" ".join(t[2:]))
        tol = 1e-9 * max(die.width, die.height)
        if mk != KAPPAS[best] or abs(mc - table[best]) > 1e-9 * max(1.0, abs(table[best])) or \
                not all(close(a, b, tol) for a, b in zip(got, mcs)):
            ctx.disagree("force", inp, {"kappa": KAPPAS[best], "cost": table[best], "centres": str(got)[:300]},
                         {"kappa": mk, "cost": mc, "centres": str(mcs)[:300]}, size=n * 10 + iters)



# ------------------------------------------------------------------ the visualize branches
class FrameRecorder:
    """wraps get_floorplan_plot as seen from fruchterman_reingold.py (optional observation point): records the centres the
    plot is handed; then either draws nothing or (`passthrough`) calls the real plot — which is NOT read-only: it
    re-assigns the centre of every module with rectangles that sits on a net (calculate_center_from_rectangles)."""

    def __init__(self, passthrough: bool = False):
        self.frames = []
        self.ok = False
        self.passthrough = passthrough

    def __enter__(self):
        self.real = getattr(FR, "get_floorplan_plot", None)
        if callable(self.real):
            def rec(netlist, *a, **kw):
                self.frames.append([None if m.center is None else (m.center.x, m.center.y) for m in netlist.modules])
                if self.passthrough:
                    return self.real(netlist, *a, **kw)
                # the side effect of the real plot (tools/draw/draw.py: calculate_centers), for every iteration count: the
                # centre of every module with rectangles that sits on a net is re-assigned from its rectangles
                try:
                    for e in netlist.edges:
                        for m in e.modules:
                            if m.num_rectangles > 0:
                                m.calculate_center_from_rectangles()
                except Exception:  # the stand-in must never be the reason of a failure
                    pass
                return ("frame", len(self.frames))
            FR.get_floorplan_plot = rec
            self.ok = True
        return self

    def __exit__(self, *exc):
        if self.ok:
            FR.get_floorplan_plot = self.real
        return False


def check_visualize(ctx: Ctx, inp: dict, real_plot: bool = False) -> None:
    """fruchterman_reingold_layout / force_algorithm with visualize is not None: the centres are written back before the loop
    and after every iteration.  Same result as the plain run (bit-identical), same clauses, max_iter + 1 frames; every
    frame compared with the model (`layoutvis` / `forcevis`)."""
    try:
        die = build(inp)
        plain = build(inp)
    except Exception as ex:
        ctx.count("build-rejected:" + type(ex).__name__)
        return
    n, iters, kappa = len(inp["mods"]), inp["iters"], inp["kappa"]
    force = inp.get("vis_force", False)
    before, before_c = snapshot(die), centres(die)
    line0 = inst_line(die)
    size = max(die.width, die.height)

    def run(d, vis):
        if force:
            return FR.force_algorithm(d, visualize=vis, max_iter=iters)
        return FR.fruchterman_reingold_layout(d, kappa, visualize=vis, max_iter=iters)
    try:
        p_out, p_imgs = run(plain, None)
    except ValueError:
        ctx.count("tia-ValueError(C17)")
        return
    except Exception as ex:
        ctx.spec_fail("operation-raised", inp, {"op": "plain run", "exception": type(ex).__name__, "msg": str(ex)[:100]}, size=n)
        return
    pre_read(die, inp)
    rec = FrameRecorder(passthrough=real_plot)
    try:
        with rec:
            out, imgs = run(die, "x.gif")
    except Exception as ex:
        ctx.spec_fail("operation-raised", inp, {"op": ("force_algorithm" if force else "fruchterman_reingold_layout") + "(visualize=...)",
                                                "exception": type(ex).__name__, "msg": str(ex)[:100]}, size=n)
        return
    ctx.case("visualize", (line0, kappa, iters, force, real_plot), any(not m.is_fixed for m in die.netlist.modules),
             sample={"n": n, "iters": iters, "force": force, "real_plot": real_plot})
    ctx.count("visualize:" + ("force" if force else "layout") + (":real-plot" if real_plot else ":recorded") + (":0-iterations" if iters == 0 else ""))
    spec_on_output(ctx, inp, before, before_c, die, out, "visualize")
    if centres(out) != centres(p_out):
        ctx.spec_fail("visualize:same-result-as-plain-run", inp, {"visualize": str(centres(out))[:300], "plain": str(centres(p_out))[:300]}, size=n)
    if p_imgs:
        ctx.spec_fail("visualize:no-frames-without-visualize", inp, {"frames": len(p_imgs)}, size=n)
    try:
        nimgs = len(imgs)
    except TypeError:
        nimgs = None
    if nimgs is not None and nimgs != iters + 1:
        ctx.disagree("visualize:frame-count", inp, nimgs, iters + 1, size=n)
    if not rec.ok:
        if "observation point fruchterman_reingold.get_floorplan_plot not available" not in " ".join(ctx.notes):
            ctx.notes.append("observation point fruchterman_reingold.get_floorplan_plot not available: frames not compared")
        return
    req = (f"F forcevis {iters} 1 {line0}" if force else f"F layoutvis {f2hex(kappa)} {iters} 1 {line0}")
    rep = ctx.model([req])
    if rep is None:
        return
    if rep[0].startswith("err") or rep[0] == "bad-op":
        ctx.disagree("layoutvis", inp, "returned", rep[0], size=n)
        return
    parts = rep[0].split(" | ")
    mframes = [parse_centres(x) for x in parts[2:]]
    mfinal = parse_centres(parts[1])
    tol = 1e-9 * size * (1 if iters <= 5 else 1e3)
    same = len(mframes) == len(rec.frames) and all(
        len(a) == len(b) and all(close(x, y, tol) for x, y in zip(a, b)) for a, b in zip(rec.frames, mframes))
    if not same and not (force and iters > 3):
        k = next((i for i, (a, b) in enumerate(zip(rec.frames, mframes)) if not (len(a) == len(b) and all(close(x, y, tol) for x, y in zip(a, b)))), None)
        ctx.disagree("layoutvis", inp, {"frames": len(rec.frames), "first_differing": k, "impl": str(rec.frames[k] if k is not None and k < len(rec.frames) else None)[:300]},
                     {"frames": len(mframes), "model": str(mframes[k] if k is not None and k < len(mframes) else None)[:300]}, size=n * 10 + iters)
    elif not all(close(a, b, tol) for a, b in zip(centres(out), mfinal)) and not (force and iters > 3):
        ctx.disagree("layoutvis", inp, str(centres(out))[:300], str(mfinal)[:300], size=n * 10 + iters)
    # the frames are the states of the run: the last one is the result, the first one the input (missing centres at the die centre)
    if rec.frames:
        if rec.frames[-1] != centres(out):
            ctx.spec_fail("visualize:last-frame-is-result", inp, {"last": str(rec.frames[-1])[:200], "result": str(centres(out))[:200]}, size=n)
        for c0, f0 in zip(before_c, rec.frames[0]):
            exp = c0 if c0 is not None else (die.width / 2, die.height / 2)
            if f0 is None or ulps(f0[0], exp[0], die.width / 2) > 4 or ulps(f0[1], exp[1], die.height / 2) > 4:
                ctx.spec_fail("visualize:first-frame-is-input", inp, {"first": str(rec.frames[0])[:200], "input": str(before_c)[:200]}, size=n)
                break


# ------------------------------------------------------------------ total_intersection_area
def permuted(inp: dict, perm: list, cen: list) -> dict:
    """the same state (centres `cen` as they are in the built die) with the modules listed in another order."""
    out = dict(inp)
    out["mods"] = [inp["mods"][i] for i in perm]
    out["centers"] = [None if cen[i] is None else list(cen[i]) for i in perm]
    out["history"] = "yaml"
    return out


def check_tia(ctx: Ctx, inp: dict) -> None:
    """total_intersection_area at an arbitrary state: vs the model (composition with the C17 model: bit-equal is the rule),
    and the clauses: non-negative, every unordered pair of distinct modules once per order, symmetric in the module order."""
    try:
        die = build(inp)
    except Exception as ex:
        ctx.count("build-rejected:" + type(ex).__name__)
        return
    mods = die.netlist.modules
    n = len(mods)
    line0 = inst_line(die)
    try:
        impl = float(FR.total_intersection_area(die))
    except AssertionError:
        impl = "err:AssertionError"
    except Exception as ex:
        ctx.spec_fail("operation-raised", inp, {"op": "total_intersection_area", "exception": type(ex).__name__, "msg": str(ex)[:100]}, size=n)
        return
    rep = ctx.model([f"F tia {line0}"])
    ctx.case("tia", line0, n >= 2, sample={"n": n, "tia": impl})
    missing = any(m.center is None for m in mods)
    if isinstance(impl, str):
        ctx.count("tia-missing-centre-asserts")
        if not (missing and n >= 2):
            ctx.spec_fail("operation-raised", inp, {"op": "total_intersection_area", "exception": "AssertionError"}, size=n)
        if rep is not None and rep[0] != impl:
            ctx.disagree("tia", inp, impl, rep[0], size=n)
        return
    if rep is not None:
        if rep[0].startswith("err"):
            ctx.disagree("tia", inp, impl, rep[0], size=n)
        else:
            v = hex2f(rep[0])
            if not (v == impl or abs(v - impl) <= 1e-9 * max(1.0, abs(impl))):
                ctx.disagree("tia", inp, impl, v, size=n)
            elif v != impl:
                ctx.drift += 1
    if missing:
        return
    if not (impl >= 0 and math.isfinite(impl)):
        ctx.spec_fail("tia:non-negative", inp, {"tia": impl}, size=n)
    # every unordered pair once per order (independent summation, exact up to the rounding of the pair terms)
    terms = []
    rad = [math.sqrt(m.area() / math.pi) for m in mods]
    for i in range(n):
        for j in range(i + 1, n):
            a = FR.circle_circle_intersection_area(mods[i].center, rad[i], mods[j].center, rad[j])
            b = FR.circle_circle_intersection_area(mods[j].center, rad[j], mods[i].center, rad[i])
            terms += [Fraction(a), Fraction(b)]
    exact = float(sum(terms, Fraction(0)))
    if abs(impl - exact) > 1e-9 * max(1.0, abs(exact)):
        ctx.spec_fail("tia:each-pair-once-per-order", inp, {"tia": impl, "sum_over_pairs": exact}, size=n)
    if n >= 2:
        perm = list(range(n))
        ctx.rng.shuffle(perm)
        try:
            d2 = build(permuted(inp, perm, centres(die)))
            impl2 = float(FR.total_intersection_area(d2))
        except Exception as ex:
            ctx.count("tia-permuted-build-rejected:" + type(ex).__name__)
            return
        if abs(impl - impl2) > 1e-9 * max(1.0, abs(impl)):
            ctx.spec_fail("tia:symmetric-in-module-order", inp, {"tia": impl, "permuted": impl2, "perm": perm}, size=n)


def check_clamp(ctx: Ctx) -> None:
    rng = ctx.rng
    reqs, exp = [], []
    for _ in range(ctx.n(60, 400)):
        W = rng.choice([2, 3, 8, 10, 7])
        lo, hi = Fraction(-W, 2), Fraction(W, 2)
        x = Fraction(rng.randint(-40, 40), rng.choice([1, 2, 3, 8]))
        reqs.append(f"Q clamp {q2s(lo)} {q2s(hi)} {q2s(x)}")
        exp.append(q2s(min(hi, max(lo, x))))
    for _ in range(ctx.n(60, 400)):
        W = rng.uniform(0.5, 30)
        x = rng.choice([rng.uniform(-40, 40), W / 2, -W / 2, math.inf, -math.inf, math.nan, 0.0])
        reqs.append(f"F clamp {f2hex(-W / 2)} {f2hex(W / 2)} {f2hex(x)}")
        exp.append(f2hex(min(W / 2, max(-W / 2, x))))
    # the selection loop of force_algorithm on arbitrary cost lists, inf / NaN included (from best_cost = inf)
    for _ in range(ctx.n(60, 400)):
        cs = [rng.choice([rng.uniform(0, 50), rng.uniform(0, 50), float(rng.randint(0, 5)), math.inf, math.nan, -math.inf])
              for _ in range(rng.randint(0, 12))]
        if rng.random() < 0.5:
            cs = [c if math.isfinite(c) else float(rng.randint(0, 5)) for c in cs]
        best, best_cost = None, math.inf
        for i, c in enumerate(cs):
            if c < best_cost:
                best, best_cost = i, c
        reqs.append(f"F argmin {f2hex(math.inf)} {len(cs)} " + " ".join(f2hex(c) for c in cs))
        exp.append("none" if best is None else str(best))
    rep = ctx.model(reqs)
    if rep is None:
        return
    for r, e, q in zip(rep, exp, reqs):
        if " argmin " in q:
            ctx.case("argmin", q, True)
            if r != e:
                ctx.disagree("argmin", {"req": q}, e, r, size=1)
            continue
        ctx.case("clamp", q, True)
        if r != e:
            ctx.disagree("clamp", {"req": q}, e, r, size=1)
        elif q.startswith("F"):
            v = hex2f(r)
            lo, hi = hex2f(q.split()[2]), hex2f(q.split()[3])
            if not (lo <= v <= hi):  # NaN / inf are clamped as well
                ctx.spec_fail("clamp:in-range", {"req": q}, {"value": v}, size=1)


# ------------------------------------------------------------------ determinism across interpreter processes
def _run_pair(inp: dict) -> dict:
    """layout and force_algorithm on one instance: centres as hex strings (bit patterns), or the exception class."""
    out = {}
    for what in ("layout", "force"):
        try:
            die = build(inp)
            if what == "layout":
                d, _ = FR.fruchterman_reingold_layout(die, inp["kappa"], max_iter=inp["iters"])
            else:
                d, _ = FR.force_algorithm(die, max_iter=inp["force_iters"])
            out[what] = [None if m.center is None else [f2hex(m.center.x), f2hex(m.center.y)] for m in d.netlist.modules]
        except Exception as ex:
            out[what] = "err:" + type(ex).__name__
    return out


def gen_lone(rng) -> dict:
    """1-3 modules without any net (zero displacement for a lone module), soft or area-0 terminals, some outside the die."""
    W, H = rng.choice([4.0, 8.0, 10.0, 7.3]), rng.choice([4.0, 6.0, 12.0, 5.5])
    mods, centers = [], []
    for i in range(rng.randint(1, 3)):
        if rng.random() < 0.5:
            mods.append({"name": f"A{i}", "kind": "soft", "area": round(rng.uniform(0.5, 6), 2), "center": [W / 2, H / 2]})
        else:
            mods.append({"name": f"T{i}", "kind": "terminal", "center": [0.0, H / 2]})
        centers.append(rng.choice([[W + 3.0, H / 2], [-1.0, H + 1.5], [rng.uniform(0, W), rng.uniform(0, H)], [W / 2, -2.0],
                                   [-rng.uniform(0.1, 5), -rng.uniform(0.1, 5)], [W, H]]))
    if all(m["kind"] == "terminal" for m in mods):  # a netlist of terminals only cannot be built (no area at all)
        mods.append({"name": "B9", "kind": "soft", "area": 1.0, "center": [W / 2, H / 2]})
        centers.append("keep")
    return {"W": W, "H": H, "mods": mods, "nets": [], "centers": centers, "history": "yaml", "history_pick": 0}


def gen_symmetric(rng) -> dict:
    """nets of arity 3..6, several modules equal and coincident (a symmetric, unstable start: rounding decides)."""
    inp = gen_instance(rng, big=False)
    W, H = inp["W"], inp["H"]
    mods = [m for m in inp["mods"] if m["kind"] != "hard"][:6]
    names_used = {m["name"] for m in mods}
    extra = ["Xa", "Yb", "Pq", "Qr", "Rs", "Zt", "Ku", "Lv"]
    rng.shuffle(extra)
    c = [rng.uniform(0.2 * W, 0.8 * W), rng.uniform(0.2 * H, 0.8 * H)]
    a = round(rng.uniform(0.5, 3.0), 1)
    twins = rng.randint(2, 3)
    while len(mods) < 5 or sum(m["kind"] == "soft" for m in mods) < twins + 2:
        nm = extra.pop()
        if nm not in names_used:
            mods.append({"name": nm, "kind": "soft", "area": round(rng.uniform(0.5, 4), 1), "center": [rng.uniform(0, W), rng.uniform(0, H)]})
    soft = [m for m in mods if m["kind"] == "soft"]
    for m in soft[:twins]:  # equal, coincident modules
        m["area"], m["center"] = a, list(c)
    names = [m["name"] for m in mods]
    nets = []
    others = [n for n in names if n not in {m["name"] for m in soft[:twins]}]
    first = soft[0]["name"]
    k = min(len(others), rng.randint(2, 5))
    hub = rng.sample(others, k)
    w = rng.choice([1.0, 2.0, 0.5])
    nets.append([first] + hub + [w])  # one twin on a (k+1)-pin net ...
    for t in soft[1:twins]:
        if rng.random() < 0.5:
            nets.append([t["name"]] + hub + [w])  # ... another twin on the same pins
        else:
            nets += [[t["name"], h, w] for h in hub]  # ... or on 2-pin nets of the same weight
    for _ in range(rng.randint(1, 4)):
        nets.append(rng.sample(names, min(len(names), rng.randint(3, 6))) + [rng.choice([1.0, 1.5, 3.0])])
    return {"W": W, "H": H, "mods": mods, "nets": nets, "centers": ["keep"] * len(mods), "history": "yaml", "history_pick": 0,
            "kappa": rng.choice(KAPPAS), "iters": rng.randint(3, 25), "force_iters": rng.randint(2, 6), "stream": "hashseed"}


def check_hash_seeds(ctx: Ctx, inputs: list, seeds=(0, 1, 2, 3, 4)) -> None:
    """`It is deterministic`: the result must not depend on the interpreter's string-hash seed (set / dict order)."""
    import json
    import os
    import subprocess
    import sys
    import vcheck
    if not inputs:
        return
    here = [_run_pair(inp) for inp in inputs]
    runs = {"in-process": here}
    env = dict(os.environ)
    env["PYTHONPATH"] = os.pathsep.join([os.path.join(vcheck.VERIF, "harness"), vcheck.REPO, env.get("PYTHONPATH", "")])
    env["FRAME_REPO"] = vcheck.REPO
    for hs in seeds:
        env["PYTHONHASHSEED"] = str(hs)
        try:
            pr = subprocess.run([sys.executable, os.path.abspath(__file__), "--hash-worker"], input=json.dumps(inputs),
                                capture_output=True, text=True, timeout=1800, env=env)
            runs[f"PYTHONHASHSEED={hs}"] = json.loads(pr.stdout)
        except Exception as ex:  # infrastructure, not a verdict
            ctx.notes.append(f"hash-seed worker {hs} failed: {type(ex).__name__}")
    for i, inp in enumerate(inputs):
        ctx.case("hashseed", (i, str(inp)[:400]), True)
        ctx.count(f"hashseed-max-arity-{max(len([x for x in e if isinstance(x, str)]) for e in inp['nets'])}")
        for what in ("layout", "force"):
            vals = {k: v[i][what] for k, v in runs.items() if i < len(v)}
            ref = vals["in-process"]
            if isinstance(ref, str) and ref.startswith("err") and "C17" not in ref:
                if ref != "err:ValueError":
                    ctx.spec_fail("operation-raised", inp, {"op": what, "exception": ref}, size=len(inp["mods"]))
                continue
            diff = sorted(k for k, v in vals.items() if v != ref)
            if diff:
                def dist(a, b):
                    try:
                        return max(abs(hex2f(x[j]) - hex2f(y[j])) for x, y in zip(a, b) if x and y for j in (0, 1))
                    except Exception:
                        return None
                ctx.spec_fail("deterministic:across-hash-seeds", inp,
                              {"op": what, "differs_in": diff, "max_centre_distance": max((dist(ref, vals[k]) or 0.0) for k in diff)},
                              size=len(inp["mods"]))


# ------------------------------------------------------------------ entry points
def run(ctx: Ctx) -> None:
    rng = ctx.rng
    ctx.rule = ("instances: die 3..25 (integer and decimal sizes), 1..8 (thorough 12) modules mixing soft / fixed (rectangles) / "
                "terminal / fixed terminal / hard, 0..2n nets of arity 2..6 with default and explicit weights; the state is then "
                "overridden: random centres, centres OUTSIDE the die / with negative coordinates (14% of the movable, 5% of the fixed modules), "
                "lone and net-less modules incl. area-0 terminals (`gen_lone`), centres on the border and corners, coincident and nearly coincident (1e-12..1e-3) centres, "
                "missing centre; object history: as read from YAML / default squares created after the die (centre Point shared with the square) / "
                "a soft module seeded with the Point object of a fixed module or pin / two movable modules sharing one Point; kappa from the 0.4..1.5 table or uniform in (0.05, 3). Streams: `layout` = max_iter 1 (2/3 of cases) "
                "or 2..5 vs the Float model to 1e-9*size (+ wire length / overlap of the result); `long-run` = 6..30 (thorough 100) "
                "iterations checked through the clauses; `force` = force_algorithm with 1..12 iterations, cost table recomputed, "
                "model compared for <= 3 iterations; `clamp` = scalar clamp incl. NaN/inf; `argmin` = the selection loop on cost lists "
                "incl. inf/NaN; `layout-kappa0` = kappa = 0 (outside the property): same exception class as the model; `hashseed` = layout and force_algorithm on "
                "instances with nets of arity 3..6 and 2-3 equal coincident modules, run in-process and in 5 interpreter processes with "
                "PYTHONHASHSEED 0..4: bit-identical centres required; `visualize` = layout (3/4) / force_algorithm (1/4) with visualize set, 0..9 iterations, every frame and "
                "the result vs the model, result bit-identical to the plain run, real get_floorplan_plot on ~1/4 of the cases; half of the `force` cases and 30% of the `long-run` / `visualize` cases first READ public read-only properties on the very object (netlist.wire_length, edge wire lengths, counts, areas, die size, total_intersection_area): the result must equal the run on an object never read, the best-kappa clause is judged against a cost table computed on fresh copies, and netlist.wire_length after every run must be the wire length of the current centres; the stand-in plot re-assigns the centres of modules with rectangles exactly as the real plot does; `tia` = total_intersection_area at arbitrary states "
                "(15% with a missing centre, 30% with chains of coincident / tangent discs) vs the model, non-negative, every unordered pair once per order (exact sum of the pair terms), "
                "same total for a shuffled module order; 1/7 of the long runs and 1/6 of the force runs with verbose=True. Non-trivial = at least one movable module.")
    ctx.assumptions += [
        "kappa > 0 (kappa = 0 divides by zero) and at least one module",
        "'every centre inside the die': a MOVABLE module is inside after >= 1 iteration whatever its start (out-of-die and negative "
        "starts are generated); a FIXED module, and any module when max_iter = 0, is not clamped by the code: it is inside iff its "
        "input centre was (hypothesis hin of centres_inside_die) — checked as 'unmoved' instead",
        "circle_circle_intersection_area returns a finite float (C17); runs where it raises ValueError are counted, not judged",
        "'not moved' on the float stream = within 4 ulp of max(|c|, size/2); equality in the exact-arithmetic theorem",
    ]
    seeds = list(getattr(ctx, "seed_inputs", []) or [])
    for inp in seeds:
        replay(ctx, {"input": inp})
    check_clamp(ctx)
    for i in range(ctx.n(400, 3000)):
        inp = gen_lone(rng) if rng.random() < 0.06 else gen_instance(rng, big=ctx.tier != "quick")
        inp["kappa"] = rng.choice(KAPPAS) if rng.random() < 0.5 else round(rng.uniform(0.05, 3.0), rng.choice([1, 3, 12]))
        inp["iters"] = 1 if rng.random() < 0.66 else rng.randint(2, 5)
        if rng.random() < 0.04:
            inp["iters"] = 0
        if rng.random() < 0.05:
            inp["kappa"] = 0.0  # excluded by the property; the model must raise where Python does
        elif rng.random() < 0.03:
            inp["kappa"] = -inp["kappa"]  # a negative spring constant (attraction pushes apart): nothing raises, the clamp still holds
            ctx.count("negative-kappa")
        inp["stream"] = "layout"
        ctx.count(f"layout-iters-{min(inp['iters'], 2)}{'+' if inp['iters'] >= 2 else ''}")
        ctx.count(f"modules-{len(inp['mods'])}")
        ctx.count("history-" + inp["history"])
        check_layout_corr(ctx, inp)
    for i in range(ctx.n(80, 1000)):
        inp = gen_lone(rng) if rng.random() < 0.1 else gen_instance(rng, big=ctx.tier != "quick")
        inp["kappa"] = rng.choice(KAPPAS) if rng.random() < 0.3 else round(rng.uniform(0.05, 3.0), 3)
        inp["iters"] = rng.randint(6, 30 if ctx.tier == "quick" else 100)
        inp["stream"] = "long"
        if rng.random() < 0.3:
            inp["pre_reads"] = rng.sample(["wire_length", "edges", "counts", "areas", "die", "tia"], rng.randint(1, 3))
        inp["verbose"] = i % 7 == 2
        check_long_run(ctx, inp)
    for i in range(ctx.n(50, 300)):
        inp = gen_lone(rng) if rng.random() < 0.12 else gen_instance(rng, big=False)
        inp["centers"] = [c if c is not None else "keep" for c in inp["centers"]]
        for m in inp["mods"]:
            if m["kind"] == "soft" and m.get("center") is None:
                m["center"] = [1.0, 1.0]
        inp["iters"] = rng.choice([1, 1, 2, 3, 5, 8, 12])
        inp["stream"] = "force"
        if rng.random() < 0.5:
            inp["pre_reads"] = ["wire_length"] + rng.sample(["wire_length", "edges", "counts", "areas", "die", "tia"], rng.randint(0, 2))
            ctx.count("force-after-reading-wire_length")
        inp["verbose"] = i % 6 == 1
        check_force(ctx, inp, corr=inp["iters"] <= 3)
    for i in range(ctx.n(70, 600)):
        inp = gen_lone(rng) if rng.random() < 0.08 else gen_instance(rng, big=False)
        inp["kappa"] = rng.choice(KAPPAS) if rng.random() < 0.5 else round(rng.uniform(0.05, 3.0), 3)
        inp["iters"] = rng.choice([0, 0, 1, 1, 2, 3, 5, 9])
        inp["vis_force"] = rng.random() < 0.25
        if inp["vis_force"]:
            inp["iters"] = rng.choice([0, 1, 2, 3])
            inp["centers"] = [c if c is not None else "keep" for c in inp["centers"]]
            for m in inp["mods"]:
                if m["kind"] == "soft" and m.get("center") is None:
                    m["center"] = [1.0, 1.0]
        inp["stream"] = "visualize"
        if rng.random() < 0.3:
            inp["pre_reads"] = rng.sample(["wire_length", "edges", "counts", "areas", "die", "tia"], rng.randint(1, 2))
        # ~0.07 s per frame: the real plot on ~1/4 of the short runs and on a few long ones; the stand-in (same side effect) elsewhere
        inp["real_plot"] = ((i % 5 == 0 or i < 4) and inp["iters"] <= 3) or (i % 12 == 7)
        check_visualize(ctx, inp, real_plot=inp["real_plot"])
    for i in range(ctx.n(120, 1500)):
        inp = gen_lone(rng) if rng.random() < 0.05 else gen_instance(rng, big=ctx.tier != "quick")
        if rng.random() < 0.85:  # every module with a centre (the state after any layout)
            inp["centers"] = [c if c is not None else [rng.uniform(0, inp["W"]), rng.uniform(0, inp["H"])] for c in inp["centers"]]
            for m in inp["mods"]:
                if m["kind"] == "soft" and m.get("center") is None:
                    m["center"] = [1.0, 1.0]
        if rng.random() < 0.3:  # discs next to tangency / coincident / nested: the overlap terms themselves are the delicate part
            cs = inp["centers"]
            for k in range(1, len(cs)):
                if isinstance(cs[k], list) and isinstance(cs[k - 1], list) and rng.random() < 0.5:
                    cs[k] = [cs[k - 1][0] + rng.choice([0.0, 1e-9, 0.5, 1.0]), cs[k - 1][1]]
        inp["stream"] = "tia"
        check_tia(ctx, inp)
    check_hash_seeds(ctx, [gen_symmetric(rng) for _ in range(ctx.n(14, 80))])


def replay(ctx: Ctx, body: dict) -> None:
    inp = body["input"]
    if inp.get("stream") == "hashseed":
        check_hash_seeds(ctx, [inp], seeds=(0, 1, 2, 3, 4, 5, 6, 7))
        return
    if "req" in inp:
        rep = ctx.model([inp["req"]])
        print("clamp model reply:", rep)
        return
    s = inp.get("stream", "layout")
    if s == "visualize":
        check_visualize(ctx, inp, real_plot=inp.get("real_plot", False))
        return
    if s == "tia":
        check_tia(ctx, inp)
        return
    if s == "layout":
        check_layout_corr(ctx, inp)
        inp2 = dict(inp)
        check_long_run(ctx, inp2)
    elif s == "long":
        check_long_run(ctx, inp)
    else:
        check_force(ctx, inp, corr=inp["iters"] <= 3)


if __name__ == "__main__":
    import json as _json
    import sys as _sys
    if "--hash-worker" in _sys.argv:
        _inputs = _json.loads(_sys.stdin.read())
        print(_json.dumps([_run_pair(_i) for _i in _inputs]))

"""C16 — Pseudo-Boolean expression algebra preserves integer semantics.

Correspondence: random Python expression trees over `Literal` / `Term` / `Expr` / `Ineq` (operators `-x`, `~x`, `+x`, `*`,
`+`, `-`, the five comparisons, reflected forms, `str` / `int` / `float` operands on either side, the builtin `sum()`
starting from the int 0 or from a given start value, direct `Ineq(a, b, op)` calls with any operand kinds, `Ineq` objects
as operands of every operator, `tostr()`) are evaluated
by the real classes of `tools/rect/pseudobool.py` and by the Lean model (`FV/Model/PB.lean`, `Tree.run`); the results
(`Expr.c`, the ordered `Expr.t`, `Ineq.lhs/rhs/op`, or the exception class) are compared exactly.
Spec on implementation: under every assignment of the (≤ 6) variables of the tree the value of the object the
implementation built equals the value computed directly from the tree with Python integers; a built inequality holds
iff the direct comparison holds; every `Expr` / `Ineq.lhs` is in normal form (coefficients > 0, one term per variable).

Program stream (expression DAGs): straight-line programs `v0 = …; v1 = …` whose statements reuse earlier Python OBJECTS
as operands (also after they were operands of a comparison / `Ineq(...)` / `-` / `*`).  After every statement every
earlier object must still have exactly the contents it had when it was built (`operand_mutated`); at the END of the
program every built object is evaluated again under all assignments against the direct value of its definition, and
its final contents are compared with the (purely functional) Lean model run on the expanded tree.
"""
from __future__ import annotations

import itertools
from fractions import Fraction

from vcheck import Ctx
from tools.rect import pseudobool as pb

LEVEL = "proof"
DRIVERS = ["drv_pb"]
TRUSTED = [
    "Lean 4.33 kernel; axioms ⊆ {propext, Classical.choice, Quot.sound} (core Lean only, no Mathlib)",
    "hand-written model FV/Model/PB.lean — fidelity to tools/rect/pseudobool.py checked by this correspondence run, not proved",
    "Python operator dispatch (which __op__/__rop__ is called, what a missing overload raises) is modelled by hand in "
    "pyNeg/pyInv/pyPos/pyAdd/pySub/pyMul/pyCmp/pyIneq for every pair of operand kinds involving a class of the module; outside the "
    "model (err:Unmodelled, never generated): bool operands, str·Literal / Literal·str (int(name)), float arithmetic between numbers, "
    "Ineq == Ineq (object identity)",
    "builtin sum(items, start) is modelled as the left fold of + from start (CPython's fast paths for exact ints / floats compute the same)",
    "harness (Python) and compiled Lean driver: parsing, printing, comparison",
]

VARS = ["a", "b", "c", "d", "e", "f"]
OPS = [">=", "<=", ">", "<", "="]          # "=" stands for the Python operator `==`
OPSTR = [">=", "<=", ">", "<", "=", "=="]   # strings accepted by Ineq(lhs, rhs, op)


# ------------------------------------------------------------------ trees
def kind(t, prog=None) -> str:
    h = t[0]
    if h == "ref":
        return kind(prog[t[1]], prog)
    if h in ("S", "N", "L"):
        return h
    if h in ("neg", "pos"):
        return kind(t[1], prog)
    if h == "inv":
        return "N"
    if h in ("sum", "sumfrom"):
        if h == "sumfrom" and len(t) == 2:
            return kind(t[1], prog)       # no items: the start object itself
        return "N" if all(kind(x, prog) == "N" for x in t[1:]) else "E"
    if h == "mul":
        ka, kb = kind(t[1], prog), kind(t[2], prog)
        if "E" in (ka, kb):
            return "E"
        if ka in "LT" or kb in "LT":
            return "T"
        return "N"
    if h in ("add", "sub"):
        return "E"
    return "I"


def tokens(t, prog=None) -> str:
    h = t[0]
    if h == "ref":
        return tokens(prog[t[1]], prog)
    if h == "S":
        return f"S {t[1]}"
    if h == "N":
        if t[1] == "i":
            return f"N i {t[2]}"
        q = Fraction(t[2])
        return f"N f {q.numerator} {q.denominator}"
    if h == "L":
        return f"L {t[1]} {t[2]}"
    if h in ("neg", "inv", "pos"):
        return h + " " + tokens(t[1], prog)
    if h == "sum":
        return f"sum {len(t) - 1}" + "".join(" " + tokens(x, prog) for x in t[1:])
    if h == "sumfrom":
        return f"sumfrom {tokens(t[1], prog)} {len(t) - 2}" + "".join(" " + tokens(x, prog) for x in t[2:])
    if h in ("mul", "add", "sub"):
        return f"{h} {tokens(t[1], prog)} {tokens(t[2], prog)}"
    if h in ("cmp", "ineq"):
        return f"{h} {t[1]} {tokens(t[2], prog)} {tokens(t[3], prog)}"
    raise ValueError(h)


def size(t) -> int:
    return 1 + sum(size(x) for x in t[1:] if isinstance(x, list))


def tree_vars(t, acc=None, prog=None) -> list[str]:
    acc = [] if acc is None else acc
    if t[0] == "ref":
        return tree_vars(prog[t[1]], acc, prog)
    if t[0] in ("S", "L"):
        if t[1] not in acc:
            acc.append(t[1])
    for x in t[1:]:
        if isinstance(x, list):
            tree_vars(x, acc, prog)
    return acc


def expanded_size(t, prog) -> int:
    if t[0] == "ref":
        return expanded_size(prog[t[1]], prog)
    return 1 + sum(expanded_size(x, prog) for x in t[1:] if isinstance(x, list))


def py_eval(t, env=None):
    """run the real classes; `["ref", k]` is the OBJECT built by statement k of the program"""
    h = t[0]
    if h == "ref":
        return env[t[1]]
    if h == "S":
        return t[1]
    if h == "N":
        return int(t[2]) if t[1] == "i" else float(t[2])
    if h == "L":
        return pb.Literal(t[1], bool(t[2]))
    if h == "neg":
        return -py_eval(t[1], env)
    if h == "inv":
        return ~py_eval(t[1], env)
    if h == "pos":
        return +py_eval(t[1], env)
    if h == "sum":
        return sum([py_eval(x, env) for x in t[1:]])
    if h == "sumfrom":
        return sum([py_eval(x, env) for x in t[2:]], py_eval(t[1], env))
    if h == "mul":
        return py_eval(t[1], env) * py_eval(t[2], env)
    if h == "add":
        return py_eval(t[1], env) + py_eval(t[2], env)
    if h == "sub":
        return py_eval(t[1], env) - py_eval(t[2], env)
    if h == "cmp":
        a, b = py_eval(t[2], env), py_eval(t[3], env)
        o = t[1]
        return a >= b if o == ">=" else a <= b if o == "<=" else a > b if o == ">" else a < b if o == "<" else a == b
    if h == "ineq":
        return pb.Ineq(py_eval(t[2], env), py_eval(t[3], env), t[1])
    raise ValueError(h)


def cmp_ints(o: str, x: int, y: int) -> bool:
    return x >= y if o == ">=" else x <= y if o == "<=" else x > y if o == ">" else x < y if o == "<" else x == y


def den(t, sig, prog=None) -> int | bool:
    """the value computed directly from how the expression was built (Python integers; numbers go through int())"""
    h = t[0]
    if h == "ref":
        return den(prog[t[1]], sig, prog)
    if h == "S":
        return sig[t[1]]
    if h == "N":
        return int(t[2])
    if h == "L":
        return sig[t[1]] if t[2] else 1 - sig[t[1]]
    if h == "neg":
        x = den(t[1], sig, prog)
        return 1 - x if kind(t[1], prog) == "L" else -x
    if h == "inv":
        return -den(t[1], sig, prog) - 1
    if h == "pos":
        return den(t[1], sig, prog)
    if h in ("sum", "sumfrom"):
        return sum(den(x, sig, prog) for x in t[1:])
    if h == "mul":
        return den(t[1], sig, prog) * den(t[2], sig, prog)
    if h == "add":
        return den(t[1], sig, prog) + den(t[2], sig, prog)
    if h == "sub":
        return den(t[1], sig, prog) - den(t[2], sig, prog)
    if h in ("cmp", "ineq"):
        return cmp_ints("=" if t[1] == "==" else t[1], den(t[2], sig, prog), den(t[3], sig, prog))
    raise ValueError(h)


# ------------------------------------------------------------------ implementation objects
def lit_val(L, sig) -> int:
    return sig[L.v] if L.s else 1 - sig[L.v]


def obj_val(o, sig):
    if isinstance(o, pb.Literal):
        return lit_val(o, sig)
    if isinstance(o, pb.Term):
        return o.c * lit_val(o.L, sig)
    if isinstance(o, pb.Expr):
        return o.c + sum(o.t[k].c * lit_val(o.t[k].L, sig) for k in o.t)
    if isinstance(o, pb.Ineq):
        x = obj_val(o.lhs, sig)
        return x >= o.rhs if o.op == ">=" else x > o.rhs if o.op == ">" else x == o.rhs if o.op == "=" else None
    raise TypeError(type(o))


def terms_out(e: pb.Expr) -> str:
    return f"{len(e.t)}" + "".join(f" {e.t[k].c} {e.t[k].L.v} {int(e.t[k].L.s)}" for k in e.t)


def obj_out(o) -> str:
    if isinstance(o, pb.Literal):
        return f"L {o.v} {int(o.s)}"
    if isinstance(o, pb.Term):
        return f"T {o.c} {o.L.v} {int(o.L.s)}"
    if isinstance(o, pb.Expr):
        return f"E {o.c} {terms_out(o)}"
    if isinstance(o, pb.Ineq):
        return f"I {o.op} {o.rhs} {terms_out(o.lhs)}"
    if isinstance(o, str):
        return f"S {o}"
    if isinstance(o, bool):
        return f"B {o}"
    if isinstance(o, int):
        return f"N i {o}"
    if isinstance(o, float):
        q = Fraction(o)
        return f"N f {q.numerator} {q.denominator}"
    return f"?{type(o).__name__}"


def impl_run(t, env=None):
    """(wire string, object or None)"""
    try:
        o = py_eval(t, env)
    except TypeError:
        return "err:TypeError", None
    except Exception as e:  # the module raises bare `Exception`
        return "err:Exception" if type(e) is Exception else "err:" + type(e).__name__, None
    return obj_out(o), o


def normal_form_problem(e: pb.Expr):
    for k in e.t:
        tm = e.t[k]
        if not isinstance(tm.c, int) or isinstance(tm.c, bool) or tm.c <= 0:
            return f"coefficient {tm.c!r} of {k}"
        if tm.L.v != k:
            return f"key {k} holds a term on {tm.L.v}"
    if len(set(e.t.keys())) != len(e.t):
        return "repeated variable"
    if not isinstance(e.c, int):
        return f"constant {e.c!r}"
    return None


def spec_on_impl(ctx: Ctx, t, o, inp, prog=None, when="") -> bool:
    """False if a failure was reported"""
    vs = tree_vars(t, None, prog)
    sz = size(t) if prog is None else sum(size(x) for x in prog)
    if isinstance(o, bool):
        # the only bool the classes ever answer: `Ineq == str/number` (no `__eq__` on Ineq → identity → False)
        if o is not False:
            ctx.spec_fail("ineq_eq_is_false" + when, inp, {"built": repr(o)}, size=sz)
            return False
        return True
    if isinstance(o, pb.Expr) or isinstance(o, pb.Ineq):
        prob = normal_form_problem(o if isinstance(o, pb.Expr) else o.lhs)
        if prob:
            ctx.spec_fail("normal_form" + when, inp, {"problem": prob, "impl": obj_out(o)}, size=sz)
            return False
    if not isinstance(o, (pb.Literal, pb.Term, pb.Expr, pb.Ineq)):
        return True
    for bits in itertools.product((0, 1), repeat=len(vs)):
        sig = dict(zip(vs, bits))
        want = den(t, sig, prog)
        got = obj_val(o, sig)
        if got != want or isinstance(got, bool) != isinstance(want, bool):
            clause = "ineq_holds_iff" if isinstance(o, pb.Ineq) else "eval_tree"
            ctx.spec_fail(clause + when, inp, {"assignment": sig, "direct": want, "built": got, "impl": obj_out(o)}, size=sz)
            return False
    return True


# ------------------------------------------------------------------ generation
def gen_num(rng):
    r = rng.random()
    if r < 0.70:
        return ["N", "i", rng.choice([-3, -2, -1, 0, 1, 1, 2, 2, 3, 4, 5, 7])]
    if r < 0.80:
        return ["N", "i", rng.choice([-1000003, 99991, 2 ** 40, -(2 ** 33) + 1])]
    if r < 0.92:
        return ["N", "f", rng.choice([2.0, -1.0, 3.0, 0.0, -0.0, 1.0, -2.0])]
    return ["N", "f", rng.choice([2.5, -1.5, 0.5, -0.5, 0.999, -2.75, 1e3 + 0.25, 3.999999])]


def gen_int(rng):
    return ["N", "i", rng.choice([-3, -2, -1, 0, 0, 1, 2, 5, 2 ** 40])]


POOL = None   # during program generation: kind -> indices of earlier statements of that kind


def from_pool(rng, k, p=0.45):
    if POOL and POOL.get(k) and rng.random() < p:
        return ["ref", rng.choice(POOL[k])]
    return None


def gen_lit(rng, nv):
    r = from_pool(rng, "L")
    if r:
        return r
    t = ["L", rng.choice(VARS[:nv]), rng.choice([1, 1, 0])]
    while rng.random() < 0.2:
        t = ["neg", t]
    return t


def gen_term(rng, nv, depth):
    r = from_pool(rng, "T")
    if r:
        return r
    r = rng.random()
    if depth <= 0 or r < 0.5:
        a, n = gen_lit(rng, nv), gen_num(rng)
        return ["mul", a, n] if rng.random() < 0.6 else ["mul", n, a]
    if r < 0.8:
        a, n = gen_term(rng, nv, depth - 1), gen_num(rng)
        return ["mul", a, n] if rng.random() < 0.6 else ["mul", n, a]
    return ["neg", gen_term(rng, nv, depth - 1)]


def gen_operand(rng, nv, depth):
    r = rng.random()
    if r < 0.12:
        return ["S", rng.choice(VARS[:nv])]
    if r < 0.30:
        return gen_num(rng)
    if r < 0.50:
        return gen_lit(rng, nv)
    if r < 0.75 or depth <= 0:
        return gen_term(rng, nv, depth - 1)
    return gen_expr(rng, nv, depth - 1)


def gen_pb(rng, nv, depth):
    """a literal, term or expression"""
    r = rng.random()
    if r < 0.2:
        return gen_lit(rng, nv)
    if r < 0.45:
        return gen_term(rng, nv, depth - 1)
    return gen_expr(rng, nv, depth - 1)


def gen_expr(rng, nv, depth):
    r = from_pool(rng, "E", 0.6)
    if r:
        return r
    r = rng.random()
    if depth <= 0:
        a = gen_lit(rng, nv) if rng.random() < 0.5 else gen_term(rng, nv, 0)
        return ["add", a, gen_operand(rng, nv, 0)]
    if r < 0.30:
        return ["add", gen_pb(rng, nv, depth), gen_operand(rng, nv, depth)]
    if r < 0.35:
        return gen_sum(rng, nv, depth)
    if r < 0.45:   # reflected add
        left = gen_num(rng) if rng.random() < 0.7 else ["S", rng.choice(VARS[:nv])]
        right = gen_lit(rng, nv) if rng.random() < 0.5 else gen_term(rng, nv, depth - 1)
        return ["add", left, right]
    if r < 0.75:
        return ["sub", gen_expr(rng, nv, depth - 1), gen_operand(rng, nv, depth)]
    e, n = gen_expr(rng, nv, depth - 1), gen_num(rng)
    return ["mul", e, n] if rng.random() < 0.6 else ["mul", n, e]


def gen_sum(rng, nv, depth):
    """builtin sum(): from the int 0 (leading numbers, then a Literal / Term picks up through __radd__, then anything
    Expr.__add__ accepts) or from a start value"""
    if rng.random() < 0.7:
        items = [gen_int(rng) for _ in range(rng.choice([0, 0, 0, 1, 2]))]   # int + int only (no float arithmetic)
        items.append(gen_lit(rng, nv) if rng.random() < 0.5 else gen_term(rng, nv, depth - 1))
        items += [gen_operand(rng, nv, depth - 1) for _ in range(rng.randint(0, 4))]
        return ["sum"] + items
    start = gen_pb(rng, nv, depth - 1)
    return ["sumfrom", start] + [gen_operand(rng, nv, depth - 1) for _ in range(rng.randint(1, 4))]


def gen_ineq(rng, nv, depth):
    r = rng.random()
    if r < 0.08:   # the constructor with any AddTerm on the other side (the Expr must end up on the left of `-`)
        e, x = gen_expr(rng, nv, depth - 1), gen_operand(rng, nv, depth - 1)
        if rng.random() < 0.6:
            return ["ineq", rng.choice([">=", ">", "=", "=="]), e, x]
        return ["ineq", rng.choice(["<=", "<"]), x, e]
    if r < 0.6:
        return ["cmp", rng.choice(OPS), gen_pb(rng, nv, depth), gen_operand(rng, nv, depth)]
    if r < 0.75:
        left = gen_num(rng) if rng.random() < 0.7 else ["S", rng.choice(VARS[:nv])]
        return ["cmp", rng.choice(OPS), left, gen_pb(rng, nv, depth)]
    return ["ineq", rng.choice(OPSTR), gen_expr(rng, nv, depth - 1), gen_expr(rng, nv, depth - 1)]


def gen_bad(rng, nv, depth):
    """operand combinations the classes reject (exception class is compared)"""
    k = rng.randrange(24)
    if k >= 22:
        k = 8
    if k >= 8:
        return gen_bad2(rng, nv, depth, k)
    if k == 0:
        return ["mul", gen_lit(rng, nv), gen_lit(rng, nv)]
    if k == 1:
        return ["mul", gen_expr(rng, nv, 1), gen_lit(rng, nv)]
    if k == 2:
        return ["sub", gen_lit(rng, nv), gen_operand(rng, nv, 0)]
    if k == 3:
        return ["add", gen_num(rng), gen_expr(rng, nv, 1)]
    if k == 4:
        return ["add", gen_expr(rng, nv, 1), gen_ineq(rng, nv, 0)]
    if k == 5:
        return ["ineq", rng.choice(["!=", "=>", "ge", ""]) or "<>", gen_expr(rng, nv, 1), gen_expr(rng, nv, 1)]
    if k == 6:
        return ["neg", gen_expr(rng, nv, 1)]
    return ["cmp", rng.choice(OPS), gen_term(rng, nv, 1), gen_ineq(rng, nv, 0)]


def gen_bad2(rng, nv, depth, k):
    """operators the classes do not define, `Ineq` objects as operands, refused constructor arguments"""
    q = gen_ineq(rng, nv, 0)
    pbx = gen_pb(rng, nv, 1)
    num = gen_num(rng)
    if k == 8:      # ~x, +x
        return [rng.choice(["inv", "pos"]), rng.choice([gen_lit(rng, nv), gen_term(rng, nv, 0), pbx, q, num, gen_expr(rng, nv, 1)])]
    if k == 9:      # -Ineq, -str
        return ["neg", rng.choice([q, ["S", rng.choice(VARS[:nv])]])]
    if k == 10:     # reflected subtraction (nothing defines __rsub__), Term / Literal minus anything
        return ["sub", rng.choice([num, ["S", rng.choice(VARS[:nv])], gen_term(rng, nv, 0)]), pbx]
    if k == 11:     # Ineq on either side of + / -
        a, b = (q, rng.choice([pbx, num, q])) if rng.random() < 0.5 else (rng.choice([pbx, num]), q)
        return [rng.choice(["add", "sub"]), a, b]
    if k == 12:     # Ineq on either side of *
        a, b = (q, rng.choice([pbx, num, q, ["S", "a"]])) if rng.random() < 0.5 else (rng.choice([pbx, num, ["S", "a"]]), q)
        return ["mul", a, b]
    if k == 13:     # Ineq compared with anything (== with a str / number answers False)
        a, b = (q, rng.choice([pbx, num, ["S", "a"]])) if rng.random() < 0.5 else (rng.choice([num, ["S", "a"]]), q)
        return ["cmp", rng.choice(OPS + ["="]), a, b]
    if k == 14:     # ordering between two Ineq objects
        return ["cmp", rng.choice([">=", "<=", ">", "<"]), q, gen_ineq(rng, nv, 0)]
    if k == 15:     # Literal / Term times an expression
        return ["mul", rng.choice([gen_lit(rng, nv), gen_term(rng, nv, 0)]), gen_expr(rng, nv, 1)]
    if k == 16:     # Expr times a str, str times Expr
        e, sv = gen_expr(rng, nv, 1), ["S", rng.choice(VARS[:nv])]
        return ["mul", e, sv] if rng.random() < 0.5 else ["mul", sv, e]
    if k == 17:     # sum() whose first non-number item is an Expr / a str: `0 + Expr` has no __radd__
        return ["sum"] + [gen_int(rng) for _ in range(rng.randint(0, 2))] + \
               [rng.choice([gen_expr(rng, nv, 1), ["S", rng.choice(VARS[:nv])], q])] + [gen_operand(rng, nv, 0)]
    if k == 18:     # sum() with an Ineq among the items / as start value
        return rng.choice([["sum", gen_lit(rng, nv), q], ["sumfrom", q, gen_lit(rng, nv)], ["sumfrom", pbx, gen_lit(rng, nv), q]])
    if k == 19:     # Ineq(...) whose left side (after the swap of <= / <) is not an Expr
        e, x = gen_expr(rng, nv, 1), rng.choice([gen_lit(rng, nv), gen_term(rng, nv, 0), ["S", rng.choice(VARS[:nv])], q])
        if rng.random() < 0.5:
            return ["ineq", rng.choice(["<=", "<"]), e, x]
        return ["ineq", rng.choice([">=", ">", "=", "=="]), x, e]
    if k == 20:     # Ineq(...) with an Ineq argument / an invalid operator and bad arguments at once
        return ["ineq", rng.choice(OPSTR + ["!="]), gen_expr(rng, nv, 1), q]
    return ["ineq", rng.choice(["<=", "<", ">="]), rng.choice([num, pbx]), rng.choice([gen_lit(rng, nv), q])]


def gen_tree(rng, max_depth):
    """(tree, well-formed?) — a well-formed tree only uses operand combinations the classes support"""
    nv = rng.choice([1, 2, 2, 3, 3, 3, 4, 4, 5, 6])
    depth = rng.randint(1, max_depth)
    r = rng.random()
    if r < 0.10:
        return gen_bad(rng, nv, depth), False
    if r < 0.45:
        return gen_expr(rng, nv, depth), True
    if r < 0.55:
        return gen_term(rng, nv, depth), True
    return gen_ineq(rng, nv, depth), True


def exhaustive_trees():
    """all trees `(x ∘ y) ⋈ z` / `(x ∘ y) * n` over two variables with small operands"""
    leaves = [["L", "a", 1], ["L", "a", 0], ["L", "b", 1], ["mul", ["L", "a", 1], ["N", "i", 2]],
              ["mul", ["L", "a", 0], ["N", "i", -2]], ["mul", ["L", "b", 1], ["N", "i", -1]], ["mul", ["L", "b", 0], ["N", "i", 3]]]
    ops2 = [["N", "i", 0], ["N", "i", 1], ["N", "i", -2], ["S", "a"], ["S", "b"]] + leaves
    for x in leaves:
        for y in ops2:
            base = ["add", x, y]
            for z in ops2:
                yield ["add", base, z]
                yield ["sub", base, z]
                for o in OPS:
                    yield ["cmp", o, base, z]
                    yield ["cmp", o, ["sub", base, z], ["N", "i", 1]]
            for n in (-2, -1, 0, 1, 3):
                yield ["mul", base, ["N", "i", n]]
                yield ["mul", ["N", "i", n], ["sub", base, x]]


# ------------------------------------------------------------------ programs (expression DAGs with object reuse)
def snapshot(o):
    """exact contents of an object (what must not change when it is used as an operand)"""
    if isinstance(o, pb.Literal):
        return ("L", o.v, o.s)
    if isinstance(o, pb.Term):
        return ("T", o.c, o.L.v, o.L.s)
    if isinstance(o, pb.Expr):
        return ("E", o.c, tuple((k, o.t[k].c, o.t[k].L.v, o.t[k].L.s) for k in o.t))
    if isinstance(o, pb.Ineq):
        return ("I", o.op, o.rhs, snapshot(o.lhs))
    return ("V", repr(o))


def gen_zeroish(rng, nv):
    """operands that are worth nothing: 0, 0.0, an empty expression"""
    r = rng.random()
    if r < 0.4:
        return ["N", "i", 0]
    if r < 0.55:
        return ["N", "f", rng.choice([0.0, -0.0, 0.5])]
    if r < 0.8:
        return ["add", ["mul", ["L", rng.choice(VARS[:nv]), 1], ["N", "i", 0]], ["N", "i", 0]]   # Expr() with nothing in it
    e = from_pool(rng, "E", 1.0)
    return ["sub", e, e] if e else ["N", "i", 0]


def gen_program(rng, max_depth):
    global POOL
    nv = rng.choice([1, 2, 2, 3, 3, 4])
    prog, kinds = [], []
    POOL = {"L": [], "T": [], "E": [], "I": []}
    try:
        for _ in range(rng.randint(2, 7)):
            r = rng.random()
            d = rng.randint(0, max(1, max_depth - 2))
            if r < 0.08:
                st = gen_lit(rng, nv) if not POOL["L"] else ["neg", ["ref", rng.choice(POOL["L"])]]
                if st[0] == "ref":
                    st = ["L", rng.choice(VARS[:nv]), 1]
            elif r < 0.18:
                st = gen_term(rng, nv, 1)
                if st[0] == "ref":
                    st = ["mul", st, gen_num(rng)]
            elif r < 0.55 or not POOL["E"]:
                st = gen_expr(rng, nv, d)
                if st[0] == "ref":
                    st = ["add", st, gen_operand(rng, nv, 0)]
            elif r < 0.70:   # an earlier expression compared with something worth nothing (or the other way round)
                e = ["ref", rng.choice(POOL["E"])]
                z = gen_zeroish(rng, nv)
                k = rng.random()
                if k < 0.5:
                    st = ["cmp", rng.choice(OPS), e, z]
                elif k < 0.7 and kind(z, prog) == "E":
                    st = ["ineq", rng.choice(OPSTR), e, z] if rng.random() < 0.6 else ["ineq", rng.choice(OPSTR), z, e]
                elif k < 0.85:
                    st = ["sub", e, z]
                else:
                    st = ["cmp", rng.choice(OPS), z, e] if kind(z, prog) in "NS" else ["add", e, z]
            else:
                st = gen_ineq(rng, nv, d)
            prog.append(st)
            kinds.append(kind(st, prog))
            POOL[kinds[-1]].append(len(prog) - 1)
    finally:
        POOL = None
    return prog


def run_program(ctx: Ctx, prog, reqs, todo, stream="program") -> None:
    inp = {"program": prog}
    sz = sum(size(x) for x in prog)
    env, snaps = [], []
    ok = True
    for k, st in enumerate(prog):
        impl, obj = impl_run(st, env)
        if obj is None:
            ctx.spec_fail("operation-raised", inp, {"statement": k, "raised": impl}, size=sz)
            ok = False
            break
        env.append(obj)
        snaps.append(snapshot(obj))
        for j in range(k):
            now = snapshot(env[j])
            if now != snaps[j]:
                ctx.spec_fail("operand_mutated", inp, {"statement": k, "mutated_value": j, "before": repr(snaps[j]),
                                                        "after": repr(now)}, size=sz)
                ok = False
                break
        if not ok:
            break
        if not spec_on_impl(ctx, st, obj, inp, prog):
            ok = False
            break
    # at the END of the program every object must still mean what its definition says
    for k in range(len(env)):
        if ok and not spec_on_impl(ctx, prog[k], env[k], inp, prog, when="@end"):
            ok = False
        if expanded_size(prog[k], prog) <= 300:
            reqs.append("P tree " + tokens(prog[k], prog))
            todo.append((inp, obj_out(env[k]), sz))
    ctx.case(stream, repr(prog), nontrivial=any(x[0] == "ref" for st in prog for x in _walk(st)),
             sample={"program": [tokens_refs(st) for st in prog]})
    ctx.count("program:len%d" % len(prog))
    ctx.count("program:reuses%d" % min(6, sum(1 for st in prog for x in _walk(st) if x[0] == "ref")))


def _walk(t):
    yield t
    for x in t[1:]:
        if isinstance(x, list):
            yield from _walk(x)


def tokens_refs(t) -> str:
    if t[0] == "ref":
        return f"v{t[1]}"
    if t[0] in ("S", "N", "L"):
        return tokens(t)
    return t[0] + " " + " ".join(tokens_refs(x) if isinstance(x, list) else str(x) for x in t[1:])


# ------------------------------------------------------------------ driver
def one(ctx: Ctx, t, reqs, todo, stream="tree", wellformed=True) -> None:
    inp = {"tree": t, "wellformed": wellformed}
    impl, obj = impl_run(t)
    if impl.startswith("err") and (wellformed or impl not in ("err:TypeError", "err:Exception")):
        ctx.spec_fail("operation-raised", inp, {"raised": impl}, size=size(t))
    reqs.append("P tree " + tokens(t))
    todo.append((inp, impl, size(t)))
    if obj is not None:
        spec_on_impl(ctx, t, obj, inp)
    if isinstance(obj, (pb.Literal, pb.Term, pb.Expr, pb.Ineq)):
        try:
            txt = obj.tostr()
        except Exception as e:
            txt = "err:" + type(e).__name__
            ctx.spec_fail("operation-raised", inp, {"tostr raised": repr(e)[:200]}, size=size(t))
        reqs.append("P tostr " + tokens(t))
        todo.append((dict(inp, tostr=True), txt, size(t)))
    ctx.case(stream, tokens(t), nontrivial=size(t) >= 4 and bool(tree_vars(t)),
             sample={"tree": tokens(t), "impl": impl})
    ctx.count("kind:" + (impl.split()[0] if not impl.startswith("err") else impl))
    ctx.count("vars:%d" % len(tree_vars(t)))


def compare(ctx: Ctx, todo, replies) -> None:
    for (inp, impl, sz), model in zip(todo, replies):
        if impl != model:
            ctx.disagree("program" if "program" in inp else "tostr" if inp.get("tostr") else "tree", inp, impl, model, size=sz)


def run(ctx: Ctx) -> None:
    ctx.rule = ("random expression trees (depth ≤ 4 quick / ≤ 6 thorough) over ≤ 6 variables: literals of both polarities, "
                "-x, int/float multiples (incl. 0, negatives, non-integral floats → int() truncation), +, - with str / number / "
                "literal / term / expression operands, reflected + and comparisons, the five comparison operators and direct "
                "Ineq(a, b, op) calls with all six operator strings; ~x, +x, sum() from 0 / from a start value, Ineq(E, x, op) with any operand kind; 10% rejected combinations (operators no class "
                "defines, reflected subtraction, Ineq objects as operands of every operator, refused constructor arguments; exception class "
                "compared); tostr() of every built object compared; "
                "non-trivial = at least 4 tree nodes and one variable; distinct = distinct token string; "
                "program stream: 2–7 statements, each a small tree whose operands are, with probability 0.45–0.6 per position, "
                "the OBJECT built by an earlier statement; 15% of the statements compare / subtract an earlier expression "
                "with 0, 0.0 or an empty expression; non-trivial = at least one reuse")
    ctx.assumptions += [
        "numbers reaching int() are ints or finite floats (nan/inf raise inside int(), outside the model)",
        "Expr objects are built through the operators (or Expr(c, t) with t[k].L.v == k), never by mutating .t directly",
        "operations never mutate their operands (checked on every statement of every program: snapshot before / after) — this is what lets the functional model speak about programs that reuse objects",
    ]
    reqs, todo = [], []
    n = ctx.n(8000, 300000)
    md = 4 if ctx.tier == "quick" else 6
    for t in getattr(ctx, "seed_inputs", []) or []:
        if isinstance(t, dict) and "tree" in t:
            one(ctx, t["tree"], reqs, todo, "seed", t.get("wellformed", True))
        elif isinstance(t, dict) and "program" in t:
            run_program(ctx, t["program"], reqs, todo, "seed")
    for _ in range(n):
        t, wf = gen_tree(ctx.rng, md)
        one(ctx, t, reqs, todo, "tree", wf)
    for _ in range(ctx.n(4000, 100000)):
        run_program(ctx, gen_program(ctx.rng, md), reqs, todo)
    if ctx.tier == "thorough" and ctx.budget <= 1.0:
        cnt = 0
        for t in exhaustive_trees():
            one(ctx, t, reqs, todo, "exhaustive")
            cnt += 1
        ctx.extra["exhaustive_small_trees"] = cnt
    replies = ctx.model(reqs)
    if replies is None:
        ctx.notes.append("model driver unavailable: correspondence not run")
        return
    compare(ctx, todo, replies)


def replay(ctx: Ctx, body: dict) -> None:
    reqs, todo = [], []
    if "program" in body["input"]:
        run_program(ctx, body["input"]["program"], reqs, todo)
    else:
        one(ctx, body["input"]["tree"], reqs, todo, "tree", body["input"].get("wellformed", True))
    replies = ctx.model(reqs)
    if replies:
        compare(ctx, todo, replies)
